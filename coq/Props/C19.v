(* C19 — serde (JSON) representations round-trip.
   Statements only (pinned by Check), `exact` proofs and assumption audits.
   serde, serde_derive, serde_json, serde-big-array and the serde impls of fixed-hash / curve25519-dalek are MODELLED
   (Model/Json.v: the JSON value type, the compact printer `print_json`, one writer `to_json_T` and one reader `of_json_T`
   per type after serde's derive conventions).  The theorems are about that data model; that the model is what the
   derives and serde_json do is the correspondence check (byte equality of the printed text with serde_json::to_string,
   agreement of the readers with serde_json::from_str on accepted and on mutated JSON values).
   `wf_*` (Proofs/JsonProofs.v) only say that a value inhabits its Rust type: integers within their width, arrays of their
   fixed length.  Amounts and JSON numbers are in Z. *)
From MRS Require Import Proofs.JsonProofs Proofs.AddressProofs Model.Keccak Model.Ed25519 Model.OpsJson.
From Coq Require Import String.
Open Scope list_scope.
Open Scope Z_scope.

(* Hash: newtype around [u8; 32] -> array of 32 numbers *)
Theorem C19_roundtrip_hash : forall k, is_key k -> of_json_hash (to_json_hash k) = Some k.
Proof. exact hash_rt. Qed.

(* Hash8 -> array of 8 numbers *)
Theorem C19_roundtrip_hash8 : forall k, is_hash8 k -> of_json_hash8 (to_json_hash k) = Some k.
Proof. exact hash8_rt. Qed.

(* ringct::Key { key: [u8; 32] } *)
Theorem C19_roundtrip_key : forall k, is_key k -> of_json_key (to_json_key k) = Some k.
Proof. exact key_rt. Qed.

(* Key64 { keys: [Key; 64] } through the big-array helper (the model keeps the 2048 bytes) *)
Theorem C19_roundtrip_key64 : forall k, is_key64 k -> of_json_key64 (to_json_key64 k) = Some k.
Proof. exact key64_rt. Qed.

(* subaddress::Index { major: u32, minor: u32 } *)
Theorem C19_roundtrip_index : forall i, wf_index i -> of_json_index (to_json_index i) = Some i.
Proof. exact index_rt. Qed.

(* BlockHeader *)
Theorem C19_roundtrip_header : forall h, wf_header h -> of_json_header (to_json_header h) = Some h.
Proof. exact header_rt. Qed.

(* TxIn: struct variants Gen / ToKey *)
Theorem C19_roundtrip_txin : forall i, wf_txin i -> of_json_txin (to_json_txin i) = Some i.
Proof. exact txin_rt. Qed.

(* TxOutTarget: struct variants ToKey / ToTaggedKey *)
Theorem C19_roundtrip_target : forall t, wf_target t -> of_json_target (to_json_target t) = Some t.
Proof. exact target_rt. Qed.

(* TxOut *)
Theorem C19_roundtrip_txout : forall o, wf_txout o -> of_json_txout (to_json_txout o) = Some o.
Proof. exact txout_rt. Qed.

(* TransactionPrefix (extra: RawExtraField is transparent -> array of numbers of any length) *)
Theorem C19_roundtrip_prefix : forall p, wf_prefix p -> of_json_prefix (to_json_prefix p) = Some p.
Proof. exact prefix_rt. Qed.

(* Signature { c, r } *)
Theorem C19_roundtrip_signature : forall s, wf_signature s -> of_json_signature (to_json_signature s) = Some s.
Proof. exact signature_rt. Qed.

(* EcdhInfo: struct variants Standard / Bulletproof *)
Theorem C19_roundtrip_ecdh : forall e, wf_ecdh e -> of_json_ecdh (to_json_ecdh e) = Some e.
Proof. exact ecdh_rt. Qed.

(* RangeSig { asig: BoroSig, Ci: Key64 } *)
Theorem C19_roundtrip_rangesig : forall r, wf_rangesig r -> of_json_rangesig (to_json_rangesig r) = Some r.
Proof. exact rangesig_rt. Qed.

(* MgSig { ss: Vec<Vec<Key>>, cc } *)
Theorem C19_roundtrip_mgsig : forall m, wf_mgsig m -> of_json_mgsig (to_json_mgsig m) = Some m.
Proof. exact mgsig_rt. Qed.

(* Clsag { s, c1, D } *)
Theorem C19_roundtrip_clsag : forall c, wf_clsag c -> of_json_clsag (to_json_clsag c) = Some c.
Proof. exact clsag_rt. Qed.

(* Bulletproof *)
Theorem C19_roundtrip_bulletproof : forall p, wf_bulletproof p -> of_json_bulletproof (to_json_bulletproof p) = Some p.
Proof. exact bulletproof_rt. Qed.

(* BulletproofPlus *)
Theorem C19_roundtrip_bpplus : forall p, wf_bpplus p -> of_json_bpplus (to_json_bpplus p) = Some p.
Proof. exact bpplus_rt. Qed.

(* RctSigBase: rct_type as the variant name, txn_fee through as_pico *)
Theorem C19_roundtrip_rct_base : forall b, wf_rct_base b -> of_json_rct_base (to_json_rct_base b) = Some b.
Proof. exact rct_base_rt. Qed.

(* RctSigPrunable *)
Theorem C19_roundtrip_rct_prunable : forall p, wf_rct_prunable p -> of_json_rct_prunable (to_json_rct_prunable p) = Some p.
Proof. exact rct_prunable_rt. Qed.

(* RctSig { sig: Option<_>, p: Option<_> }: null / object, all four combinations *)
Theorem C19_roundtrip_rct_sig : forall r, wf_rct_sig r -> of_json_rct_sig (to_json_rct_sig r) = Some r.
Proof. exact rct_sig_rt. Qed.

(* Transaction *)
Theorem C19_roundtrip_tx : forall t, wf_tx t -> of_json_tx (to_json_tx t) = Some t.
Proof. exact tx_rt. Qed.

(* Block *)
Theorem C19_roundtrip_block : forall b, wf_block b -> of_json_block (to_json_block b) = Some b.
Proof. exact block_rt. Qed.

(* RctType: unit variants -> the variant name as a string *)
Theorem C19_roundtrip_rct_type : forall t, of_json_rct_type (to_json_rct_type t) = Some t.
Proof. exact rct_type_rt. Qed.

(* Address (valid keys, 8-byte payment id): by C12's text round trip; to_string does not panic *)
Theorem C19_roundtrip_address : forall (H : bytes -> bytes) (valid_pk : bytes -> bool),
  (forall m, List.length (H m) = 32%nat) -> (forall k, valid_pk k = true -> List.length k = 32%nat) ->
  forall a, wf_addr valid_pk a ->
    exists j, to_json_address H a = Ok j /\ of_json_address H valid_pk j = Some a.
Proof. intros H valid_pk Hl Hv. exact (address_rt H valid_pk Hl Hv). Qed.

(* the JSON of an address is the JSON string whose content is the text of C12; no character of it needs an escape *)
Theorem C19_address_is_text : forall (H : bytes -> bytes) (valid_pk : bytes -> bool),
  (forall m, List.length (H m) = 32%nat) -> (forall k, valid_pk k = true -> List.length k = 32%nat) ->
  forall a, wf_addr valid_pk a ->
    exists s, addr_to_string H a = Ok s /\ to_json_address H a = Ok (JStr s) /\ print_json (JStr s) = x22 :: s ++ [x22].
Proof. intros H valid_pk Hl Hv. exact (address_is_text H valid_pk Hl Hv). Qed.

(* a JSON string that Address::from_str refuses is not an address *)
Theorem C19_address_rejects_invalid : forall (H : bytes -> bytes) (valid_pk : bytes -> bool) s,
  (forall a, addr_from_str H valid_pk s <> Ok a) -> of_json_address H valid_pk (JStr s) = None.
Proof. exact address_rejects_invalid. Qed.

(* nothing but a JSON string is an address, and a string exactly when from_str accepts it *)
Theorem C19_address_accepts_exactly : forall (H : bytes -> bytes) (valid_pk : bytes -> bool) j a,
  of_json_address H valid_pk j = Some a <-> exists s, j = JStr s /\ addr_from_str H valid_pk s = Ok a.
Proof. exact address_of_json. Qed.

(* whatever is accepted is the JSON the address itself serialises to (C12_only_canonical_text) *)
Theorem C19_address_only_canonical : forall (H : bytes -> bytes) (valid_pk : bytes -> bool),
  (forall m, List.length (H m) = 32%nat) -> (forall k, valid_pk k = true -> List.length k = 32%nat) ->
  forall j a, of_json_address H valid_pk j = Some a -> to_json_address H a = Ok j /\ wf_addr valid_pk a.
Proof. intros H valid_pk Hl Hv. exact (address_canonical H valid_pk Hl Hv). Qed.

(* the instance used by the correspondence check: Keccak-256, Ed25519 key test *)
Theorem C19_address_keccak_ed25519 : forall a, wf_addr pk_valid a ->
  exists j, to_json_address keccak256 a = Ok j /\ of_json_address keccak256 pk_valid j = Some a.
Proof. exact (address_rt keccak256 pk_valid keccak256_length32 pk_valid_length32). Qed.

(* as_pico (full u64 / i64) and as_xmr (|a| <= 2^63-1, by C15_roundtrip) for Amount (sg = false) and SignedAmount (sg = true); never panics *)
Theorem C19_amounts : forall sg k a, amt_ok sg k a ->
  exists j, to_json_amt sg k a = AOk j /\ of_json_amt sg k j = Some a /\ j <> JNull.
Proof. exact amt_rt. Qed.

(* the ::opt modules: None <-> null *)
Theorem C19_amounts_opt : forall sg k o, wf_opt (amt_ok sg k) o ->
  exists j, to_json_amt_opt sg k o = AOk j /\ of_json_amt_opt sg k j = Some o.
Proof. exact amt_opt_rt. Qed.

(* ::slice::serialize / ::vec::deserialize_* *)
Theorem C19_amounts_vec : forall sg k l, Forall (amt_ok sg k) l ->
  exists j, to_json_amt_vec sg k l = AOk j /\ of_json_amt_vec sg k j = Some l.
Proof. exact amt_vec_rt. Qed.

(* the domain of the three theorems above, spelled out *)
Theorem C19_amounts_domain : forall sg k a, amt_ok sg k a <->
  match k, sg with
  | KPico, false => 0 <= a <= 2 ^ 64 - 1 | KPico, true => - 2 ^ 63 <= a <= 2 ^ 63 - 1
  | KXmr, false => 0 <= a <= 2 ^ 63 - 1 | KXmr, true => - (2 ^ 63 - 1) <= a <= 2 ^ 63 - 1
  end.
Proof. exact amt_ok_spec. Qed.

(* beyond C15's parsing limit the monero string is still written but is refused on reading (Amount above 2^63-1, SignedAmount::MIN) *)
Theorem C19_xmr_limit : (forall a, 2 ^ 63 - 1 < a <= 2 ^ 64 - 1 -> exists j, to_json_xmr_u a = AOk j /\ of_json_xmr_u j = None) /\
  (exists j, to_json_xmr_s (- 2 ^ 63) = AOk j /\ of_json_xmr_s j = None).
Proof. split; [exact xmr_u_limit|exact xmr_s_limit]. Qed.

(* serialising an amount never panics: every u64 / i64, also where the monero string will not be read back *)
Theorem C19_amounts_total : forall sg k a, amt_in_type sg a -> exists j, to_json_amt sg k a = AOk j /\ j <> JNull.
Proof. exact amt_total. Qed.

(* likewise through ::opt and ::slice *)
Theorem C19_amounts_opt_vec_total : forall sg k,
  (forall o, wf_opt (amt_in_type sg) o -> exists j, to_json_amt_opt sg k o = AOk j) /\
  (forall l, Forall (amt_in_type sg) l -> exists j, to_json_amt_vec sg k l = AOk j).
Proof. exact amt_opt_vec_total. Qed.

(* the range of the two amount types *)
Theorem C19_amounts_type_range : forall sg a, amt_in_type sg a <-> if sg then - 2 ^ 63 <= a <= 2 ^ 63 - 1 else 0 <= a <= 2 ^ 64 - 1.
Proof. intros sg a. reflexivity. Qed.

(* non-vacuity / known answers: the exact text serde_json writes, and what the readers accept and refuse *)
Definition txt (j : json) : string := string_of_bytes (print_json j).
Example C19_ex_text :
  txt (to_json_index (mk_index 1 4294967295)) = "{""major"":1,""minor"":4294967295}"%string /\
  txt (to_json_txin (Gen 5)) = "{""Gen"":{""height"":5}}"%string /\
  txt (to_json_target (TTagged [x01; xff] 7)) = "{""ToTaggedKey"":{""key"":[1,255],""view_tag"":7}}"%string /\
  txt (to_json_rct_sig (mk_rct (Some (mk_base RClsag 18446744073709551615 [] [EBulletproof [x00]] [[x02]])) None)) =
    "{""sig"":{""rct_type"":""Clsag"",""txn_fee"":18446744073709551615,""pseudo_outs"":[],""ecdh_info"":[{""Bulletproof"":{""amount"":[0]}}],""out_pk"":[{""mask"":{""key"":[2]}}]},""p"":null}"%string /\
  txt (JObj [("a"%string, JArr [JNum (-5); JNull; JBool true; JStr [x22; x5c; x01; x0a; x7f; xc3; xa9]])]) =
    String.append "{""a"":[-5,null,true,""\""\\\u0001\n" (String.append (string_of_bytes [x7f; xc3; xa9]) """]}")%string.
Proof. repeat split; vm_compute; reflexivity. Qed.
Example C19_ex_amounts :
  to_json_amt false KXmr 1 = AOk (JStr (bs "0.000000000001")) /\
  to_json_amt true KXmr (- (2 ^ 63 - 1)) = AOk (JStr (bs "-9223372.036854775807")) /\
  of_json_amt false KXmr (JStr (bs "18446744.073709551615")) = None /\
  of_json_amt false KXmr (JStr (bs "1.5")) = Some 1500000000000 /\
  of_json_amt false KXmr (JNum 1) = None /\ of_json_amt false KPico (JNum (2 ^ 64)) = None /\
  of_json_amt true KPico (JNum (- 2 ^ 63)) = Some (- 2 ^ 63) /\ of_json_amt false KPico (JNum (-1)) = None /\
  of_json_amt_opt false KPico JNull = Some None /\ of_json_amt_vec true KPico (JArr [JNum 1; JNum (-1)]) = Some [1; -1].
Proof. repeat split. Qed.
(* how strict the derived readers are: unknown members ignored, duplicated / missing members refused, positional form,
   an absent Option member is None, numbers checked against the width, arrays against the fixed length *)
Example C19_ex_readers :
  of_json_index (JObj [("minor"%string, JNum 2); ("x"%string, JNull); ("major"%string, JNum 1)]) = Some (mk_index 1 2) /\
  of_json_index (JObj [("major"%string, JNum 1); ("minor"%string, JNum 2); ("major"%string, JNum 1)]) = None /\
  of_json_index (JObj [("major"%string, JNum 1)]) = None /\
  of_json_index (JArr [JNum 1; JNum 2]) = Some (mk_index 1 2) /\ of_json_index (JArr [JNum 1; JNum 2; JNum 3]) = None /\
  of_json_index (JObj [("major"%string, JNum 1); ("minor"%string, JNum 4294967296)]) = None /\
  of_json_rct_sig (JObj []) = Some (mk_rct None None) /\
  of_json_rct_type (JObj [("Null"%string, JNull)]) = Some RNull /\ of_json_rct_type (JStr (bs "null")) = None /\
  of_json_txin (JStr (bs "Gen")) = None /\
  of_json_txin (JObj [("Gen"%string, JObj [("height"%string, JNum 5)]); ("ToKey"%string, JNull)]) = None /\
  of_json_hash8 (JArr (repeat (JNum 1) 7)) = None /\ of_json_hash8 (JArr (repeat (JNum 256) 8)) = None.
Proof. repeat split. Qed.

Check C19_roundtrip_hash : forall k, is_key k -> of_json_hash (to_json_hash k) = Some k.

Check C19_roundtrip_hash8 : forall k, is_hash8 k -> of_json_hash8 (to_json_hash k) = Some k.

Check C19_roundtrip_key : forall k, is_key k -> of_json_key (to_json_key k) = Some k.

Check C19_roundtrip_key64 : forall k, is_key64 k -> of_json_key64 (to_json_key64 k) = Some k.

Check C19_roundtrip_index : forall i, wf_index i -> of_json_index (to_json_index i) = Some i.

Check C19_roundtrip_header : forall h, wf_header h -> of_json_header (to_json_header h) = Some h.

Check C19_roundtrip_txin : forall i, wf_txin i -> of_json_txin (to_json_txin i) = Some i.

Check C19_roundtrip_target : forall t, wf_target t -> of_json_target (to_json_target t) = Some t.

Check C19_roundtrip_txout : forall o, wf_txout o -> of_json_txout (to_json_txout o) = Some o.

Check C19_roundtrip_prefix : forall p, wf_prefix p -> of_json_prefix (to_json_prefix p) = Some p.

Check C19_roundtrip_signature : forall s, wf_signature s -> of_json_signature (to_json_signature s) = Some s.

Check C19_roundtrip_ecdh : forall e, wf_ecdh e -> of_json_ecdh (to_json_ecdh e) = Some e.

Check C19_roundtrip_rangesig : forall r, wf_rangesig r -> of_json_rangesig (to_json_rangesig r) = Some r.

Check C19_roundtrip_mgsig : forall m, wf_mgsig m -> of_json_mgsig (to_json_mgsig m) = Some m.

Check C19_roundtrip_clsag : forall c, wf_clsag c -> of_json_clsag (to_json_clsag c) = Some c.

Check C19_roundtrip_bulletproof : forall p, wf_bulletproof p -> of_json_bulletproof (to_json_bulletproof p) = Some p.

Check C19_roundtrip_bpplus : forall p, wf_bpplus p -> of_json_bpplus (to_json_bpplus p) = Some p.

Check C19_roundtrip_rct_base : forall b, wf_rct_base b -> of_json_rct_base (to_json_rct_base b) = Some b.

Check C19_roundtrip_rct_prunable : forall p, wf_rct_prunable p -> of_json_rct_prunable (to_json_rct_prunable p) = Some p.

Check C19_roundtrip_rct_sig : forall r, wf_rct_sig r -> of_json_rct_sig (to_json_rct_sig r) = Some r.

Check C19_roundtrip_tx : forall t, wf_tx t -> of_json_tx (to_json_tx t) = Some t.

Check C19_roundtrip_block : forall b, wf_block b -> of_json_block (to_json_block b) = Some b.

Check C19_roundtrip_rct_type : forall t, of_json_rct_type (to_json_rct_type t) = Some t.

Check C19_roundtrip_address : forall (H : bytes -> bytes) (valid_pk : bytes -> bool),
  (forall m, List.length (H m) = 32%nat) -> (forall k, valid_pk k = true -> List.length k = 32%nat) ->
  forall a, wf_addr valid_pk a ->
    exists j, to_json_address H a = Ok j /\ of_json_address H valid_pk j = Some a.

Check C19_address_is_text : forall (H : bytes -> bytes) (valid_pk : bytes -> bool),
  (forall m, List.length (H m) = 32%nat) -> (forall k, valid_pk k = true -> List.length k = 32%nat) ->
  forall a, wf_addr valid_pk a ->
    exists s, addr_to_string H a = Ok s /\ to_json_address H a = Ok (JStr s) /\ print_json (JStr s) = x22 :: s ++ [x22].

Check C19_address_rejects_invalid : forall (H : bytes -> bytes) (valid_pk : bytes -> bool) s,
  (forall a, addr_from_str H valid_pk s <> Ok a) -> of_json_address H valid_pk (JStr s) = None.

Check C19_address_accepts_exactly : forall (H : bytes -> bytes) (valid_pk : bytes -> bool) j a,
  of_json_address H valid_pk j = Some a <-> exists s, j = JStr s /\ addr_from_str H valid_pk s = Ok a.

Check C19_address_only_canonical : forall (H : bytes -> bytes) (valid_pk : bytes -> bool),
  (forall m, List.length (H m) = 32%nat) -> (forall k, valid_pk k = true -> List.length k = 32%nat) ->
  forall j a, of_json_address H valid_pk j = Some a -> to_json_address H a = Ok j /\ wf_addr valid_pk a.

Check C19_address_keccak_ed25519 : forall a, wf_addr pk_valid a ->
  exists j, to_json_address keccak256 a = Ok j /\ of_json_address keccak256 pk_valid j = Some a.

Check C19_amounts : forall sg k a, amt_ok sg k a ->
  exists j, to_json_amt sg k a = AOk j /\ of_json_amt sg k j = Some a /\ j <> JNull.

Check C19_amounts_opt : forall sg k o, wf_opt (amt_ok sg k) o ->
  exists j, to_json_amt_opt sg k o = AOk j /\ of_json_amt_opt sg k j = Some o.

Check C19_amounts_vec : forall sg k l, Forall (amt_ok sg k) l ->
  exists j, to_json_amt_vec sg k l = AOk j /\ of_json_amt_vec sg k j = Some l.

Check C19_amounts_domain : forall sg k a, amt_ok sg k a <->
  match k, sg with
  | KPico, false => 0 <= a <= 2 ^ 64 - 1 | KPico, true => - 2 ^ 63 <= a <= 2 ^ 63 - 1
  | KXmr, false => 0 <= a <= 2 ^ 63 - 1 | KXmr, true => - (2 ^ 63 - 1) <= a <= 2 ^ 63 - 1
  end.

Check C19_xmr_limit : (forall a, 2 ^ 63 - 1 < a <= 2 ^ 64 - 1 -> exists j, to_json_xmr_u a = AOk j /\ of_json_xmr_u j = None) /\
  (exists j, to_json_xmr_s (- 2 ^ 63) = AOk j /\ of_json_xmr_s j = None).


Check C19_amounts_total : forall sg k a, amt_in_type sg a -> exists j, to_json_amt sg k a = AOk j /\ j <> JNull.

Check C19_amounts_opt_vec_total : forall sg k,
  (forall o, wf_opt (amt_in_type sg) o -> exists j, to_json_amt_opt sg k o = AOk j) /\
  (forall l, Forall (amt_in_type sg) l -> exists j, to_json_amt_vec sg k l = AOk j).

Check C19_amounts_type_range : forall sg a, amt_in_type sg a <-> if sg then - 2 ^ 63 <= a <= 2 ^ 63 - 1 else 0 <= a <= 2 ^ 64 - 1.

Print Assumptions C19_roundtrip_hash.
Print Assumptions C19_roundtrip_hash8.
Print Assumptions C19_roundtrip_key.
Print Assumptions C19_roundtrip_key64.
Print Assumptions C19_roundtrip_index.
Print Assumptions C19_roundtrip_header.
Print Assumptions C19_roundtrip_txin.
Print Assumptions C19_roundtrip_target.
Print Assumptions C19_roundtrip_txout.
Print Assumptions C19_roundtrip_prefix.
Print Assumptions C19_roundtrip_signature.
Print Assumptions C19_roundtrip_ecdh.
Print Assumptions C19_roundtrip_rangesig.
Print Assumptions C19_roundtrip_mgsig.
Print Assumptions C19_roundtrip_clsag.
Print Assumptions C19_roundtrip_bulletproof.
Print Assumptions C19_roundtrip_bpplus.
Print Assumptions C19_roundtrip_rct_base.
Print Assumptions C19_roundtrip_rct_prunable.
Print Assumptions C19_roundtrip_rct_sig.
Print Assumptions C19_roundtrip_tx.
Print Assumptions C19_roundtrip_block.
Print Assumptions C19_roundtrip_rct_type.
Print Assumptions C19_roundtrip_address.
Print Assumptions C19_address_is_text.
Print Assumptions C19_address_rejects_invalid.
Print Assumptions C19_address_accepts_exactly.
Print Assumptions C19_address_only_canonical.
Print Assumptions C19_address_keccak_ed25519.
Print Assumptions C19_amounts.
Print Assumptions C19_amounts_opt.
Print Assumptions C19_amounts_vec.
Print Assumptions C19_amounts_domain.
Print Assumptions C19_xmr_limit.
Print Assumptions C19_amounts_total.
Print Assumptions C19_amounts_opt_vec_total.
Print Assumptions C19_amounts_type_range.
