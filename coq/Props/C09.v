(* C09 — placeholder, replaced below by the real statements. *)
From MRS Require Import Proofs.ScanProofs.
Theorem C09_placeholder : True. Proof. exact I. Qed.
Check C09_placeholder : True.
Print Assumptions C09_placeholder.
