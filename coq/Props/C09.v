(* C09 — the recovered one-time secret key matches the output's one-time public key.
   Model: Model/Scan.v (KeyRecoverer::{new, recover}, OwnedTxOut::recover_key), Model/Subaddr.v (get_spend_secret_key).
   Curve-dependent theorems hold for EVERY instance (E, LW) of EdLaws and every hash - `_partial`.
   This file contains only statements (pinned by Check), `exact` proofs, non-vacuity Examples and assumption audits. *)
From MRS Require Import Proofs.ScanProofs Proofs.ScanToy.
Open Scope Z_scope.

(* x = Hs(rv || varint position) + s', s' = s for index (0,0) and s + Hs("SubAddr\0"||v||i||j) otherwise, all modulo l (snd g = rv = 8*(v*K)) *)
Theorem C09_recover_scalar : forall (E : EdOps) (Hs : hs_fun) v s g i idx,
  recover Hs v s g i idx = (Hs (snd g ++ enc_varint (i mod 2 ^ 64)%N) + get_spend_secret_key Hs v s idx) mod ell /\
  (is_zero idx = true -> get_spend_secret_key Hs v s idx = s) /\
  (is_zero idx = false -> get_spend_secret_key Hs v s idx = (s + get_secret_scalar Hs v idx) mod ell).
Proof. intros E Hs v s g i idx. split; [exact (recover_spec Hs v s g i idx)|]. unfold get_spend_secret_key. split; intros ->; reflexivity. Qed.

(* x*G = Hs(rv||i)*G + S_idx: the recovered secret is the secret of the one-time key of address idx at that position, for every generator g *)
Theorem C09_recover_partial : forall (E : EdOps) (LW : EdLaws E) (Hs : hs_fun) v s g i idx P Sidx,
  get_spend_public_key Hs v (pk_from_priv s) idx = Ok Sidx ->
  one_time_key Hs (Sidx, snd g) i = Ok P ->
  pk_from_priv (recover Hs v s g i idx) = P.
Proof. intros E LW Hs. exact (recover_public Hs). Qed.

(* for EVERY output reported as owned by a scan with the view pair (v, sG): OwnedTxOut::recover_key returns x (no panic) with
   x = Hs(8v K||pos) + s_idx mod l and x*G = the output's one-time public key *)
Theorem C09_owned_recover_partial : forall (E : EdOps) (LW : EdLaws E) (Hs : hs_fun) (Hb : bytes -> bytes) v s a b c d p rct l w,
  prefix_check_outputs Hs Hb v (pk_from_priv s) a b c d p rct = SOk l -> In w l ->
  exists g x,
    from_key v (pk_from_priv s) (ow_key w) = Ok g /\
    owned_recover_key Hs v s w = Ok x /\
    x = (Hs (snd g ++ enc_varint (ow_pos w mod 2 ^ 64)%N) + get_spend_secret_key Hs v s (ow_index w)) mod ell /\
    as_one_time_key (o_target (ow_out w)) = Some (pk_from_priv x).
Proof. intros E LW Hs Hb. exact (owned_recover Hs Hb). Qed.

(* non-vacuity: on the toy instance, the recovered keys of the two owned outputs of the toy scan are the secrets of their targets *)
Example C09_ex_toy_recover : toy_recovered toy_w0 = Some toy_P0 /\ toy_recovered toy_w1 = Some toy_P1.
Proof. vm_compute. split; reflexivity. Qed.

Check C09_recover_scalar : forall (E : EdOps) (Hs : hs_fun) v s g i idx,
  recover Hs v s g i idx = (Hs (snd g ++ enc_varint (i mod 2 ^ 64)%N) + get_spend_secret_key Hs v s idx) mod ell /\
  (is_zero idx = true -> get_spend_secret_key Hs v s idx = s) /\
  (is_zero idx = false -> get_spend_secret_key Hs v s idx = (s + get_secret_scalar Hs v idx) mod ell).
Check C09_recover_partial : forall (E : EdOps) (LW : EdLaws E) (Hs : hs_fun) v s g i idx P Sidx,
  get_spend_public_key Hs v (pk_from_priv s) idx = Ok Sidx ->
  one_time_key Hs (Sidx, snd g) i = Ok P ->
  pk_from_priv (recover Hs v s g i idx) = P.
Check C09_owned_recover_partial : forall (E : EdOps) (LW : EdLaws E) (Hs : hs_fun) (Hb : bytes -> bytes) v s a b c d p rct l w,
  prefix_check_outputs Hs Hb v (pk_from_priv s) a b c d p rct = SOk l -> In w l ->
  exists g x,
    from_key v (pk_from_priv s) (ow_key w) = Ok g /\
    owned_recover_key Hs v s w = Ok x /\
    x = (Hs (snd g ++ enc_varint (ow_pos w mod 2 ^ 64)%N) + get_spend_secret_key Hs v s (ow_index w)) mod ell /\
    as_one_time_key (o_target (ow_out w)) = Some (pk_from_priv x).

Print Assumptions C09_recover_scalar.
Print Assumptions C09_recover_partial.
Print Assumptions C09_owned_recover_partial.

(* ==== end-to-end compositions (Proofs/ScanEndToEnd.v) ============================================================ *)
From MRS Require Import Proofs.ScanEndToEnd.

(* composition with C07 completeness: for an output built by the sender of Spec/Sender.v for an in-range address of the wallet
   (v, s*G) (key = first TxPublicKey or the additional key at its position, correct or absent tag), a successful scan reports it and
   OwnedTxOut::recover_key returns x with x*G = P, the sender's one-time public key Hs(D||k)G + S_d (no no-other-match hypothesis
   is needed: whichever key / index the scan reports for that position, the recovered scalar opens the output's key) *)
Theorem C09_recovered_key_opens_sender_output_partial : forall (E : EdOps) (LW : EdLaws E) (Hs : hs_fun) (Hb : bytes -> bytes) v s a b c d p rct l fields main k o maj min r,
  prefix_check_outputs Hs Hb v (pk_from_priv s) a b c d p rct = SOk l ->
  raw_try_parse valid_pk_b (extra p) = Ok fields -> tx_pubkey fields = Some main ->
  nth_error (outputs p) k = Some o -> (N.of_nat k < 2 ^ 64)%N ->
  in_ranges a b c d (maj, min) ->
  let dst := wallet_address Hs v (smul s G) maj min in
  let snt := send Hs Hb r dst (N.of_nat k) in
  let K := compress (sn_key snt) in
  (o_target o = TKey (compress (sn_onetime snt)) \/ o_target o = TTagged (compress (sn_onetime snt)) (b2n (sn_tag snt))) ->
  (K = main \/ nth_error (adds_of fields) k = Some K) ->
  exists w x, In w l /\ ow_pos w = N.of_nat k /\ ow_out w = o /\
    owned_recover_key Hs v s w = Ok x /\ smul x G = sn_onetime snt /\ pk_from_priv x = compress (sn_onetime snt).
Proof. intros E LW Hs Hb. exact (sender_recover Hs Hb). Qed.


Check C09_recovered_key_opens_sender_output_partial : forall (E : EdOps) (LW : EdLaws E) (Hs : hs_fun) (Hb : bytes -> bytes) v s a b c d p rct l fields main k o maj min r,
  prefix_check_outputs Hs Hb v (pk_from_priv s) a b c d p rct = SOk l ->
  raw_try_parse valid_pk_b (extra p) = Ok fields -> tx_pubkey fields = Some main ->
  nth_error (outputs p) k = Some o -> (N.of_nat k < 2 ^ 64)%N ->
  in_ranges a b c d (maj, min) ->
  let dst := wallet_address Hs v (smul s G) maj min in
  let snt := send Hs Hb r dst (N.of_nat k) in
  let K := compress (sn_key snt) in
  (o_target o = TKey (compress (sn_onetime snt)) \/ o_target o = TTagged (compress (sn_onetime snt)) (b2n (sn_tag snt))) ->
  (K = main \/ nth_error (adds_of fields) k = Some K) ->
  exists w x, In w l /\ ow_pos w = N.of_nat k /\ ow_out w = o /\
    owned_recover_key Hs v s w = Ok x /\ smul x G = sn_onetime snt /\ pk_from_priv x = compress (sn_onetime snt).

Print Assumptions C09_recovered_key_opens_sender_output_partial.
