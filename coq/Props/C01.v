(* C01 — parsed consensus data re-serialises to exactly the bytes that were parsed. *)
From MRS Require Import Proofs.CodecExact.
Open Scope N_scope.

(* `Exact d e` unfolds to: forall s a r, d s = (Ok a, r) -> s = e a ++ r
   (d: decoder returning the value and the unread rest; e: encoder). *)

Theorem C01_tx : forall sz s a r, dec_tx sz s = (Ok a, r) -> s = enc_tx a ++ r.
Proof. intros sz. exact (exact_pf (d := dec_tx sz)). Qed.

Theorem C01_block : forall sz s a r, dec_block sz s = (Ok a, r) -> s = enc_block a ++ r.
Proof. intros sz. exact (exact_pf (d := dec_block sz)). Qed.

Theorem C01_prefix : forall sz s a r, dec_prefix sz s = (Ok a, r) -> s = enc_prefix a ++ r.
Proof. intros sz. exact (exact_pf (d := dec_prefix sz)). Qed.

Theorem C01_header : forall s a r, dec_header s = (Ok a, r) -> s = enc_header a ++ r.
Proof. exact (exact_pf (d := dec_header)). Qed.

Theorem C01_components :
  (forall s a r, dec_txin s = (Ok a, r) -> s = enc_txin a ++ r) /\
  (forall s a r, dec_txout s = (Ok a, r) -> s = enc_txout a ++ r) /\
  (forall s a r, dec_target s = (Ok a, r) -> s = enc_target a ++ r) /\
  (forall s a r, dec_hash s = (Ok a, r) -> s = a ++ r) /\
  (forall s a r, dec_hash8 s = (Ok a, r) -> s = a ++ r) /\
  (forall s a r, dec_bytes_vec s = (Ok a, r) -> s = enc_bytes_vec a ++ r) /\
  (forall s a r, dec_varint s = (Ok a, r) -> s = enc_varint a ++ r) /\
  (forall s a r, dec_signature s = (Ok a, r) -> s = enc_signature a ++ r) /\
  (forall s a r, dec_rct_type s = (Ok a, r) -> s = enc_rct_type a ++ r) /\
  (forall t s a r, dec_ecdh t s = (Ok a, r) -> s = enc_ecdh a ++ r) /\
  (forall s a r, dec_rangesig s = (Ok a, r) -> s = enc_rangesig a ++ r) /\
  (forall s a r, dec_bulletproof s = (Ok a, r) -> s = enc_bulletproof a ++ r) /\
  (forall s a r, dec_bpplus s = (Ok a, r) -> s = enc_bpplus a ++ r) /\
  (forall m s a r, dec_clsag m s = (Ok a, r) -> s = enc_clsag a ++ r) /\
  (forall m c s a r, dec_mgsig m c s = (Ok a, r) -> s = enc_mgsig a ++ r) /\
  (forall i o s a r, dec_rct_base i o s = (Ok a, r) -> s = enc_rct_base a ++ r) /\
  (forall sz t i o m s a r, t <> RNull -> dec_rct_prunable sz t i o m s = (Ok a, r) -> s = enc_rct_prunable a t ++ r).
Proof.
  repeat split.
  - exact (exact_pf (d := dec_txin)).
  - exact (exact_pf (d := dec_txout)).
  - exact (exact_pf (d := dec_target)).
  - exact (exact_pf (d := dec_hash)).
  - exact (exact_pf (d := dec_hash8) (e := fun b => b)).
  - exact (exact_pf (d := dec_bytes_vec)).
  - exact (exact_pf (d := dec_varint)).
  - exact (exact_pf (d := dec_signature)).
  - exact (exact_pf (d := dec_rct_type)).
  - intros t. exact (exact_pf (d := dec_ecdh t)).
  - exact (exact_pf (d := dec_rangesig)).
  - exact (exact_pf (d := dec_bulletproof)).
  - exact (exact_pf (d := dec_bpplus)).
  - intros m. exact (exact_pf (d := dec_clsag m)).
  - intros m c. exact (exact_pf (d := dec_mgsig m c)).
  - intros i o. exact (exact_pf (d := dec_rct_base i o)).
  - intros sz t i o m s a r Ht H. exact (exact_rct_prunable sz t i o m s a r Ht H).
Qed.

(* vectors: any element decoder with the property lifts to Vec<T> / sized vectors, for every size_of *)
Theorem C01_vectors : forall A (d : dec A) (e : A -> bytes),
  (forall s a r, d s = (Ok a, r) -> s = e a ++ r) ->
  (forall size s l r, dec_vec size d s = (Ok l, r) -> s = enc_vec e l ++ r) /\
  (forall size n s l r, dec_sized size n d s = (Ok l, r) -> s = enc_list e l ++ r /\ lenN l = n).
Proof.
  intros A d e H. split.
  - intros size. exact (exact_pf (d := dec_vec size d) (Exact := exact_vec d e (H := H) size)).
  - intros size n s l r. exact (dec_sized_ok d e (H := H) size n s l r).
Qed.

(* what deserialize_partial reports as consumed is exactly the length of the re-serialisation,
   and the re-serialisation is that prefix of the input *)
Theorem C01_consumed : forall sz s a n,
  deserialize_partial (dec_tx sz) s = Ok (a, n) ->
  n = lenN (enc_tx a) /\ enc_tx a = firstn (N.to_nat n) s.
Proof.
  intros sz s a n H. unfold deserialize_partial in H.
  destruct (dec_tx sz s) as [[x|e|] r] eqn:E; try discriminate. inversion H; subst.
  apply (exact_pf (d := dec_tx sz)) in E. subst. unfold lenN. rewrite app_length. split; [lia|].
  replace (N.to_nat (N.of_nat (length (enc_tx a) + length r) - N.of_nat (length r))) with (length (enc_tx a) + 0)%nat by lia.
  rewrite firstn_app_2. cbn [firstn]. now rewrite app_nil_r.
Qed.

(* no two different byte strings parse (completely) to the same value *)
Theorem C01_no_two_strings : forall sz b1 b2 x,
  dec_tx sz b1 = (Ok x, []) -> dec_tx sz b2 = (Ok x, []) -> b1 = b2.
Proof.
  intros sz b1 b2 x H1 H2. apply (exact_pf (d := dec_tx sz)) in H1, H2. congruence.
Qed.
Theorem C01_no_two_strings_block : forall sz b1 b2 x,
  dec_block sz b1 = (Ok x, []) -> dec_block sz b2 = (Ok x, []) -> b1 = b2.
Proof.
  intros sz b1 b2 x H1 H2. apply (exact_pf (d := dec_block sz)) in H1, H2. congruence.
Qed.

(* non-vacuity: a version-2 transaction without inputs and a coinbase are accepted *)
Example C01_ex : exists a, dec_tx default_sizes [x02; x00; x00; x00; x00] = (Ok a, []).
Proof. eexists. reflexivity. Qed.

Check C01_tx : forall sz s a r, dec_tx sz s = (Ok a, r) -> s = enc_tx a ++ r.
Check C01_block : forall sz s a r, dec_block sz s = (Ok a, r) -> s = enc_block a ++ r.
Check C01_prefix : forall sz s a r, dec_prefix sz s = (Ok a, r) -> s = enc_prefix a ++ r.
Check C01_header : forall s a r, dec_header s = (Ok a, r) -> s = enc_header a ++ r.
Check C01_components :
  (forall s a r, dec_txin s = (Ok a, r) -> s = enc_txin a ++ r) /\
  (forall s a r, dec_txout s = (Ok a, r) -> s = enc_txout a ++ r) /\
  (forall s a r, dec_target s = (Ok a, r) -> s = enc_target a ++ r) /\
  (forall s a r, dec_hash s = (Ok a, r) -> s = a ++ r) /\
  (forall s a r, dec_hash8 s = (Ok a, r) -> s = a ++ r) /\
  (forall s a r, dec_bytes_vec s = (Ok a, r) -> s = enc_bytes_vec a ++ r) /\
  (forall s a r, dec_varint s = (Ok a, r) -> s = enc_varint a ++ r) /\
  (forall s a r, dec_signature s = (Ok a, r) -> s = enc_signature a ++ r) /\
  (forall s a r, dec_rct_type s = (Ok a, r) -> s = enc_rct_type a ++ r) /\
  (forall t s a r, dec_ecdh t s = (Ok a, r) -> s = enc_ecdh a ++ r) /\
  (forall s a r, dec_rangesig s = (Ok a, r) -> s = enc_rangesig a ++ r) /\
  (forall s a r, dec_bulletproof s = (Ok a, r) -> s = enc_bulletproof a ++ r) /\
  (forall s a r, dec_bpplus s = (Ok a, r) -> s = enc_bpplus a ++ r) /\
  (forall m s a r, dec_clsag m s = (Ok a, r) -> s = enc_clsag a ++ r) /\
  (forall m c s a r, dec_mgsig m c s = (Ok a, r) -> s = enc_mgsig a ++ r) /\
  (forall i o s a r, dec_rct_base i o s = (Ok a, r) -> s = enc_rct_base a ++ r) /\
  (forall sz t i o m s a r, t <> RNull -> dec_rct_prunable sz t i o m s = (Ok a, r) -> s = enc_rct_prunable a t ++ r).
Check C01_vectors : forall A (d : dec A) (e : A -> bytes),
  (forall s a r, d s = (Ok a, r) -> s = e a ++ r) ->
  (forall size s l r, dec_vec size d s = (Ok l, r) -> s = enc_vec e l ++ r) /\
  (forall size n s l r, dec_sized size n d s = (Ok l, r) -> s = enc_list e l ++ r /\ lenN l = n).
Check C01_consumed : forall sz s a n,
  deserialize_partial (dec_tx sz) s = Ok (a, n) ->
  n = lenN (enc_tx a) /\ enc_tx a = firstn (N.to_nat n) s.
Check C01_no_two_strings : forall sz b1 b2 x,
  dec_tx sz b1 = (Ok x, []) -> dec_tx sz b2 = (Ok x, []) -> b1 = b2.
Check C01_no_two_strings_block : forall sz b1 b2 x,
  dec_block sz b1 = (Ok x, []) -> dec_block sz b2 = (Ok x, []) -> b1 = b2.

Print Assumptions C01_tx.
Print Assumptions C01_block.
Print Assumptions C01_prefix.
Print Assumptions C01_header.
Print Assumptions C01_components.
Print Assumptions C01_vectors.
Print Assumptions C01_consumed.
Print Assumptions C01_no_two_strings.
Print Assumptions C01_no_two_strings_block.
