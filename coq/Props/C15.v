(* C15 — amount text parsing / formatting are exact decimal conversions.
   Only statements (pinned by Check), `exact` proofs and assumption audits.  `denotes`, `expansion`, `decimals`, `has_sign`,
   `aliases` are the specification (Spec/Decimal.v); `amount_*`, `signed_*` are the model of src/util/amount.rs. *)
From MRS Require Import Proofs.AmountProofs.
From Coq Require Import String.
Open Scope string_scope.
Open Scope list_scope.
Open Scope Z_scope.

(* Amount::from_str_in returns q exactly when the text is a well-formed unsigned decimal (<= 50 bytes, at most `decimals d`
   decimals) that denotes q piconero and q <= 2^63-1; in every other case it does not return a value *)
Theorem C15_parse_exact_unsigned : forall d s q,
  amount_from_str_in s d = AOk q <-> denotes (decimals d) s q /\ ~ has_sign s /\ q <= 2 ^ 63 - 1.
Proof. exact amount_from_str_in_spec. Qed.

(* SignedAmount::from_str_in likewise, with |q| <= 2^63-1 *)
Theorem C15_parse_exact_signed : forall d s q,
  signed_from_str_in s d = AOk q <-> denotes (decimals d) s q /\ - (2 ^ 63 - 1) <= q <= 2 ^ 63 - 1.
Proof. exact signed_from_str_in_spec. Qed.

Theorem C15_parse_never_panics : forall d s, amount_from_str_in s d <> APanic /\ signed_from_str_in s d <> APanic.
Proof. exact from_str_in_no_panic. Qed.

(* non-vacuity / sanity *)
Example C15_ex_parse : amount_from_str_in (bs "1.5") Monero = AOk 1500000000000
  /\ signed_from_str_in (bs "-9223372.036854775807") Monero = AOk (- (2 ^ 63 - 1))
  /\ signed_from_str_in (bs "-9223372.036854775808") Monero = AErr ETooBig
  /\ amount_from_str_in (bs "18446744073709551616") Piconero = AErr ETooBig
  /\ amount_from_str_in (bs "0.0000000000001") Monero = AErr ETooPrecise
  /\ amount_from_str_in (bs "-0") Monero = AErr ENegative
  /\ amount_from_str_in (bs ".") Monero = AOk 0.
Proof. repeat split. Qed.
Example C15_ex_denotes : denotes 12 (bs "1.5") 1500000000000 /\ ~ denotes 12 (bs "1.5") 1500000000001.
Proof.
  split.
  - apply (proj1 (proj1 (amount_from_str_in_spec Monero (bs "1.5") 1500000000000) eq_refl)).
  - intros H. assert (E : amount_from_str_in (bs "1.5") Monero = AOk 1500000000001).
    { apply amount_from_str_in_spec. split; [exact H|]. split; [intros [t E]; discriminate E|]. vm_compute. congruence. }
    discriminate E.
Qed.

Check C15_parse_exact_unsigned : forall d s q,
  amount_from_str_in s d = AOk q <-> denotes (decimals d) s q /\ ~ has_sign s /\ q <= 2 ^ 63 - 1.
Check C15_parse_exact_signed : forall d s q,
  signed_from_str_in s d = AOk q <-> denotes (decimals d) s q /\ - (2 ^ 63 - 1) <= q <= 2 ^ 63 - 1.
Check C15_parse_never_panics : forall d s, amount_from_str_in s d <> APanic /\ signed_from_str_in s d <> APanic.

Print Assumptions C15_parse_exact_unsigned.
Print Assumptions C15_parse_exact_signed.
Print Assumptions C15_parse_never_panics.
