(* C15 — amount text parsing / formatting are exact decimal conversions.
   Only statements (pinned by Check), `exact` proofs and assumption audits.  `denotes`, `expansion`, `decimals`, `has_sign`,
   `aliases` are the specification (Spec/Decimal.v); `amount_*`, `signed_*` are the model of src/util/amount.rs. *)
From MRS Require Import Proofs.AmountProofs.
From Coq Require Import String.
Open Scope string_scope.
Open Scope list_scope.
Open Scope Z_scope.

(* Amount::from_str_in returns q exactly when the text is a well-formed unsigned decimal (<= 50 bytes, at most `decimals d`
   decimals) that denotes q piconero and q <= 2^63-1; in every other case it does not return a value *)
Theorem C15_parse_exact_unsigned : forall d s q,
  amount_from_str_in s d = AOk q <-> denotes (decimals d) s q /\ ~ has_sign s /\ q <= 2 ^ 63 - 1.
Proof. exact amount_from_str_in_spec. Qed.

(* SignedAmount::from_str_in likewise, with |q| <= 2^63-1 *)
Theorem C15_parse_exact_signed : forall d s q,
  signed_from_str_in s d = AOk q <-> denotes (decimals d) s q /\ - (2 ^ 63 - 1) <= q <= 2 ^ 63 - 1.
Proof. exact signed_from_str_in_spec. Qed.

Theorem C15_parse_never_panics : forall d s, amount_from_str_in s d <> APanic /\ signed_from_str_in s d <> APanic.
Proof. exact from_str_in_no_panic. Qed.

(* FromStr / from_str_with_denomination: exactly one space, amount text before it, one of the denomination names after it *)
Theorem C15_parse_with_suffix_unsigned : forall s q,
  amount_from_str s = AOk q <->
  exists a dn d, s = a ++ x20 :: dn /\ no_space a /\ no_space dn /\ In dn (aliases d) /\ amount_from_str_in a d = AOk q.
Proof. exact (from_str_suffix_spec amount_from_str_in). Qed.

Theorem C15_parse_with_suffix_signed : forall s q,
  signed_from_str s = AOk q <->
  exists a dn d, s = a ++ x20 :: dn /\ no_space a /\ no_space dn /\ In dn (aliases d) /\ signed_from_str_in a d = AOk q.
Proof. exact (from_str_suffix_spec signed_from_str_in). Qed.

(* the accepted names are exactly the specification's alias table (incl. the 5-byte "µXMR"), and the written name is one of them *)
Theorem C15_denomination_names : forall dn d, (denom_from_str dn = Some d <-> In dn (aliases d)) /\ In (denom_display d) (aliases d).
Proof. intros dn d. split; [exact (denom_from_str_spec dn d)|exact (display_is_alias d)]. Qed.

(* to_string_in writes the canonical fixed-point expansion with exactly `decimals d` decimals, for every u64 (never panics) *)
Theorem C15_format_exact_unsigned : forall a d, 0 <= a <= 2 ^ 64 - 1 ->
  exists s, amount_to_string_in a d = AOk s /\ expansion (decimals d) a s.
Proof. exact amount_format_exact. Qed.

(* likewise for every i64, including MIN *)
Theorem C15_format_exact_signed : forall a d, - 2 ^ 63 <= a <= 2 ^ 63 - 1 ->
  exists s, signed_to_string_in a d = AOk s /\ expansion (decimals d) a s.
Proof. exact signed_format_exact. Qed.

(* parse (format a) = a up to 2^63-1 *)
Theorem C15_roundtrip_unsigned : forall a d, 0 <= a <= 2 ^ 63 - 1 ->
  exists s, amount_to_string_in a d = AOk s /\ amount_from_str_in s d = AOk a.
Proof. exact amount_roundtrip. Qed.

Theorem C15_roundtrip_signed : forall a d, - (2 ^ 63 - 1) <= a <= 2 ^ 63 - 1 ->
  exists s, signed_to_string_in a d = AOk s /\ signed_from_str_in s d = AOk a.
Proof. exact signed_roundtrip. Qed.

(* with the denomination suffix: to_string_with_denomination is the plain text, a space and the name; FromStr of the plain text followed by ANY alias of the denomination returns the amount *)
Theorem C15_roundtrip_suffix_unsigned : forall a d, 0 <= a <= 2 ^ 63 - 1 ->
  exists s, amount_to_string_in a d = AOk s /\
            amount_to_string_with_denomination a d = AOk (s ++ x20 :: denom_display d) /\
            forall al, In al (aliases d) -> amount_from_str (s ++ x20 :: al) = AOk a.
Proof. exact amount_roundtrip_suffix. Qed.

Theorem C15_roundtrip_suffix_signed : forall a d, - (2 ^ 63 - 1) <= a <= 2 ^ 63 - 1 ->
  exists s, signed_to_string_in a d = AOk s /\
            signed_to_string_with_denomination a d = AOk (s ++ x20 :: denom_display d) /\
            forall al, In al (aliases d) -> signed_from_str (s ++ x20 :: al) = AOk a.
Proof. exact signed_roundtrip_suffix. Qed.

(* Display is the Monero-denominated text with suffix *)
Theorem C15_display : forall a, amount_display a = amount_to_string_with_denomination a Monero /\
          signed_display a = signed_to_string_with_denomination a Monero.
Proof. exact display_is_xmr. Qed.

(* the specification is well-defined: a text denotes at most one quantity, an amount has exactly one expansion *)
Theorem C15_denotes_functional : forall decs s q1 q2, denotes decs s q1 -> denotes decs s q2 -> q1 = q2.
Proof. exact denotes_functional. Qed.

Theorem C15_expansion_unique : forall decs a s1 s2, expansion decs a s1 -> expansion decs a s2 -> s1 = s2.
Proof. exact expansion_unique. Qed.

(* non-vacuity / sanity *)
Example C15_ex_parse : amount_from_str_in (bs "1.5") Monero = AOk 1500000000000
  /\ signed_from_str_in (bs "-9223372.036854775807") Monero = AOk (- (2 ^ 63 - 1))
  /\ signed_from_str_in (bs "-9223372.036854775808") Monero = AErr ETooBig
  /\ amount_from_str_in (bs "18446744073709551616") Piconero = AErr ETooBig
  /\ amount_from_str_in (bs "0.0000000000001") Monero = AErr ETooPrecise
  /\ amount_from_str_in (bs "-0") Monero = AErr ENegative
  /\ amount_from_str_in (bs ".") Monero = AOk 0.
Proof. repeat split. Qed.
Example C15_ex_denotes : denotes 12 (bs "1.5") 1500000000000 /\ ~ denotes 12 (bs "1.5") 1500000000001.
Proof.
  split.
  - apply (proj1 (proj1 (amount_from_str_in_spec Monero (bs "1.5") 1500000000000) eq_refl)).
  - intros H. assert (E : amount_from_str_in (bs "1.5") Monero = AOk 1500000000001).
    { apply amount_from_str_in_spec. split; [exact H|]. split; [intros [t E]; discriminate E|]. vm_compute. congruence. }
    discriminate E.
Qed.
Example C15_ex_format : amount_to_string_in 1500000000000 Monero = AOk (bs "1.500000000000")
  /\ signed_to_string_with_denomination (-5) Micronero = AOk (bs "-0.000005 micronero")
  /\ signed_to_string_in (- 2 ^ 63) Piconero = AOk (bs "-9223372036854775808")
  /\ amount_display (2 ^ 64 - 1) = AOk (bs "18446744.073709551615 xmr")
  /\ amount_from_str (bs "0.000001 µXMR") = AOk 1 /\ amount_from_str micro_xmr = AErr EInvalidFormat
  /\ signed_from_str (bs "-1 pXMR") = AOk (-1) /\ amount_from_str (bs "1  xmr") = AErr EInvalidFormat.
Proof. repeat split. Qed.

Check C15_parse_exact_unsigned : forall d s q,
  amount_from_str_in s d = AOk q <-> denotes (decimals d) s q /\ ~ has_sign s /\ q <= 2 ^ 63 - 1.
Check C15_parse_exact_signed : forall d s q,
  signed_from_str_in s d = AOk q <-> denotes (decimals d) s q /\ - (2 ^ 63 - 1) <= q <= 2 ^ 63 - 1.
Check C15_parse_never_panics : forall d s, amount_from_str_in s d <> APanic /\ signed_from_str_in s d <> APanic.
Check C15_parse_with_suffix_unsigned : forall s q,
  amount_from_str s = AOk q <->
  exists a dn d, s = a ++ x20 :: dn /\ no_space a /\ no_space dn /\ In dn (aliases d) /\ amount_from_str_in a d = AOk q.
Check C15_parse_with_suffix_signed : forall s q,
  signed_from_str s = AOk q <->
  exists a dn d, s = a ++ x20 :: dn /\ no_space a /\ no_space dn /\ In dn (aliases d) /\ signed_from_str_in a d = AOk q.
Check C15_denomination_names : forall dn d, (denom_from_str dn = Some d <-> In dn (aliases d)) /\ In (denom_display d) (aliases d).
Check C15_format_exact_unsigned : forall a d, 0 <= a <= 2 ^ 64 - 1 ->
  exists s, amount_to_string_in a d = AOk s /\ expansion (decimals d) a s.
Check C15_format_exact_signed : forall a d, - 2 ^ 63 <= a <= 2 ^ 63 - 1 ->
  exists s, signed_to_string_in a d = AOk s /\ expansion (decimals d) a s.
Check C15_roundtrip_unsigned : forall a d, 0 <= a <= 2 ^ 63 - 1 ->
  exists s, amount_to_string_in a d = AOk s /\ amount_from_str_in s d = AOk a.
Check C15_roundtrip_signed : forall a d, - (2 ^ 63 - 1) <= a <= 2 ^ 63 - 1 ->
  exists s, signed_to_string_in a d = AOk s /\ signed_from_str_in s d = AOk a.
Check C15_roundtrip_suffix_unsigned : forall a d, 0 <= a <= 2 ^ 63 - 1 ->
  exists s, amount_to_string_in a d = AOk s /\
            amount_to_string_with_denomination a d = AOk (s ++ x20 :: denom_display d) /\
            forall al, In al (aliases d) -> amount_from_str (s ++ x20 :: al) = AOk a.
Check C15_roundtrip_suffix_signed : forall a d, - (2 ^ 63 - 1) <= a <= 2 ^ 63 - 1 ->
  exists s, signed_to_string_in a d = AOk s /\
            signed_to_string_with_denomination a d = AOk (s ++ x20 :: denom_display d) /\
            forall al, In al (aliases d) -> signed_from_str (s ++ x20 :: al) = AOk a.
Check C15_display : forall a, amount_display a = amount_to_string_with_denomination a Monero /\
          signed_display a = signed_to_string_with_denomination a Monero.
Check C15_denotes_functional : forall decs s q1 q2, denotes decs s q1 -> denotes decs s q2 -> q1 = q2.
Check C15_expansion_unique : forall decs a s1 s2, expansion decs a s1 -> expansion decs a s2 -> s1 = s2.

Print Assumptions C15_parse_exact_unsigned.
Print Assumptions C15_parse_exact_signed.
Print Assumptions C15_parse_never_panics.
Print Assumptions C15_parse_with_suffix_unsigned.
Print Assumptions C15_parse_with_suffix_signed.
Print Assumptions C15_denomination_names.
Print Assumptions C15_format_exact_unsigned.
Print Assumptions C15_format_exact_signed.
Print Assumptions C15_roundtrip_unsigned.
Print Assumptions C15_roundtrip_signed.
Print Assumptions C15_roundtrip_suffix_unsigned.
Print Assumptions C15_roundtrip_suffix_signed.
Print Assumptions C15_display.
Print Assumptions C15_denotes_functional.
Print Assumptions C15_expansion_unique.
