(* C03 — block and transaction wire layout is the Monero consensus layout. *)
From MRS Require Import Proofs.WireProofs.
Open Scope N_scope.

(* Spec/Wire.v lists the fields of the reference serialisers (prefix, v1 signatures, rctSigBase, rctSigPrunable, header,
   block) and renders them with textbook LEB128; Proofs/WireKAT.v checks by computation that it reproduces 17 real
   transactions and 2 real blocks of the test-suite byte for byte.  Here: the library model's encoder IS that layout on
   every well-formed description, and parsing the specification's bytes yields exactly the described structure. *)

Theorem C03_enc_is_spec : forall sz t, wf_tx sz t -> enc_tx t = spec_tx t.
Proof. intros sz t H. symmetry. exact (spec_tx_is_enc sz t H). Qed.

Theorem C03_dec_of_spec : forall sz t r, wf_tx sz t -> dec_tx sz (spec_tx t ++ r) = (Ok t, r).
Proof. exact dec_spec_tx. Qed.

Theorem C03_block_enc_is_spec : forall sz b, wf_block sz b -> enc_block b = spec_block b.
Proof. intros sz b H. symmetry. exact (spec_block_is_enc sz b H). Qed.

Theorem C03_block_dec_of_spec : forall sz b r, wf_block sz b -> dec_block sz (spec_block b ++ r) = (Ok b, r).
Proof. exact dec_spec_block. Qed.

Theorem C03_prefix_enc_is_spec : forall sz p, wf_prefix sz p -> enc_prefix p = spec_prefix p.
Proof. intros sz p H. symmetry. exact (render_prefix sz p H). Qed.

(* the component layouts, individually *)
Theorem C03_components :
  (forall i, wf_txin i -> enc_txin i = render (f_txin i)) /\
  (forall o, wf_txout o -> enc_txout o = render (f_txout o)) /\
  (forall t e, wf_ecdh t e -> enc_ecdh e = render (f_ecdh t e)) /\
  (forall i o b, wf_rct_base i o b -> enc_rct_base b = render (f_rct_base i o b)) /\
  (forall sz t i o m p, t <> RNull -> wf_rct_prunable sz t i o m p ->
                        enc_rct_prunable p t = render (f_rct_prunable t i o m p)) /\
  (forall h, wf_header h -> enc_header h = spec_header h).
Proof.
  repeat split.
  - intros i H. symmetry. exact (render_txin i H).
  - intros o H. symmetry. exact (render_txout o H).
  - intros t e H. symmetry. exact (render_ecdh t e H).
  - intros i o b H. symmetry. exact (render_rct_base i o b H).
  - intros sz t i o m p Ht H. symmetry. exact (render_rct_prunable sz t i o m p Ht H).
  - intros h H. symmetry. exact (spec_header_is_enc h H).
Qed.

(* the BulletproofPlus proof count is a varint in the layout (finding F5, fixed in /repo): 128 proofs take a 2-byte count *)
Example C03_bpp_count_is_varint :
  firstn 2 (render (f_rct_prunable RBulletproofPlus 0 0 0
                      (mk_prunable [] [] (repeat (mk_bpp [] [] [] [] [] [] [] []) 128) [] [] []))) = [x80; x01].
Proof. vm_compute. reflexivity. Qed.

Check C03_enc_is_spec : forall sz t, wf_tx sz t -> enc_tx t = spec_tx t.
Check C03_dec_of_spec : forall sz t r, wf_tx sz t -> dec_tx sz (spec_tx t ++ r) = (Ok t, r).
Check C03_block_enc_is_spec : forall sz b, wf_block sz b -> enc_block b = spec_block b.
Check C03_block_dec_of_spec : forall sz b r, wf_block sz b -> dec_block sz (spec_block b ++ r) = (Ok b, r).
Check C03_prefix_enc_is_spec : forall sz p, wf_prefix sz p -> enc_prefix p = spec_prefix p.
Check C03_components :
  (forall i, wf_txin i -> enc_txin i = render (f_txin i)) /\
  (forall o, wf_txout o -> enc_txout o = render (f_txout o)) /\
  (forall t e, wf_ecdh t e -> enc_ecdh e = render (f_ecdh t e)) /\
  (forall i o b, wf_rct_base i o b -> enc_rct_base b = render (f_rct_base i o b)) /\
  (forall sz t i o m p, t <> RNull -> wf_rct_prunable sz t i o m p ->
                        enc_rct_prunable p t = render (f_rct_prunable t i o m p)) /\
  (forall h, wf_header h -> enc_header h = spec_header h).

Print Assumptions C03_enc_is_spec.
Print Assumptions C03_dec_of_spec.
Print Assumptions C03_block_enc_is_spec.
Print Assumptions C03_block_dec_of_spec.
Print Assumptions C03_prefix_enc_is_spec.
Print Assumptions C03_components.
