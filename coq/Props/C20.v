(* C20 — network / address-type tag table is Monero's and is a bijection. *)
From MRS Require Import Proofs.NetworkProofs.
Open Scope N_scope.

(* the nine literal values *)
Theorem C20_table :
  tag_table = [ (Mainnet, KStd, 18); (Mainnet, KInt, 19); (Mainnet, KSub, 42);
                (Testnet, KStd, 53); (Testnet, KInt, 54); (Testnet, KSub, 63);
                (Stagenet, KStd, 24); (Stagenet, KInt, 25); (Stagenet, KSub, 36) ] /\
  (forall n t, In (n, kind_of t, net_as_u8 n t) tag_table) /\
  (forall n k tag, In (n, k, tag) tag_table -> forall t, kind_of t = k -> tag = net_as_u8 n t).
Proof. split; [reflexivity|split; [exact table_as_u8|exact table_functional]]. Qed.

Theorem C20_from_as : forall n t, net_from_u8 (net_as_u8 n t) = Some n.
Proof. exact from_as. Qed.

Theorem C20_injective : forall n t n' t',
  net_as_u8 n t = net_as_u8 n' t' -> n = n' /\ kind_of t = kind_of t'.
Proof. exact as_u8_injective. Qed.

(* for EVERY number b (not only bytes): accepted iff in the table, and then mapped to its network *)
Theorem C20_from_u8_exact : forall b n, net_from_u8 b = Some n <-> exists k, In (n, k, b) tag_table.
Proof. exact from_u8_exact. Qed.

Theorem C20_from_u8_rejects : forall b, net_from_u8 b = None <-> forall n k, ~ In (n, k, b) tag_table.
Proof. exact from_u8_none. Qed.

(* the address-type lookup on a blob of ANY length *)
Theorem C20_type_of : forall bs n, atype_from_slice bs n = atype_spec bs n.
Proof. exact atype_from_slice_spec. Qed.

Theorem C20_type_of_ok : forall bs n t, atype_from_slice bs n = Ok t ->
  exists b0 r, bs = b0 :: r /\ b2n b0 = net_as_u8 n t /\
    match t with Integrated pid => (73 <= length bs)%nat /\ pid = firstn 8 (skipn 65 bs) | _ => True end.
Proof. exact atype_ok_kind. Qed.

Theorem C20_type_of_own_tag : forall n t r,
  (match t with Integrated pid => (72 <= length r)%nat /\ pid = firstn 8 (skipn 64 r) | _ => True end) ->
  atype_from_slice (n2b (net_as_u8 n t) :: r) n = Ok t.
Proof. exact atype_accepts_own_tag. Qed.

Theorem C20_type_of_foreign_tag : forall n n' t b0 r,
  n <> n' -> b2n b0 = net_as_u8 n' t -> atype_from_slice (b0 :: r) n = Err EBad.
Proof. exact atype_rejects_foreign_tag. Qed.

Theorem C20_type_of_unknown : forall b0 r n,
  (forall k, ~ In (n, k, b2n b0) tag_table) -> atype_from_slice (b0 :: r) n = Err EBad.
Proof. exact atype_rejects_unknown. Qed.

Theorem C20_type_of_never_panics : forall bs n, atype_from_slice bs n <> Panic.
Proof. exact atype_never_panics. Qed.

Example C20_ex : net_as_u8 Stagenet SubAddress = 36 /\ net_from_u8 36 = Some Stagenet /\ net_from_u8 37 = None /\
  atype_from_slice [x13] Mainnet = Err EBad /\ atype_from_slice [x2a] Mainnet = Ok SubAddress /\
  atype_from_slice [x2a] Testnet = Err EBad.
Proof. repeat split; reflexivity. Qed.

Check C20_table :
  tag_table = [ (Mainnet, KStd, 18); (Mainnet, KInt, 19); (Mainnet, KSub, 42);
                (Testnet, KStd, 53); (Testnet, KInt, 54); (Testnet, KSub, 63);
                (Stagenet, KStd, 24); (Stagenet, KInt, 25); (Stagenet, KSub, 36) ] /\
  (forall n t, In (n, kind_of t, net_as_u8 n t) tag_table) /\
  (forall n k tag, In (n, k, tag) tag_table -> forall t, kind_of t = k -> tag = net_as_u8 n t).
Check C20_from_as : forall n t, net_from_u8 (net_as_u8 n t) = Some n.
Check C20_injective : forall n t n' t', net_as_u8 n t = net_as_u8 n' t' -> n = n' /\ kind_of t = kind_of t'.
Check C20_from_u8_exact : forall b n, net_from_u8 b = Some n <-> exists k, In (n, k, b) tag_table.
Check C20_from_u8_rejects : forall b, net_from_u8 b = None <-> forall n k, ~ In (n, k, b) tag_table.
Check C20_type_of : forall bs n, atype_from_slice bs n = atype_spec bs n.
Check C20_type_of_ok : forall bs n t, atype_from_slice bs n = Ok t ->
  exists b0 r, bs = b0 :: r /\ b2n b0 = net_as_u8 n t /\
    match t with Integrated pid => (73 <= length bs)%nat /\ pid = firstn 8 (skipn 65 bs) | _ => True end.
Check C20_type_of_own_tag : forall n t r,
  (match t with Integrated pid => (72 <= length r)%nat /\ pid = firstn 8 (skipn 64 r) | _ => True end) ->
  atype_from_slice (n2b (net_as_u8 n t) :: r) n = Ok t.
Check C20_type_of_foreign_tag : forall n n' t b0 r,
  n <> n' -> b2n b0 = net_as_u8 n' t -> atype_from_slice (b0 :: r) n = Err EBad.
Check C20_type_of_unknown : forall b0 r n,
  (forall k, ~ In (n, k, b2n b0) tag_table) -> atype_from_slice (b0 :: r) n = Err EBad.
Check C20_type_of_never_panics : forall bs n, atype_from_slice bs n <> Panic.

Print Assumptions C20_table.
Print Assumptions C20_from_as.
Print Assumptions C20_injective.
Print Assumptions C20_from_u8_exact.
Print Assumptions C20_from_u8_rejects.
Print Assumptions C20_type_of.
Print Assumptions C20_type_of_ok.
Print Assumptions C20_type_of_own_tag.
Print Assumptions C20_type_of_foreign_tag.
Print Assumptions C20_type_of_unknown.
Print Assumptions C20_type_of_never_panics.
