(* C05 — transaction identifier and prefix hash follow the Monero definition. *)
From MRS Require Import Proofs.TxIdProofs Model.Keccak.
Open Scope N_scope.

(* For ANY hash function H (in particular Keccak-256) and any size table: if the bytes b parse completely as a
   transaction t, then the hash the library computes from the PARSED object equals Monero's identifier computed from
   the BYTES b and the format's boundaries (Spec/TxIdSpec.v) — so the id is a function of the bytes alone. *)
Theorem C05_tx_id : forall H sz b t, dec_tx sz b = (Ok t, []) -> spec_id H sz b = Some (tx_hash H t).
Proof. exact tx_hash_spec. Qed.

Theorem C05_prefix_hash : forall H sz b t,
  dec_tx sz b = (Ok t, []) -> spec_prefix_hash H sz b = Some (prefix_hash H (tx_prefix t)).
Proof. exact prefix_hash_spec. Qed.

Theorem C05_function_of_bytes : forall H sz b t1 t2,
  dec_tx sz b = (Ok t1, []) -> dec_tx sz b = (Ok t2, []) -> tx_hash H t1 = tx_hash H t2.
Proof. intros H sz b t1 t2 H1 H2. rewrite H1 in H2. now inversion H2. Qed.

(* the instance the library uses *)
Theorem C05_tx_id_keccak : forall sz b t,
  dec_tx sz b = (Ok t, []) -> spec_id keccak256 sz b = Some (tx_hash keccak256 t).
Proof. exact (tx_hash_spec keccak256). Qed.

(* the zero-input version-2 transaction of finding F4 (fixed in /repo): three-hash form with base bytes [00] *)
Example C05_zero_inputs :
  exists t, dec_tx default_sizes [x02; x00; x00; x00; x00] = (Ok t, []) /\
    forall H, tx_hash H t = H (H [x02; x00; x00; x00; x00] ++ H [x00] ++ repeat x00 32).
Proof. eexists. split; [reflexivity|]. intros H. reflexivity. Qed.

(* the constant Transaction::hash uses for a MISSING prunable part of a non-Null type (unreachable from parsing) is the
   byte-REVERSED Keccak-256 of the empty string, not that digest itself: recorded as an observation in DESIGN section 0 *)
Example C05_empty_hash_const_is_reversed : empty_hash_const = rev (keccak256 []) /\ empty_hash_const <> keccak256 [].
Proof. split; [vm_compute; reflexivity|vm_compute; discriminate]. Qed.

Check C05_tx_id : forall H sz b t, dec_tx sz b = (Ok t, []) -> spec_id H sz b = Some (tx_hash H t).
Check C05_prefix_hash : forall H sz b t,
  dec_tx sz b = (Ok t, []) -> spec_prefix_hash H sz b = Some (prefix_hash H (tx_prefix t)).
Check C05_function_of_bytes : forall H sz b t1 t2,
  dec_tx sz b = (Ok t1, []) -> dec_tx sz b = (Ok t2, []) -> tx_hash H t1 = tx_hash H t2.
Check C05_tx_id_keccak : forall sz b t,
  dec_tx sz b = (Ok t, []) -> spec_id keccak256 sz b = Some (tx_hash keccak256 t).

Print Assumptions C05_tx_id.
Print Assumptions C05_prefix_hash.
Print Assumptions C05_function_of_bytes.
Print Assumptions C05_tx_id_keccak.
