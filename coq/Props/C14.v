(* C14 — VarInt is a bijection between u64 and minimal little-endian base-128 strings.
   This file contains only statements (pinned by Check), `exact` proofs and assumption audits. *)
From MRS Require Import Proofs.VarintProofs.
Open Scope N_scope.

(* every n (even beyond u64) encodes to the textbook LEB128 string, relationally and executably *)
Theorem C14_enc_is_leb128 : forall n, LEB n (enc_varint n) /\ enc_varint n = leb128 n.
Proof. intros n. split; [exact (enc_varint_LEB n) | exact (enc_varint_is_leb n)]. Qed.

(* LEB128 strings are unique per number and prefix-free *)
Theorem C14_leb128_unique : forall n b1 b2, LEB n b1 -> LEB n b2 -> b1 = b2.
Proof. intros n b1 b2 H1 H2. exact (LEB_functional n b1 H1 b2 H2). Qed.

Theorem C14_enc_length : forall n,
  lenN (enc_varint n) = N.max 1 ((N.size n + 6) / 7) /\
  (n < 2 ^ 64 -> (1 <= length (enc_varint n) <= 10)%nat) /\
  enc_varint_len n = lenN (enc_varint n).
Proof.
  intros n. split; [exact (enc_varint_len_exact n)|split; [exact (enc_varint_len_bounds n)|exact (enc_varint_len_reported n)]].
Qed.

(* decode (encode n ++ r) = n and leaves exactly r: nothing beyond the terminating byte is read *)
Theorem C14_dec_enc : forall n r, n < 2 ^ 64 -> dec_varint (enc_varint n ++ r) = (Ok n, r).
Proof. exact dec_enc_varint. Qed.

(* whatever is accepted is the minimal encoding of a u64, followed by the unread rest *)
Theorem C14_dec_sound : forall b n r, dec_varint b = (Ok n, r) -> n < 2 ^ 64 /\ b = enc_varint n ++ r.
Proof. exact dec_varint_sound. Qed.

Theorem C14_accepts_exactly : forall b n,
  (exists r, dec_varint b = (Ok n, r)) <-> (n < 2 ^ 64 /\ exists r, b = enc_varint n ++ r).
Proof. exact dec_varint_accepts_iff. Qed.

Theorem C14_rejects_overflow : forall n b r m r',
  2 ^ 64 <= n -> LEB n b -> dec_varint (b ++ r) <> (Ok m, r').
Proof. exact dec_varint_rejects_overflow. Qed.

Theorem C14_rejects_truncated : forall b,
  Forall (fun x => 128 <= b2n x) b -> dec_varint b = (Err EEof, []).
Proof. exact dec_varint_truncated. Qed.

Theorem C14_rejects_superfluous_zero_group : forall gs r m r',
  gs <> [] -> Forall (fun x => 128 <= b2n x) gs -> dec_varint (gs ++ x00 :: r) <> (Ok m, r').
Proof. exact dec_varint_rejects_padded. Qed.

Theorem C14_never_panics : forall b r, dec_varint b <> (Panic, r).
Proof. exact dec_varint_never_panics. Qed.

(* non-vacuity / sanity *)
Example C14_ex_300 : enc_varint 300 = [xac; x02] /\ dec_varint [xac; x02; xff] = (Ok 300, [xff]).
Proof. split; reflexivity. Qed.
Example C14_ex_max : length (enc_varint (2 ^ 64 - 1)) = 10%nat /\ fst (dec_varint (leb128 (2 ^ 64))) = Err EBad.
Proof. split; vm_compute; reflexivity. Qed.
Example C14_ex_nonminimal : fst (dec_varint [x98; x00]) = Err EBad.
Proof. reflexivity. Qed.

Check C14_enc_is_leb128 : forall n, LEB n (enc_varint n) /\ enc_varint n = leb128 n.
Check C14_leb128_unique : forall n b1 b2, LEB n b1 -> LEB n b2 -> b1 = b2.
Check C14_enc_length : forall n,
  lenN (enc_varint n) = N.max 1 ((N.size n + 6) / 7) /\
  (n < 2 ^ 64 -> (1 <= length (enc_varint n) <= 10)%nat) /\
  enc_varint_len n = lenN (enc_varint n).
Check C14_dec_enc : forall n r, n < 2 ^ 64 -> dec_varint (enc_varint n ++ r) = (Ok n, r).
Check C14_dec_sound : forall b n r, dec_varint b = (Ok n, r) -> n < 2 ^ 64 /\ b = enc_varint n ++ r.
Check C14_accepts_exactly : forall b n,
  (exists r, dec_varint b = (Ok n, r)) <-> (n < 2 ^ 64 /\ exists r, b = enc_varint n ++ r).
Check C14_rejects_overflow : forall n b r m r', 2 ^ 64 <= n -> LEB n b -> dec_varint (b ++ r) <> (Ok m, r').
Check C14_rejects_truncated : forall b, Forall (fun x => 128 <= b2n x) b -> dec_varint b = (Err EEof, []).
Check C14_rejects_superfluous_zero_group : forall gs r m r',
  gs <> [] -> Forall (fun x => 128 <= b2n x) gs -> dec_varint (gs ++ x00 :: r) <> (Ok m, r').
Check C14_never_panics : forall b r, dec_varint b <> (Panic, r).

Print Assumptions C14_enc_is_leb128.
Print Assumptions C14_leb128_unique.
Print Assumptions C14_enc_length.
Print Assumptions C14_dec_enc.
Print Assumptions C14_dec_sound.
Print Assumptions C14_accepts_exactly.
Print Assumptions C14_rejects_overflow.
Print Assumptions C14_rejects_truncated.
Print Assumptions C14_rejects_superfluous_zero_group.
Print Assumptions C14_never_panics.
