(* C02 — well-formed values survive serialise-then-parse; length accounting is exact. *)
From MRS Require Import Proofs.CodecComplete Proofs.CodecLen.
Open Scope N_scope.

(* wf_tx / wf_block (Proofs/CodecComplete.v) say: every implicit-length vector has the length the format implies
   (v1: one signature row per ToKey input, of the ring's length; v>=2: RingCT data iff there are inputs, vectors sized by
   inputs / outputs / mixin and by the RingCT type), integers fit their field, byte arrays have their fixed length, and
   every length-prefixed vector passes the decoder's 32 MiB allocation cap (size_of T * len <= 32 MiB). *)

Theorem C02_tx : forall sz t r, wf_tx sz t -> dec_tx sz (enc_tx t ++ r) = (Ok t, r).
Proof. intros sz. exact (complete_pf (d := dec_tx sz)). Qed.

Theorem C02_block : forall sz b r, wf_block sz b -> dec_block sz (enc_block b ++ r) = (Ok b, r).
Proof. intros sz. exact (complete_pf (d := dec_block sz)). Qed.

Theorem C02_prefix : forall sz p r, wf_prefix sz p -> dec_prefix sz (enc_prefix p ++ r) = (Ok p, r).
Proof. intros sz. exact (complete_pf (d := dec_prefix sz)). Qed.

Theorem C02_components :
  (forall n r, n < 2 ^ 64 -> dec_varint (enc_varint n ++ r) = (Ok n, r)) /\
  (forall n r, n < 256 -> dec_u8 (enc_u8 n ++ r) = (Ok n, r)) /\
  (forall k n r, n < 256 ^ N.of_nat k -> dec_uint k (enc_uint k n ++ r) = (Ok n, r)) /\
  (forall k b r, length b = k -> dec_arr k (b ++ r) = (Ok b, r)) /\
  (forall i r, wf_txin i -> dec_txin (enc_txin i ++ r) = (Ok i, r)) /\
  (forall o r, wf_txout o -> dec_txout (enc_txout o ++ r) = (Ok o, r)) /\
  (forall t r, wf_target t -> dec_target (enc_target t ++ r) = (Ok t, r)) /\
  (forall h r, wf_header h -> dec_header (enc_header h ++ r) = (Ok h, r)) /\
  (forall s r, wf_signature s -> dec_signature (enc_signature s ++ r) = (Ok s, r)) /\
  (forall t e r, wf_ecdh t e -> dec_ecdh t (enc_ecdh e ++ r) = (Ok e, r)) /\
  (forall x r, wf_rangesig x -> dec_rangesig (enc_rangesig x ++ r) = (Ok x, r)) /\
  (forall x r, wf_bulletproof x -> dec_bulletproof (enc_bulletproof x ++ r) = (Ok x, r)) /\
  (forall x r, wf_bpplus x -> dec_bpplus (enc_bpplus x ++ r) = (Ok x, r)) /\
  (forall i o b r, wf_rct_base i o b -> dec_rct_base i o (enc_rct_base b ++ r) = (Ok b, r)) /\
  (forall sz t i o m p r, t <> RNull -> wf_rct_prunable sz t i o m p ->
                          dec_rct_prunable sz t i o m (enc_rct_prunable p t ++ r) = (Ok p, r)).
Proof.
  repeat split.
  - intros n r H. exact (complete_pf (d := dec_varint) n r H).
  - intros n r H. exact (complete_pf (d := dec_u8) n r H).
  - intros k n r H. exact (complete_pf (d := dec_uint k) n r H).
  - intros k b r H. exact (arr_complete k b r H).
  - exact (complete_pf (d := dec_txin)).
  - exact (complete_pf (d := dec_txout)).
  - exact (complete_pf (d := dec_target)).
  - exact (complete_pf (d := dec_header)).
  - exact (complete_pf (d := dec_signature)).
  - intros t. exact (complete_pf (d := dec_ecdh t)).
  - exact (complete_pf (d := dec_rangesig)).
  - exact (complete_pf (d := dec_bulletproof)).
  - exact (complete_pf (d := dec_bpplus)).
  - intros i o. exact (complete_pf (d := dec_rct_base i o)).
  - intros sz t i o m p r Ht H. exact (complete_rct_prunable sz t i o m p r Ht H).
Qed.

(* vectors of any round-tripping element type, for every size_of *)
Theorem C02_vectors : forall A (d : dec A) (e : A -> bytes) (wf : A -> Prop),
  (forall a r, wf a -> d (e a ++ r) = (Ok a, r)) ->
  forall size l r, Forall wf l -> lenN l < 2 ^ 64 -> over_cap size (lenN l) = false ->
    dec_vec size d (enc_vec e l ++ r) = (Ok l, r).
Proof.
  intros A d e wf H size l r Hf Hl Hc.
  exact (complete_pf (Complete := complete_vec d e wf (H := H) size) l r (conj Hf (conj Hl Hc))).
Qed.

(* strict parsing: succeeds on exactly the serialisation, fails with any non-empty trailer;
   partial parsing reports exactly the number of bytes produced *)
Theorem C02_strict : forall sz t, wf_tx sz t ->
  deserialize (dec_tx sz) (enc_tx t) = Ok t /\
  (forall tr, tr <> [] -> deserialize (dec_tx sz) (enc_tx t ++ tr) = Err EBad) /\
  (forall tr, deserialize_partial (dec_tx sz) (enc_tx t ++ tr) = Ok (t, lenN (enc_tx t))).
Proof.
  intros sz t H. split; [|split].
  - exact (strict_complete (dec_tx sz) enc_tx (wf_tx sz) t H).
  - intros tr Ht. exact (strict_rejects_trailing (dec_tx sz) enc_tx (wf_tx sz) t tr H Ht).
  - intros tr. exact (partial_consumed (dec_tx sz) enc_tx (wf_tx sz) t tr H).
Qed.

Theorem C02_strict_block : forall sz b, wf_block sz b ->
  deserialize (dec_block sz) (enc_block b) = Ok b /\
  (forall tr, tr <> [] -> deserialize (dec_block sz) (enc_block b ++ tr) = Err EBad) /\
  (forall tr, deserialize_partial (dec_block sz) (enc_block b ++ tr) = Ok (b, lenN (enc_block b))).
Proof.
  intros sz b H. split; [|split].
  - exact (strict_complete (dec_block sz) enc_block (wf_block sz) b H).
  - intros tr Ht. exact (strict_rejects_trailing (dec_block sz) enc_block (wf_block sz) b tr H Ht).
  - intros tr. exact (partial_consumed (dec_block sz) enc_block (wf_block sz) b tr H).
Qed.

(* the usize every encoder returns (Model/CodecLen.v mirrors the Rust sums) is the number of bytes written;
   no well-formedness needed *)
Theorem C02_reported_length :
  (forall t, rl_tx t = lenN (enc_tx t)) /\ (forall b, rl_block b = lenN (enc_block b)) /\
  (forall p, rl_prefix p = lenN (enc_prefix p)) /\ (forall h, rl_header h = lenN (enc_header h)) /\
  (forall i, rl_txin i = lenN (enc_txin i)) /\ (forall o, rl_txout o = lenN (enc_txout o)) /\
  (forall n, rl_varint n = lenN (enc_varint n)) /\ (forall b, rl_bytes_vec b = lenN (enc_bytes_vec b)) /\
  (forall b, rl_rct_base b = lenN (enc_rct_base b)) /\ (forall p t, rl_rct_prunable p t = lenN (enc_rct_prunable p t)) /\
  (forall x, rl_bulletproof x = lenN (enc_bulletproof x)) /\ (forall x, rl_bpplus x = lenN (enc_bpplus x)) /\
  (forall x, rl_rangesig x = lenN (enc_rangesig x)) /\ (forall x, rl_mgsig x = lenN (enc_mgsig x)) /\
  (forall x, rl_clsag x = lenN (enc_clsag x)).
Proof.
  repeat split; [exact rl_tx_ok|exact rl_block_ok|exact rl_prefix_ok|exact rl_header_ok|exact rl_txin_ok|exact rl_txout_ok|
                 exact rl_varint_ok|exact rl_bytes_vec_ok|exact rl_rct_base_ok|exact rl_rct_prunable_ok|exact rl_bulletproof_ok|
                 exact rl_bpplus_ok|exact rl_rangesig_ok|exact rl_mgsig_ok|exact rl_clsag_ok].
Qed.

(* strings (UTF-8 validity as in String::from_utf8) and the multisig records *)
Theorem C02_strings_multisig :
  (forall s r, wf_string s -> dec_string (enc_string s ++ r) = (Ok s, r)) /\
  (forall s r, is_utf8 s = false -> wf_vec 1 (fun _ => True) s -> fst (dec_string (enc_string s ++ r)) = Err EBad) /\
  (forall m r, wf_klrki m -> dec_klrki (enc_klrki m ++ r) = (Ok m, r)) /\
  (forall c r, wf_vec 32 wf_key c -> dec_multisig_out (enc_multisig_out c ++ r) = (Ok c, r)).
Proof.
  repeat split.
  - exact (complete_pf (d := dec_string)).
  - exact dec_string_rejects_invalid.
  - exact (complete_pf (d := dec_klrki)).
  - exact (complete_pf (d := dec_multisig_out)).
Qed.

(* non-vacuity: a concrete version-2 CLSAG-shaped transaction satisfies wf_tx (1 key input with ring 2, 1 output) *)
Definition k32 : bytes := repeat x07 32.
Definition ex_tx : tx :=
  mk_tx (mk_prefix 2 0 [ToKey 0 [5; 7] k32] [mk_txout 0 (TTagged k32 9)] [x01])
        []
        (mk_rct (Some (mk_base RClsag 1000 [] [EBulletproof (repeat x01 8)] [k32]))
                (Some (mk_prunable [] [mk_bp k32 k32 k32 k32 k32 k32 [k32] [k32] k32 k32 k32] [] []
                                   [mk_clsag [k32; k32] k32 k32] [k32]))).
Ltac wf_ex := repeat first [ split | apply Forall_nil | apply Forall_cons | (vm_compute; reflexivity) | exact I ].
Example C02_ex_wf : wf_tx default_sizes ex_tx.
Proof.
  unfold wf_tx, ex_tx. cbn [tx_prefix tx_signatures tx_rct version inputs outputs extra rct_base_of rct_p].
  split.
  - unfold wf_prefix, wf_vec. cbn [version unlock_time inputs outputs extra]. wf_ex.
  - change (2 =? 1) with false. cbv iota. split; [reflexivity|].
    change (lenN [ToKey 0 [5; 7] k32] =? 0) with false. cbv iota. split.
    + unfold wf_rct_base, wf_sized. cbn [rb_type rb_fee rb_pseudo_outs rb_ecdh rb_out_pk rct_type_eqb]. wf_ex.
    + cbn [rb_type]. exists 1. eexists. split; [reflexivity|]. split; [reflexivity|].
      unfold wf_rct_prunable, wf_vec, wf_sized.
      cbn [is_rct_bp is_rct_bp_plus uses_clsag has_p_pseudo rp_range_sigs rp_bulletproofs rp_bulletproofplus rp_MGs rp_Clsags rp_pseudo_outs].
      wf_ex.
Qed.
Example C02_ex_rt : dec_tx default_sizes (enc_tx ex_tx) = (Ok ex_tx, []).
Proof. vm_compute. reflexivity. Qed.

Check C02_tx : forall sz t r, wf_tx sz t -> dec_tx sz (enc_tx t ++ r) = (Ok t, r).
Check C02_block : forall sz b r, wf_block sz b -> dec_block sz (enc_block b ++ r) = (Ok b, r).
Check C02_prefix : forall sz p r, wf_prefix sz p -> dec_prefix sz (enc_prefix p ++ r) = (Ok p, r).
Check C02_components :
  (forall n r, n < 2 ^ 64 -> dec_varint (enc_varint n ++ r) = (Ok n, r)) /\
  (forall n r, n < 256 -> dec_u8 (enc_u8 n ++ r) = (Ok n, r)) /\
  (forall k n r, n < 256 ^ N.of_nat k -> dec_uint k (enc_uint k n ++ r) = (Ok n, r)) /\
  (forall k b r, length b = k -> dec_arr k (b ++ r) = (Ok b, r)) /\
  (forall i r, wf_txin i -> dec_txin (enc_txin i ++ r) = (Ok i, r)) /\
  (forall o r, wf_txout o -> dec_txout (enc_txout o ++ r) = (Ok o, r)) /\
  (forall t r, wf_target t -> dec_target (enc_target t ++ r) = (Ok t, r)) /\
  (forall h r, wf_header h -> dec_header (enc_header h ++ r) = (Ok h, r)) /\
  (forall s r, wf_signature s -> dec_signature (enc_signature s ++ r) = (Ok s, r)) /\
  (forall t e r, wf_ecdh t e -> dec_ecdh t (enc_ecdh e ++ r) = (Ok e, r)) /\
  (forall x r, wf_rangesig x -> dec_rangesig (enc_rangesig x ++ r) = (Ok x, r)) /\
  (forall x r, wf_bulletproof x -> dec_bulletproof (enc_bulletproof x ++ r) = (Ok x, r)) /\
  (forall x r, wf_bpplus x -> dec_bpplus (enc_bpplus x ++ r) = (Ok x, r)) /\
  (forall i o b r, wf_rct_base i o b -> dec_rct_base i o (enc_rct_base b ++ r) = (Ok b, r)) /\
  (forall sz t i o m p r, t <> RNull -> wf_rct_prunable sz t i o m p ->
                          dec_rct_prunable sz t i o m (enc_rct_prunable p t ++ r) = (Ok p, r)).
Check C02_vectors : forall A (d : dec A) (e : A -> bytes) (wf : A -> Prop),
  (forall a r, wf a -> d (e a ++ r) = (Ok a, r)) ->
  forall size l r, Forall wf l -> lenN l < 2 ^ 64 -> over_cap size (lenN l) = false ->
    dec_vec size d (enc_vec e l ++ r) = (Ok l, r).
Check C02_strict : forall sz t, wf_tx sz t ->
  deserialize (dec_tx sz) (enc_tx t) = Ok t /\
  (forall tr, tr <> [] -> deserialize (dec_tx sz) (enc_tx t ++ tr) = Err EBad) /\
  (forall tr, deserialize_partial (dec_tx sz) (enc_tx t ++ tr) = Ok (t, lenN (enc_tx t))).
Check C02_strict_block : forall sz b, wf_block sz b ->
  deserialize (dec_block sz) (enc_block b) = Ok b /\
  (forall tr, tr <> [] -> deserialize (dec_block sz) (enc_block b ++ tr) = Err EBad) /\
  (forall tr, deserialize_partial (dec_block sz) (enc_block b ++ tr) = Ok (b, lenN (enc_block b))).
Check C02_reported_length :
  (forall t, rl_tx t = lenN (enc_tx t)) /\ (forall b, rl_block b = lenN (enc_block b)) /\
  (forall p, rl_prefix p = lenN (enc_prefix p)) /\ (forall h, rl_header h = lenN (enc_header h)) /\
  (forall i, rl_txin i = lenN (enc_txin i)) /\ (forall o, rl_txout o = lenN (enc_txout o)) /\
  (forall n, rl_varint n = lenN (enc_varint n)) /\ (forall b, rl_bytes_vec b = lenN (enc_bytes_vec b)) /\
  (forall b, rl_rct_base b = lenN (enc_rct_base b)) /\ (forall p t, rl_rct_prunable p t = lenN (enc_rct_prunable p t)) /\
  (forall x, rl_bulletproof x = lenN (enc_bulletproof x)) /\ (forall x, rl_bpplus x = lenN (enc_bpplus x)) /\
  (forall x, rl_rangesig x = lenN (enc_rangesig x)) /\ (forall x, rl_mgsig x = lenN (enc_mgsig x)) /\
  (forall x, rl_clsag x = lenN (enc_clsag x)).

Check C02_strings_multisig :
  (forall s r, wf_string s -> dec_string (enc_string s ++ r) = (Ok s, r)) /\
  (forall s r, is_utf8 s = false -> wf_vec 1 (fun _ => True) s -> fst (dec_string (enc_string s ++ r)) = Err EBad) /\
  (forall m r, wf_klrki m -> dec_klrki (enc_klrki m ++ r) = (Ok m, r)) /\
  (forall c r, wf_vec 32 wf_key c -> dec_multisig_out (enc_multisig_out c ++ r) = (Ok c, r)).

Print Assumptions C02_strings_multisig.
Print Assumptions C02_tx.
Print Assumptions C02_block.
Print Assumptions C02_prefix.
Print Assumptions C02_components.
Print Assumptions C02_vectors.
Print Assumptions C02_strict.
Print Assumptions C02_strict_block.
Print Assumptions C02_reported_length.

(* ---- typed extra field (added by the model-mutation audit, seed C02-e; notes/MODEL_MUTANTS_A.md) ------------------
   Until here C02 spoke about Model/Codec.v only, where `extra` is an opaque Vec<u8>.  The sub-field codec of
   Model/Extra.v round-trips too: every well-formed sub-field parses back from its encoding (followed by anything the
   padding rule allows), and the consensus encoding of a well-formed ExtraField is a Vec<u8> that decodes to the
   concatenated sub-field encodings, which try_parse turns back into the same sub-fields.
   (Imported last: Proofs/ExtraProofs.v has its own wf_key, which must not shadow the one used above.) *)
From MRS Require Import Proofs.AuditC02.

Theorem C02_extra_subfield : forall valid_pk f r,
  wf_subfield valid_pk f -> pad_ok f r -> dec_subfield valid_pk (enc_subfield f ++ r) = (Ok f, r).
Proof. exact dec_subfield_complete. Qed.

Theorem C02_extra : forall valid_pk fs r, wf_extra valid_pk fs ->
  dec_bytes_vec (enc_extra fs ++ r) = (Ok (enc_fields fs), r) /\
  try_parse valid_pk (enc_fields fs) = Ok (true, fs).
Proof. exact audit_extra_consensus_roundtrip. Qed.

(* non-vacuity / pin of the nonce length as a varint: 200 bytes take the two-byte count c8 01 *)
Example C02_ex_nonce_len_is_varint :
  firstn 3 (enc_subfield (Nonce (repeat x07 200))) = [x02; xc8; x01] /\
  forall valid_pk r, dec_subfield valid_pk (enc_subfield (Nonce (repeat x07 200)) ++ r) = (Ok (Nonce (repeat x07 200)), r).
Proof.
  split; [vm_compute; reflexivity|]. intros valid_pk r. apply dec_subfield_complete; [|exact I].
  cbn [wf_subfield]. vm_compute. discriminate.
Qed.

Check C02_extra_subfield : forall valid_pk f r,
  wf_subfield valid_pk f -> pad_ok f r -> dec_subfield valid_pk (enc_subfield f ++ r) = (Ok f, r).
Check C02_extra : forall valid_pk fs r, wf_extra valid_pk fs ->
  dec_bytes_vec (enc_extra fs ++ r) = (Ok (enc_fields fs), r) /\
  try_parse valid_pk (enc_fields fs) = Ok (true, fs).

Print Assumptions C02_extra_subfield.
Print Assumptions C02_extra.
