(* C10 — key derivation is cofactor-cleared Diffie–Hellman for every curve point.
   Model/Derive.v mirrors the source as it is now: rv = Scalar(8) * (a * B), the cofactor applied to the POINT.
   All theorems hold for EVERY instance (E, LW) of the EdLaws record and every hash-to-scalar Hs: the group laws
   are hypotheses of the statements, hence `_partial`.
   This file contains only statements (pinned by Check), `exact` proofs and assumption audits. *)
From MRS Require Import Proofs.DeriveProofs.
Open Scope Z_scope.

(* derivation(a, B) = 8*(a*B) = (8a)*B for every valid point B *)
Theorem C10_derivation_partial : forall (E : EdOps) (LW : EdLaws E) a B, valid B ->
  key_derive a (compress B) = Ok (compress (smul 8 (smul a B))) /\ smul 8 (smul a B) = smul (8 * a) B.
Proof. intros E LW. exact derivation_spec. Qed.

(* ... in particular for every byte string that PublicKey::from_slice accepts; never an error or a panic *)
Theorem C10_derivation_accepted_partial : forall (E : EdOps) (LW : EdLaws E) a k, pk_from_slice k = Ok k ->
  exists B, valid B /\ compress B = k /\ key_derive a k = Ok (compress (smul 8 (smul a B))).
Proof. intros E LW. exact derivation_accepted. Qed.

(* B = B' + T with l*B' = O and 8*T = O: the small-order component is cleared, the result is (8a mod l)*B' *)
Theorem C10_torsion_cleared_partial : forall (E : EdOps) (LW : EdLaws E) a B' T,
  valid B' -> valid T -> smul ell B' = pzero -> smul 8 T = pzero ->
  key_derive a (compress (padd B' T)) = Ok (compress (smul (8 * a) B')) /\
  smul (8 * a) B' = smul ((8 * a) mod ell) B' /\
  key_derive a (compress (padd B' T)) = key_derive a (compress B').
Proof. intros E LW. exact derivation_torsion. Qed.

(* the eight small-order points of the interface *)
Theorem C10_eight_torsion_partial : forall (E : EdOps) (LW : EdLaws E) a B' i, valid B' ->
  key_derive a (compress (padd B' (tors i))) = Ok (compress (smul (8 * a) B')) /\
  key_derive a (compress (tors i)) = Ok (compress pzero).
Proof. intros E LW a B' i HB. split; [exact (derivation_tors a B' i HB)|exact (derivation_pure_torsion a i)]. Qed.

(* sender r with the receiver's view key vG, receiver v with the transaction key rG *)
Theorem C10_sender_receiver_partial : forall (E : EdOps) (LW : EdLaws E) r v,
  key_derive r (pk_from_priv v) = key_derive v (pk_from_priv r) /\
  key_derive r (pk_from_priv v) = Ok (compress (smul (8 * r * v) G)).
Proof. intros E LW r v. split; [exact (sender_receiver r v)|exact (proj1 (sender_receiver_value r v))]. Qed.

Theorem C10_generators_agree_partial : forall (E : EdOps) (LW : EdLaws E) r v S,
  exists D, from_random (pk_from_priv v) S r = Ok (S, D) /\ from_key v S (pk_from_priv r) = Ok (S, D) /\
            D = compress (smul 8 (smul r (smul v G))).
Proof. intros E LW. exact generators_agree. Qed.

(* one-time key P = Hs(D || varint i)*G + S *)
Theorem C10_one_time_key_partial : forall (E : EdOps) (LW : EdLaws E) (Hs : hs_fun) S rv i, valid S ->
  one_time_key Hs (compress S, rv) i = Ok (compress (padd (smul (Hs (rv ++ enc_varint (i mod 2 ^ 64)%N)) G) S)).
Proof. intros E LW. exact one_time_key_spec. Qed.

(* the algebraic identity P - Hs(D || i)*G = S, for any generator with an accepted spend key *)
Theorem C10_candidate_is_spend_key_partial : forall (E : EdOps) (LW : EdLaws E) (Hs : hs_fun) g i P,
  pk_from_slice (fst g) = Ok (fst g) -> one_time_key Hs g i = Ok P ->
  candidate_spend Hs g i P = Ok (fst g) /\ otk_check Hs g i P = Ok true /\ pk_from_slice P = Ok P.
Proof. intros E LW. exact candidate_of_one_time_key. Qed.

Theorem C10_check_exact : forall (E : EdOps) (Hs : hs_fun) g i key P,
  one_time_key Hs g i = Ok P -> (otk_check Hs g i key = Ok true <-> key = P).
Proof. intros E. exact otk_check_iff. Qed.

(* the key built by the sender from (r, (vG, S)) is recognised by the receiver holding v and seeing rG *)
Theorem C10_one_time_key_recognised_partial : forall (E : EdOps) (LW : EdLaws E) (Hs : hs_fun) r v S i,
  pk_from_slice S = Ok S ->
  exists g1 g2 P,
    from_random (pk_from_priv v) S r = Ok g1 /\ one_time_key Hs g1 i = Ok P /\
    from_key v S (pk_from_priv r) = Ok g2 /\ otk_check Hs g2 i P = Ok true /\
    candidate_spend Hs g2 i P = Ok S /\ pk_from_slice P = Ok P.
Proof. intros E LW. exact one_time_key_recognised. Qed.

Check C10_derivation_partial : forall (E : EdOps) (LW : EdLaws E) a B, valid B ->
  key_derive a (compress B) = Ok (compress (smul 8 (smul a B))) /\ smul 8 (smul a B) = smul (8 * a) B.
Check C10_derivation_accepted_partial : forall (E : EdOps) (LW : EdLaws E) a k, pk_from_slice k = Ok k ->
  exists B, valid B /\ compress B = k /\ key_derive a k = Ok (compress (smul 8 (smul a B))).
Check C10_torsion_cleared_partial : forall (E : EdOps) (LW : EdLaws E) a B' T,
  valid B' -> valid T -> smul ell B' = pzero -> smul 8 T = pzero ->
  key_derive a (compress (padd B' T)) = Ok (compress (smul (8 * a) B')) /\
  smul (8 * a) B' = smul ((8 * a) mod ell) B' /\
  key_derive a (compress (padd B' T)) = key_derive a (compress B').
Check C10_eight_torsion_partial : forall (E : EdOps) (LW : EdLaws E) a B' i, valid B' ->
  key_derive a (compress (padd B' (tors i))) = Ok (compress (smul (8 * a) B')) /\
  key_derive a (compress (tors i)) = Ok (compress pzero).
Check C10_sender_receiver_partial : forall (E : EdOps) (LW : EdLaws E) r v,
  key_derive r (pk_from_priv v) = key_derive v (pk_from_priv r) /\
  key_derive r (pk_from_priv v) = Ok (compress (smul (8 * r * v) G)).
Check C10_generators_agree_partial : forall (E : EdOps) (LW : EdLaws E) r v S,
  exists D, from_random (pk_from_priv v) S r = Ok (S, D) /\ from_key v S (pk_from_priv r) = Ok (S, D) /\
            D = compress (smul 8 (smul r (smul v G))).
Check C10_one_time_key_partial : forall (E : EdOps) (LW : EdLaws E) (Hs : hs_fun) S rv i, valid S ->
  one_time_key Hs (compress S, rv) i = Ok (compress (padd (smul (Hs (rv ++ enc_varint (i mod 2 ^ 64)%N)) G) S)).
Check C10_candidate_is_spend_key_partial : forall (E : EdOps) (LW : EdLaws E) (Hs : hs_fun) g i P,
  pk_from_slice (fst g) = Ok (fst g) -> one_time_key Hs g i = Ok P ->
  candidate_spend Hs g i P = Ok (fst g) /\ otk_check Hs g i P = Ok true /\ pk_from_slice P = Ok P.
Check C10_check_exact : forall (E : EdOps) (Hs : hs_fun) g i key P,
  one_time_key Hs g i = Ok P -> (otk_check Hs g i key = Ok true <-> key = P).
Check C10_one_time_key_recognised_partial : forall (E : EdOps) (LW : EdLaws E) (Hs : hs_fun) r v S i,
  pk_from_slice S = Ok S ->
  exists g1 g2 P,
    from_random (pk_from_priv v) S r = Ok g1 /\ one_time_key Hs g1 i = Ok P /\
    from_key v S (pk_from_priv r) = Ok g2 /\ otk_check Hs g2 i P = Ok true /\
    candidate_spend Hs g2 i P = Ok S /\ pk_from_slice P = Ok P.

Print Assumptions C10_derivation_partial.
Print Assumptions C10_derivation_accepted_partial.
Print Assumptions C10_torsion_cleared_partial.
Print Assumptions C10_eight_torsion_partial.
Print Assumptions C10_sender_receiver_partial.
Print Assumptions C10_generators_agree_partial.
Print Assumptions C10_one_time_key_partial.
Print Assumptions C10_candidate_is_spend_key_partial.
Print Assumptions C10_check_exact.
Print Assumptions C10_one_time_key_recognised_partial.

(* ==== added by the model-mutation audit (notes/MODEL_MUTANTS_B.md, Proofs/AuditC10.v) ============================= *)
From MRS Require Import Proofs.AuditC10.

(* BOTH constructors apply the cofactor to the point: KeyGenerator::from_key(view a, spend S, tx key B) and
   KeyGenerator::from_random(view key B, S, tx secret a) carry rv = 8*(a*B) for EVERY valid point B (honest or not).  The theorems
   above state this for key_derive only, and for the two constructors only at honest keys B = r*G, where (8a mod l)*B = 8*(a*B) *)
Theorem C10_generators_derivation_partial : forall (E : EdOps) (LW : EdLaws E) a S B, valid B ->
  from_key a S (compress B) = Ok (S, compress (smul 8 (smul a B))) /\
  from_random (compress B) S a = Ok (S, compress (smul 8 (smul a B))).
Proof. intros E LW. exact generators_derive. Qed.

(* ... so both clear a small-order component T of the key they are given: the generator of B' + T is the generator of B' *)
Theorem C10_generators_clear_torsion_partial : forall (E : EdOps) (LW : EdLaws E) a S B' T,
  valid B' -> valid T -> smul 8 T = pzero ->
  from_key a S (compress (padd B' T)) = Ok (S, compress (smul (8 * a) B')) /\
  from_random (compress (padd B' T)) S a = Ok (S, compress (smul (8 * a) B')) /\
  from_key a S (compress (padd B' T)) = from_key a S (compress B').
Proof. intros E LW. exact generators_clear_torsion. Qed.

(* ... for every byte string that PublicKey::from_slice accepts; never an error or a panic *)
Theorem C10_generators_accepted_partial : forall (E : EdOps) (LW : EdLaws E) a S k, pk_from_slice k = Ok k ->
  exists B, valid B /\ compress B = k /\
    from_key a S k = Ok (S, compress (smul 8 (smul a B))) /\ from_random k S a = Ok (S, compress (smul 8 (smul a B))).
Proof. intros E LW. exact generators_accepted. Qed.

Check C10_generators_derivation_partial : forall (E : EdOps) (LW : EdLaws E) a S B, valid B ->
  from_key a S (compress B) = Ok (S, compress (smul 8 (smul a B))) /\
  from_random (compress B) S a = Ok (S, compress (smul 8 (smul a B))).
Check C10_generators_clear_torsion_partial : forall (E : EdOps) (LW : EdLaws E) a S B' T,
  valid B' -> valid T -> smul 8 T = pzero ->
  from_key a S (compress (padd B' T)) = Ok (S, compress (smul (8 * a) B')) /\
  from_random (compress (padd B' T)) S a = Ok (S, compress (smul (8 * a) B')) /\
  from_key a S (compress (padd B' T)) = from_key a S (compress B').
Check C10_generators_accepted_partial : forall (E : EdOps) (LW : EdLaws E) a S k, pk_from_slice k = Ok k ->
  exists B, valid B /\ compress B = k /\
    from_key a S k = Ok (S, compress (smul 8 (smul a B))) /\ from_random k S a = Ok (S, compress (smul 8 (smul a B))).

Print Assumptions C10_generators_derivation_partial.
Print Assumptions C10_generators_clear_torsion_partial.
Print Assumptions C10_generators_accepted_partial.
