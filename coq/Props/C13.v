(* C13 — keys are accepted exactly when canonical; key arithmetic is the group law.
   Secret-key statements are unconditional arithmetic about the model.  Statements about public keys and key
   arithmetic are proved for EVERY instance (E, LW) of the EdLaws record (Model/EdClass.v): the group laws are
   hypotheses of the statement, hence the suffix `_partial`.
   This file contains only statements (pinned by Check), `exact` proofs and assumption audits. *)
From MRS Require Import Proofs.KeysProofs Proofs.EdInstProofs Proofs.EdInstLaws Proofs.EdToy.
Open Scope Z_scope.

(* ---- secret keys -------------------------------------------------------------------------------------------- *)
Theorem C13_secret : forall k,
  (sk_from_slice k = Ok (le2z k) <-> (length k = 32%nat /\ le2z k < ell)) /\
  (sk_from_slice k = Ok (le2z k) \/ sk_from_slice k = Err EBad).
Proof. intros k. split; [exact (sk_from_slice_iff k)|exact (sk_from_slice_total k)]. Qed.

(* an accepted secret key gives back the same bytes: binary, hexadecimal (Display then FromStr) and consensus form *)
Theorem C13_secret_roundtrip : forall k s, sk_from_slice k = Ok s ->
  sk_to_bytes s = k /\
  (sk_to_string s = hex_encode k /\ sk_from_str (hex_encode k) = Ok s) /\
  (forall r, dec_sk (k ++ r) = (Ok s, r) /\ enc_sk s = k).
Proof.
  intros k s H. split; [exact (sk_bytes_back k s H)|split; [exact (sk_display_of_accepted k s H)|]].
  intros r. split; [|exact (sk_bytes_back k s H)].
  rewrite (dec_sk_app k r (proj1 (sk_from_slice_ok k s H))). now rewrite H.
Qed.

Theorem C13_secret_parse_only_canonical : forall b s r, dec_sk b = (Ok s, r) -> b = enc_sk s ++ r /\ 0 <= s < ell.
Proof. exact dec_sk_ok. Qed.

Theorem C13_secret_text_only_canonical : forall t s, sk_from_str t = Ok s -> hex_decode t = Ok (sk_to_bytes s).
Proof. exact sk_str_back. Qed.

Theorem C13_secret_every_scalar : forall s, 0 <= s < ell ->
  sk_from_slice (sk_to_bytes s) = Ok s /\ sk_from_str (sk_to_string s) = Ok s /\
  forall r, dec_sk (enc_sk s ++ r) = (Ok s, r).
Proof.
  intros s Hs. split; [exact (sk_from_to_bytes s Hs)|split; [exact (sk_to_from_str s Hs)|]].
  intros r. exact (dec_enc_sk s r Hs).
Qed.

Theorem C13_hex_roundtrip : forall b, hex_decode (hex_encode b) = Ok b.
Proof. exact hex_decode_encode. Qed.

(* ---- public keys ---------------------------------------------------------------------------------------------- *)
Theorem C13_public_partial : forall (E : EdOps) (LW : EdLaws E) k,
  (pk_from_slice k = Ok k <-> exists P, valid P /\ compress P = k) /\
  (pk_from_slice k = Ok k \/ pk_from_slice k = Err EBad).
Proof. intros E LW k. split; [exact (pk_from_slice_iff k)|exact (pk_from_slice_total k)]. Qed.

Theorem C13_public_roundtrip_partial : forall (E : EdOps) (LW : EdLaws E) k, pk_from_slice k = Ok k ->
  pk_from_str (pk_to_string k) = Ok k /\
  (forall r, dec_pk (k ++ r) = (Ok k, r)) /\ enc_pk k = k /\
  exists P, valid P /\ pk_point k = Ok P /\ compress P = k.
Proof.
  intros E LW k H. split; [exact (pk_display_of_accepted k H)|split; [|split; [reflexivity|exact (pk_point_accepted k H)]]].
  intros r. exact (dec_enc_pk k r H).
Qed.

Theorem C13_public_parse_only_canonical_partial : forall (E : EdOps) (LW : EdLaws E) b k r,
  dec_pk b = (Ok k, r) -> b = enc_pk k ++ r /\ pk_from_slice k = Ok k.
Proof. intros E LW. exact dec_pk_ok. Qed.

Theorem C13_public_text_only_canonical_partial : forall (E : EdOps) (LW : EdLaws E) t k,
  pk_from_str t = Ok k -> hex_decode t = Ok k.
Proof. intros E LW. exact pk_str_back. Qed.

(* ---- arithmetic ---------------------------------------------------------------------------------------------- *)
(* the operators compute the group operations on the encoded points *)
Theorem C13_operators_partial : forall (E : EdOps) (LW : EdLaws E) P Q, valid P -> valid Q ->
  pk_add (compress P) (compress Q) = Ok (compress (padd P Q)) /\
  pk_sub (compress P) (compress Q) = Ok (compress (padd P (pneg Q))) /\
  forall s, sk_mul_pk s (compress P) = Ok (compress (smul s P)).
Proof. intros E LW. exact pk_add_is_group_law. Qed.

Theorem C13_pub_add_partial : forall (E : EdOps) (LW : EdLaws E) a b,
  pk_add (pk_from_priv a) (pk_from_priv b) = Ok (pk_from_priv (sk_add a b)).
Proof. intros E LW. exact pub_add. Qed.

Theorem C13_pub_mul_partial : forall (E : EdOps) (LW : EdLaws E) a b,
  sk_mul_pk a (pk_from_priv b) = Ok (pk_from_priv (sk_mul a b)).
Proof. intros E LW. exact pub_mul. Qed.

Theorem C13_add_sub_partial : forall (E : EdOps) (LW : EdLaws E) p q,
  pk_from_slice p = Ok p -> pk_from_slice q = Ok q -> bindr (pk_add p q) (fun r => pk_sub r q) = Ok p.
Proof. intros E LW. exact pk_add_sub. Qed.

(* results of operators on accepted keys are accepted keys; a panic needs a stored key that does not decompress *)
Theorem C13_closed_partial : forall (E : EdOps) (LW : EdLaws E) a b s,
  pk_from_slice a = Ok a -> pk_from_slice b = Ok b ->
  (exists c, pk_add a b = Ok c /\ pk_from_slice c = Ok c) /\
  (exists c, pk_sub a b = Ok c /\ pk_from_slice c = Ok c) /\
  (exists c, sk_mul_pk s a = Ok c /\ pk_from_slice c = Ok c) /\
  pk_from_slice (pk_from_priv s) = Ok (pk_from_priv s).
Proof.
  intros E LW a b s Ha Hb.
  split; [exact (pk_add_accepted a b Ha Hb)|split; [exact (pk_sub_accepted a b Ha Hb)|
  split; [exact (sk_mul_pk_accepted s a Ha)|exact (pk_from_priv_accepted s)]]].
Qed.

Theorem C13_panic_only_if_undecodable : forall (E : EdOps) a b,
  pk_add a b = Panic <-> (decompress a = None \/ decompress b = None).
Proof. intros E. exact pk_add_panics. Qed.

(* ---- the executable Ed25519 instance: accepted keys are in canonical range (unconditional, no EdLaws) ------------- *)
(* y = k mod 2^255 is below the field prime p, the sign bit is the parity of x < p, and it is clear when x = 0
   (neither non-canonical y nor "negative zero" is accepted).  That (x, y) satisfies the curve equation is NOT proved
   here (it needs the correctness of the square-root/inversion, i.e. primality of p). *)
Theorem C13_public_canonical_range : forall k, @pk_from_slice ed25519_ops k = Ok k ->
  exists P, Ed25519.decompress k = Some P /\
    let x := fst (Ed25519.affine P) in let y := snd (Ed25519.affine P) in
    0 <= x < Ed25519.fp /\ 0 <= y < Ed25519.fp /\ le2z k = y + (x mod 2) * 2 ^ 255 /\
    le2z k mod 2 ^ 255 = y /\ (x = 0 -> le2z k < 2 ^ 255).
Proof. exact inst_accepted_canonical. Qed.

(* the hypotheses of the _partial theorems are satisfiable (the cyclic group Z/l is an instance), so none of them is
   vacuous; this says nothing about Ed25519 itself *)
Theorem C13_laws_satisfiable : exists E : EdOps, EdLaws E /\ @smul E 1 G <> @smul E 0 G.
Proof. exists toy_ops. split; [exact toy_laws|exact toy_nontrivial]. Qed.

(* the THIRTEEN laws of EdLaws that are PROVED, unconditionally, for the executable instance (Proofs/EdInstProofs.v,
   Proofs/EdInstLaws.v: modular algebra without inverses + closed kernel computations), each stated as the field of EdLaws
   instantiated at `ed25519_ops` (padd_comm and compress_len even without the `valid` premises), and the inverse-free
   part of decompress_valid.  The other nine fields remain hypotheses for this instance: see the next theorem. *)
Theorem C13_instance_laws_proved :
  (* valid_zero, valid_G, valid_neg *)
  @valid ed25519_ops pzero /\
  @valid ed25519_ops G /\
  (forall P : @point ed25519_ops, valid P -> valid (pneg P)) /\
  (* padd_comm (for all representatives), padd_zero_r *)
  (forall P Q : @point ed25519_ops, padd P Q = padd Q P) /\
  (forall P : @point ed25519_ops, valid P -> padd P pzero = P) /\
  (* smul_0, smul_1, smul_opp *)
  (forall P : @point ed25519_ops, valid P -> smul 0 P = pzero) /\
  (forall P : @point ed25519_ops, valid P -> smul 1 P = P) /\
  (forall a (P : @point ed25519_ops), valid P -> smul (- a) P = pneg (smul a P)) /\
  (* smul_ell_G *)
  @smul ed25519_ops ell G = pzero /\
  (* compress_len (for all representatives), peqb_eq *)
  (forall P : @point ed25519_ops, length (compress P) = 32%nat) /\
  (forall P Q : @point ed25519_ops, valid P -> valid Q -> (peqb P Q = true <-> P = Q)) /\
  (* tors_valid, tors_8 *)
  (forall i, @valid ed25519_ops (tors i)) /\
  (forall i, @smul ed25519_ops 8 (tors i) = pzero) /\
  (* decompress_valid without the curve equation *)
  (forall b (P : @point ed25519_ops), decompress b = Some P ->
     0 <= Ed25519.pX P < Ed25519.fp /\ 0 <= Ed25519.pY P < Ed25519.fp /\ Ed25519.pZ P = 1 /\
     Ed25519.pT P = Ed25519.fmul (Ed25519.pX P) (Ed25519.pY P)).
Proof.
  split; [exact inst_valid_zero|]. split; [exact inst_valid_G|]. split; [exact inst_valid_neg|].
  split; [exact inst_padd_comm|]. split; [exact inst_padd_zero_r|].
  split; [exact inst_smul_0|]. split; [exact inst_smul_1|]. split; [exact inst_smul_opp|].
  split; [exact inst_smul_ell_G|]. split; [exact inst_compress_len|]. split; [exact inst_peqb_eq|].
  split; [exact inst_tors_valid|]. split; [exact inst_tors_8|exact inst_decompress_some_shape].
Qed.

(* what is still missing for `EdLaws ed25519_ops`, explicitly: closure under addition and scalar multiplication,
   associativity, inverse, smul_add, smul_mul, G_order, decompress_compress, and that a decompressed point satisfies the
   curve equation (`inst_on_curve`).  All of them need field inverses (primality of 2^255-19) / the Edwards addition law. *)
Theorem C13_instance_laws_remaining :
  (forall P Q : @point ed25519_ops, valid P -> valid Q -> valid (padd P Q)) ->
  (forall k (P : @point ed25519_ops), valid P -> valid (smul k P)) ->
  (forall P Q R : @point ed25519_ops, valid P -> valid Q -> valid R -> padd P (padd Q R) = padd (padd P Q) R) ->
  (forall P : @point ed25519_ops, valid P -> padd P (pneg P) = pzero) ->
  (forall a b (P : @point ed25519_ops), valid P -> smul (a + b) P = padd (smul a P) (smul b P)) ->
  (forall a b (P : @point ed25519_ops), valid P -> smul (a * b) P = smul a (smul b P)) ->
  (forall a b, @smul ed25519_ops a G = smul b G -> a mod ell = b mod ell) ->
  (forall P : @point ed25519_ops, valid P -> decompress (compress P) = Some P) ->
  (forall b (P : @point ed25519_ops), decompress b = Some P -> inst_on_curve P) ->
  EdLaws ed25519_ops.
Proof. exact inst_laws_from_remaining. Qed.

(* non-vacuity / sanity on the concrete arithmetic (curve known-answer tests are in Proofs/EdKAT.v) *)
Example C13_ex_l_minus_1 : sk_from_slice (sk_to_bytes (ell - 1)) = Ok (ell - 1) /\ sk_from_slice (sk_to_bytes ell) = Err EBad.
Proof. split; vm_compute; reflexivity. Qed.
Example C13_ex_short : sk_from_slice [x01] = Err EBad /\ sk_from_slice (repeat xff 32) = Err EBad.
Proof. split; vm_compute; reflexivity. Qed.
Example C13_ex_hex : hex_decode [x41; x62] = Ok [xab] /\ hex_decode [x41] = Err EBad /\ hex_encode [xab] = [x61; x62].
Proof. repeat split; vm_compute; reflexivity. Qed.

Check C13_secret : forall k,
  (sk_from_slice k = Ok (le2z k) <-> (length k = 32%nat /\ le2z k < ell)) /\
  (sk_from_slice k = Ok (le2z k) \/ sk_from_slice k = Err EBad).
Check C13_secret_roundtrip : forall k s, sk_from_slice k = Ok s ->
  sk_to_bytes s = k /\
  (sk_to_string s = hex_encode k /\ sk_from_str (hex_encode k) = Ok s) /\
  (forall r, dec_sk (k ++ r) = (Ok s, r) /\ enc_sk s = k).
Check C13_secret_parse_only_canonical : forall b s r, dec_sk b = (Ok s, r) -> b = enc_sk s ++ r /\ 0 <= s < ell.
Check C13_secret_text_only_canonical : forall t s, sk_from_str t = Ok s -> hex_decode t = Ok (sk_to_bytes s).
Check C13_secret_every_scalar : forall s, 0 <= s < ell ->
  sk_from_slice (sk_to_bytes s) = Ok s /\ sk_from_str (sk_to_string s) = Ok s /\
  forall r, dec_sk (enc_sk s ++ r) = (Ok s, r).
Check C13_hex_roundtrip : forall b, hex_decode (hex_encode b) = Ok b.
Check C13_public_partial : forall (E : EdOps) (LW : EdLaws E) k,
  (pk_from_slice k = Ok k <-> exists P, valid P /\ compress P = k) /\
  (pk_from_slice k = Ok k \/ pk_from_slice k = Err EBad).
Check C13_public_roundtrip_partial : forall (E : EdOps) (LW : EdLaws E) k, pk_from_slice k = Ok k ->
  pk_from_str (pk_to_string k) = Ok k /\
  (forall r, dec_pk (k ++ r) = (Ok k, r)) /\ enc_pk k = k /\
  exists P, valid P /\ pk_point k = Ok P /\ compress P = k.
Check C13_public_parse_only_canonical_partial : forall (E : EdOps) (LW : EdLaws E) b k r,
  dec_pk b = (Ok k, r) -> b = enc_pk k ++ r /\ pk_from_slice k = Ok k.
Check C13_public_text_only_canonical_partial : forall (E : EdOps) (LW : EdLaws E) t k,
  pk_from_str t = Ok k -> hex_decode t = Ok k.
Check C13_operators_partial : forall (E : EdOps) (LW : EdLaws E) P Q, valid P -> valid Q ->
  pk_add (compress P) (compress Q) = Ok (compress (padd P Q)) /\
  pk_sub (compress P) (compress Q) = Ok (compress (padd P (pneg Q))) /\
  forall s, sk_mul_pk s (compress P) = Ok (compress (smul s P)).
Check C13_pub_add_partial : forall (E : EdOps) (LW : EdLaws E) a b,
  pk_add (pk_from_priv a) (pk_from_priv b) = Ok (pk_from_priv (sk_add a b)).
Check C13_pub_mul_partial : forall (E : EdOps) (LW : EdLaws E) a b,
  sk_mul_pk a (pk_from_priv b) = Ok (pk_from_priv (sk_mul a b)).
Check C13_add_sub_partial : forall (E : EdOps) (LW : EdLaws E) p q,
  pk_from_slice p = Ok p -> pk_from_slice q = Ok q -> bindr (pk_add p q) (fun r => pk_sub r q) = Ok p.
Check C13_closed_partial : forall (E : EdOps) (LW : EdLaws E) a b s,
  pk_from_slice a = Ok a -> pk_from_slice b = Ok b ->
  (exists c, pk_add a b = Ok c /\ pk_from_slice c = Ok c) /\
  (exists c, pk_sub a b = Ok c /\ pk_from_slice c = Ok c) /\
  (exists c, sk_mul_pk s a = Ok c /\ pk_from_slice c = Ok c) /\
  pk_from_slice (pk_from_priv s) = Ok (pk_from_priv s).
Check C13_panic_only_if_undecodable : forall (E : EdOps) a b,
  pk_add a b = Panic <-> (decompress a = None \/ decompress b = None).
Check C13_public_canonical_range : forall k, @pk_from_slice ed25519_ops k = Ok k ->
  exists P, Ed25519.decompress k = Some P /\
    let x := fst (Ed25519.affine P) in let y := snd (Ed25519.affine P) in
    0 <= x < Ed25519.fp /\ 0 <= y < Ed25519.fp /\ le2z k = y + (x mod 2) * 2 ^ 255 /\
    le2z k mod 2 ^ 255 = y /\ (x = 0 -> le2z k < 2 ^ 255).
Check C13_laws_satisfiable : exists E : EdOps, EdLaws E /\ @smul E 1 G <> @smul E 0 G.
Check C13_instance_laws_proved :
  (* valid_zero, valid_G, valid_neg *)
  @valid ed25519_ops pzero /\
  @valid ed25519_ops G /\
  (forall P : @point ed25519_ops, valid P -> valid (pneg P)) /\
  (* padd_comm (for all representatives), padd_zero_r *)
  (forall P Q : @point ed25519_ops, padd P Q = padd Q P) /\
  (forall P : @point ed25519_ops, valid P -> padd P pzero = P) /\
  (* smul_0, smul_1, smul_opp *)
  (forall P : @point ed25519_ops, valid P -> smul 0 P = pzero) /\
  (forall P : @point ed25519_ops, valid P -> smul 1 P = P) /\
  (forall a (P : @point ed25519_ops), valid P -> smul (- a) P = pneg (smul a P)) /\
  (* smul_ell_G *)
  @smul ed25519_ops ell G = pzero /\
  (* compress_len (for all representatives), peqb_eq *)
  (forall P : @point ed25519_ops, length (compress P) = 32%nat) /\
  (forall P Q : @point ed25519_ops, valid P -> valid Q -> (peqb P Q = true <-> P = Q)) /\
  (* tors_valid, tors_8 *)
  (forall i, @valid ed25519_ops (tors i)) /\
  (forall i, @smul ed25519_ops 8 (tors i) = pzero) /\
  (* decompress_valid without the curve equation *)
  (forall b (P : @point ed25519_ops), decompress b = Some P ->
     0 <= Ed25519.pX P < Ed25519.fp /\ 0 <= Ed25519.pY P < Ed25519.fp /\ Ed25519.pZ P = 1 /\
     Ed25519.pT P = Ed25519.fmul (Ed25519.pX P) (Ed25519.pY P)).
Check C13_instance_laws_remaining :
  (forall P Q : @point ed25519_ops, valid P -> valid Q -> valid (padd P Q)) ->
  (forall k (P : @point ed25519_ops), valid P -> valid (smul k P)) ->
  (forall P Q R : @point ed25519_ops, valid P -> valid Q -> valid R -> padd P (padd Q R) = padd (padd P Q) R) ->
  (forall P : @point ed25519_ops, valid P -> padd P (pneg P) = pzero) ->
  (forall a b (P : @point ed25519_ops), valid P -> smul (a + b) P = padd (smul a P) (smul b P)) ->
  (forall a b (P : @point ed25519_ops), valid P -> smul (a * b) P = smul a (smul b P)) ->
  (forall a b, @smul ed25519_ops a G = smul b G -> a mod ell = b mod ell) ->
  (forall P : @point ed25519_ops, valid P -> decompress (compress P) = Some P) ->
  (forall b (P : @point ed25519_ops), decompress b = Some P -> inst_on_curve P) ->
  EdLaws ed25519_ops.

Print Assumptions C13_secret.
Print Assumptions C13_secret_roundtrip.
Print Assumptions C13_secret_parse_only_canonical.
Print Assumptions C13_secret_text_only_canonical.
Print Assumptions C13_secret_every_scalar.
Print Assumptions C13_hex_roundtrip.
Print Assumptions C13_public_partial.
Print Assumptions C13_public_roundtrip_partial.
Print Assumptions C13_public_parse_only_canonical_partial.
Print Assumptions C13_public_text_only_canonical_partial.
Print Assumptions C13_operators_partial.
Print Assumptions C13_pub_add_partial.
Print Assumptions C13_pub_mul_partial.
Print Assumptions C13_add_sub_partial.
Print Assumptions C13_closed_partial.
Print Assumptions C13_panic_only_if_undecodable.
Print Assumptions C13_public_canonical_range.
Print Assumptions C13_laws_satisfiable.
Print Assumptions C13_instance_laws_proved.
Print Assumptions C13_instance_laws_remaining.

(* ==== added by the model-mutation audit (notes/MODEL_MUTANTS_B.md, Proofs/AuditC13.v) ============================= *)
From MRS Require Import Proofs.AuditC13.

(* The "only canonical text" theorems above are stated through the model's hex decoder.  This pins the decoder itself:
   hex_decode returns b EXACTLY for the case variants of the canonical lower-case text hex_encode b
   (ascii_lower c := c + 32 for 'A'..'Z', c otherwise; Proofs/AuditC13.v) - no blanks, no prefix, no other letters, no odd length;
   in particular 'A'..'F' have the values of 'a'..'f' *)
Theorem C13_hex_accepts_exactly_case_variants : forall t b, hex_decode t = Ok b <-> map ascii_lower t = hex_encode b.
Proof. exact hex_decode_iff. Qed.

(* hence an accepted key text IS the Display text of the returned key, up to the case of the letters a-f *)
Theorem C13_secret_text_canonical_up_to_case : forall t s, sk_from_str t = Ok s -> map ascii_lower t = sk_to_string s.
Proof. exact sk_text_canonical. Qed.

Theorem C13_public_text_canonical_up_to_case_partial : forall (E : EdOps) (LW : EdLaws E) t k,
  pk_from_str t = Ok k -> map ascii_lower t = pk_to_string k.
Proof. intros E LW. exact pk_text_canonical. Qed.

Check C13_hex_accepts_exactly_case_variants : forall t b, hex_decode t = Ok b <-> map ascii_lower t = hex_encode b.
Check C13_secret_text_canonical_up_to_case : forall t s, sk_from_str t = Ok s -> map ascii_lower t = sk_to_string s.
Check C13_public_text_canonical_up_to_case_partial : forall (E : EdOps) (LW : EdLaws E) t k,
  pk_from_str t = Ok k -> map ascii_lower t = pk_to_string k.

Print Assumptions C13_hex_accepts_exactly_case_variants.
Print Assumptions C13_secret_text_canonical_up_to_case.
Print Assumptions C13_public_text_canonical_up_to_case_partial.
