(* C16 — transaction extra: well-formed sub-field sequences round-trip; parsing is total.
   Model: Model/Extra.v (SubField codec, ExtraField::try_parse, From<ExtraField> for RawExtraField, accessors).
   Every theorem holds for an ARBITRARY key-validity predicate valid_pk : bytes -> bool (PublicKey::from_slice acceptance;
   the evaluators instantiate it with Ed25519.pk_valid).
   This file contains only statements (pinned by Check), `exact` proofs and assumption audits. *)
From MRS Require Import Proofs.ExtraProofs.
Open Scope N_scope.

(* Definitions used in the statements (Proofs/ExtraProofs.v):
     wf_key k          := length k = 32 /\ valid_pk k = true
     wf_subfield f     := TxPublicKey k: wf_key k | Nonce b, MysteriousMinerGate b: lenN b <= 32 MiB | Padding n: n <= 255
                          | MergeMining d h: d < 2^64 /\ length h = 32 | AdditionalPublicKey ks: all wf_key /\ 32 * lenN ks <= 32 MiB
     pad_ok f rest     := f = Padding n -> n = 255 \/ rest = []
     pad_rule fs       := every Padding n in fs has n = 255 or is the last element
     wf_extra fs       := Forall wf_subfield fs /\ pad_rule fs /\ lenN (enc_fields fs) <= 32 MiB
     eq_upto_mm_size f c := c = enc_subfield f, except for MergeMining d h: exists sz, c = [0x03; sz] ++ enc_varint d ++ h
     strict_seq e fs   := e decodes as the sub-fields fs one after the other with no failed decode
   try_parse returns Ok (true, fs) for Rust's Ok(ExtraField(fs)), Ok (false, fs) for Err(ExtraField(fs)). *)

(* parsing is total: for EVERY byte string the loop ends with a result — the fuel S (length e) is never exhausted
   (no Err EFuel: each iteration consumes at least the tag byte) and nothing panics (no Panic: in particular the u8
   counter of the padding loop never exceeds 255) *)
Theorem C16_total :
  forall valid_pk e, exists ok fs, try_parse valid_pk e = Ok (ok, fs).
Proof. intros valid_pk e. exact (try_parse_total valid_pk e). Qed.

(* the sub-field decoder alone never panics ... *)
Theorem C16_subfield_never_panics :
  forall valid_pk s r, dec_subfield valid_pk s <> (Panic, r).
Proof. exact dec_sf_never_panics. Qed.

(* ... and, whatever the outcome (value or error), leaves the cursor strictly further on a non-empty input *)
Theorem C16_subfield_progress :
  forall valid_pk s, s <> [] -> (length (snd (dec_subfield valid_pk s)) < length s)%nat.
Proof. intros valid_pk s. exact (proj2 (sf_good_progress valid_pk s)). Qed.

(* whatever is returned (fully parsable or not) consists of constructible sub-fields: valid 32-byte keys, padding <= 255,
   depth < 2^64, 32-byte root, lengths within the allocation cap *)
Theorem C16_returned_fields_wf :
  forall valid_pk e ok fs, try_parse valid_pk e = Ok (ok, fs) -> Forall (wf_subfield valid_pk) fs.
Proof. intros valid_pk e ok fs. exact (parse_loop_wf valid_pk _ e ok fs). Qed.

(* what one sub-field decode accepts: the consumed bytes c are the re-encoding of the value — exactly, for every variant but
   MergeMining, where the size byte (second byte) is arbitrary in the input and recomputed by the encoder; a padding
   shorter than 255 is only ever returned at the end of the input *)
Theorem C16_subfield_exact :
  forall valid_pk s f r, dec_subfield valid_pk s = (Ok f, r) ->
  exists c, s = c ++ r /\ eq_upto_mm_size f c /\ wf_subfield valid_pk f /\ pad_ok f r.
Proof. exact dec_subfield_ok. Qed.

(* serialise one well-formed sub-field, put anything after it (nothing after a padding shorter than 255): it parses back
   and the cursor stops exactly at its end *)
Theorem C16_subfield_roundtrip :
  forall valid_pk f r, wf_subfield valid_pk f -> pad_ok f r ->
  dec_subfield valid_pk (enc_subfield f ++ r) = (Ok f, r).
Proof. exact dec_subfield_complete. Qed.

(* strict parse (deserialize::<SubField>) of each well-formed sub-field alone returns it, padding of every size 0..255 included *)
Theorem C16_each_subfield_strict :
  forall valid_pk f, wf_subfield valid_pk f ->
  deserialize (dec_subfield valid_pk) (enc_subfield f) = Ok f.
Proof. exact deserialize_subfield. Qed.

(* the encoder's u8 arithmetic `32 + varint_len as u8` cannot overflow (checked build = release build) ... *)
Theorem C16_enc_no_overflow :
  forall valid_pk f, wf_subfield valid_pk f -> enc_subfield_chk f = Ok (enc_subfield f).
Proof. exact enc_subfield_chk_ok. Qed.

(* ... and the size byte written is 32 + the length of the depth varint *)
Theorem C16_mm_size_byte :
  forall d, d < 2 ^ 64 ->
  mm_size_overflows d = false /\ mm_size d = 32 + lenN (enc_varint d) /\ 33 <= mm_size d <= 42.
Proof. exact mm_size_ok. Qed.

(* THE round trip.  wf_extra = every sub-field constructible (wf_subfield), padding of fewer than 255 bytes only in last
   position (pad_rule), serialised length within the 32 MiB cap.  Then RawExtraField::from(ExtraField(fs)) is the plain
   concatenation of the sub-field encodings and try_parse returns Ok(fs) *)
Theorem C16_roundtrip :
  forall valid_pk fs, wf_extra valid_pk fs ->
  raw_of_extra fs = Ok (enc_fields fs) /\ try_parse valid_pk (enc_fields fs) = Ok (true, fs).
Proof. exact roundtrip_extra. Qed.

(* the parse half needs no bound on the total length *)
Theorem C16_roundtrip_fields :
  forall valid_pk fs, Forall (wf_subfield valid_pk) fs -> pad_rule fs ->
  try_parse valid_pk (enc_fields fs) = Ok (true, fs).
Proof. exact roundtrip_fields. Qed.

(* the cap in wf_extra is necessary: `impl From<ExtraField> for RawExtraField` is deserialize(serialize(..)).unwrap(), and
   the Vec<u8> decoder refuses more than 32 MiB, so the conversion PANICS for larger extras ... *)
Theorem C16_from_panics_over_cap :
  forall fs, MAX_VEC_MEM_ALLOC_SIZE < lenN (enc_fields fs) -> lenN (enc_fields fs) < 2 ^ 64 ->
  raw_of_extra fs = Panic.
Proof. exact raw_of_extra_panics. Qed.

(* ... e.g. for 131073 paddings of 255 bytes (every sub-field well-formed, padding rule respected) *)
Theorem C16_from_panics_witness :
  forall valid_pk,
  Forall (wf_subfield valid_pk) big_extra /\ pad_rule big_extra /\ raw_of_extra big_extra = Panic.
Proof. exact big_extra_panics. Qed.

(* try_parse reports success exactly when the input is a sequence of sub-fields each decoded where the previous one
   ended (strict_seq: no failed decode, no resynchronisation) ... *)
Theorem C16_ok_iff_no_resync :
  forall valid_pk e fs, try_parse valid_pk e = Ok (true, fs) <-> strict_seq valid_pk e fs.
Proof. exact try_parse_ok_iff. Qed.

(* ... and Err(fields) exactly when it is not *)
Theorem C16_partial_not_strict :
  forall valid_pk e fs, try_parse valid_pk e = Ok (false, fs) -> forall fs', ~ strict_seq valid_pk e fs'.
Proof. exact try_parse_partial. Qed.

(* a fully parsable input is the concatenation of the encodings of the returned sub-fields up to merge-mining size bytes,
   and the returned sequence satisfies the side conditions of the round trip *)
Theorem C16_ok_structure :
  forall valid_pk e fs, strict_seq valid_pk e fs ->
  exists cs, e = concat cs /\ Forall2 eq_upto_mm_size fs cs /\ Forall (wf_subfield valid_pk) fs /\ pad_rule fs.
Proof. exact strict_inv. Qed.

(* hence re-serialising and re-parsing a fully parsable extra gives the same sub-fields (the bytes are NOT claimed
   equal: the merge-mining size byte is not preserved; the length is) *)
Theorem C16_ok_idempotent :
  forall valid_pk e fs, try_parse valid_pk e = Ok (true, fs) ->
  try_parse valid_pk (enc_fields fs) = Ok (true, fs) /\ length (enc_fields fs) = length e.
Proof. exact ok_idempotent. Qed.

(* without merge-mining tags the bytes are reproduced exactly *)
Theorem C16_ok_bytes_equal_without_mm :
  forall valid_pk e fs, try_parse valid_pk e = Ok (true, fs) -> Forall no_mm fs -> enc_fields fs = e.
Proof. exact ok_bytes_equal. Qed.

(* tx_pubkey / tx_additional_pubkeys return the FIRST TxPublicKey / AdditionalPublickKey sub-field, None iff there is none;
   with C16_roundtrip: the keys reported for try_parse(raw(fs)) are those of the first such sub-fields of fs *)
Theorem C16_accessors_first :
  (forall pre k post, Forall (fun f => forall k', f <> TxPublicKey k') pre ->
     tx_pubkey (pre ++ TxPublicKey k :: post) = Some k) /\
  (forall fs, tx_pubkey fs = None <-> Forall (fun f => forall k', f <> TxPublicKey k') fs) /\
  (forall pre ks post, Forall (fun f => forall k', f <> AdditionalPublicKey k') pre ->
     tx_additional_pubkeys (pre ++ AdditionalPublicKey ks :: post) = Some ks) /\
  (forall fs, tx_additional_pubkeys fs = None <-> Forall (fun f => forall k', f <> AdditionalPublicKey k') fs).
Proof. split; [exact tx_pubkey_first|split; [exact tx_pubkey_none|split; [exact tx_additional_first|exact tx_additional_none]]]. Qed.

(* the enclosing transaction never fails on the extra's content: the prefix decoder (Codec.dec_prefix) reads the extra with
   dec_bytes_vec, which accepts EVERY byte string within the cap verbatim; sub-fields are only looked at by try_parse,
   which is total (C16_total) *)
Theorem C16_tx_independent :
  forall e r, lenN e <= MAX_VEC_MEM_ALLOC_SIZE -> dec_bytes_vec (enc_bytes_vec e ++ r) = (Ok e, r).
Proof. exact dec_bytes_vec_complete. Qed.

(* the outcome of the conversion (value or panic) is the function raw_of_extra_outcome of the serialised length —
   this is what op `extra_from_len` evaluates at the cap boundary, with nonce_field_len for a single nonce *)
Theorem C16_from_outcome :
  forall fs, existsb subfield_overflows fs = false -> lenN (enc_fields fs) < 2 ^ 64 ->
  match raw_of_extra fs with
  | Ok raw => raw = enc_fields fs /\ raw_of_extra_outcome (lenN (enc_fields fs)) = Ok (lenN raw)
  | Err _ => False
  | Panic => raw_of_extra_outcome (lenN (enc_fields fs)) = Panic
  end.
Proof. exact from_outcome. Qed.

Theorem C16_nonce_field_len : forall b, lenN (enc_fields [Nonce b]) = nonce_field_len (lenN b).
Proof. exact nonce_field_len_ok. Qed.

(* ---- non-vacuity / sanity (key check instantiated with "every 32-byte string", cheap to evaluate) ---- *)
Definition any_key (_ : bytes) : bool := true.
Definition k32 : bytes := repeat x2a 32.
Example C16_ex_typical :   (* tx key, then a nonce carrying an encrypted payment id: 01 K 02 09 01 P *)
  try_parse any_key ([x01] ++ k32 ++ [x02; x09; x01; x11; x22; x33; x44; x55; x66; x77; x88])
  = Ok (true, [TxPublicKey k32; Nonce [x01; x11; x22; x33; x44; x55; x66; x77; x88]]).
Proof. vm_compute. reflexivity. Qed.
Example C16_ex_wf : wf_extra any_key [TxPublicKey k32; MergeMining 300 k32; Padding 255; Nonce [x07]; Padding 3].
Proof.
  unfold wf_extra. split; [|split].
  - repeat constructor; cbn; try lia. unfold MAX_VEC_MEM_ALLOC_SIZE. lia.
  - cbn. intuition.
  - vm_compute. discriminate.
Qed.
Example C16_ex_short_padding_not_last :   (* Padding 1 then a nonce: the decoder swallows the nonce tag as an invalid padding byte *)
  enc_fields [Padding 1; Nonce [x07]] = [x00; x00; x02; x01; x07] /\
  try_parse any_key [x00; x00; x02; x01; x07] = Ok (false, []).
Proof. split; vm_compute; reflexivity. Qed.
Example C16_ex_mm_size_not_preserved :
  try_parse any_key ([x03; xff; x05] ++ k32) = Ok (true, [MergeMining 5 k32]) /\
  enc_fields [MergeMining 5 k32] = [x03; x21; x05] ++ k32.
Proof. split; vm_compute; reflexivity. Qed.
Example C16_ex_resync : try_parse any_key [xff; x02; x01; x07; x04] = Ok (false, [Nonce [x07]]).
Proof. vm_compute. reflexivity. Qed.

Check C16_total :
  forall valid_pk e, exists ok fs, try_parse valid_pk e = Ok (ok, fs).
Check C16_subfield_never_panics :
  forall valid_pk s r, dec_subfield valid_pk s <> (Panic, r).
Check C16_subfield_progress :
  forall valid_pk s, s <> [] -> (length (snd (dec_subfield valid_pk s)) < length s)%nat.
Check C16_returned_fields_wf :
  forall valid_pk e ok fs, try_parse valid_pk e = Ok (ok, fs) -> Forall (wf_subfield valid_pk) fs.
Check C16_subfield_exact :
  forall valid_pk s f r, dec_subfield valid_pk s = (Ok f, r) ->
  exists c, s = c ++ r /\ eq_upto_mm_size f c /\ wf_subfield valid_pk f /\ pad_ok f r.
Check C16_subfield_roundtrip :
  forall valid_pk f r, wf_subfield valid_pk f -> pad_ok f r ->
  dec_subfield valid_pk (enc_subfield f ++ r) = (Ok f, r).
Check C16_each_subfield_strict :
  forall valid_pk f, wf_subfield valid_pk f ->
  deserialize (dec_subfield valid_pk) (enc_subfield f) = Ok f.
Check C16_enc_no_overflow :
  forall valid_pk f, wf_subfield valid_pk f -> enc_subfield_chk f = Ok (enc_subfield f).
Check C16_mm_size_byte :
  forall d, d < 2 ^ 64 ->
  mm_size_overflows d = false /\ mm_size d = 32 + lenN (enc_varint d) /\ 33 <= mm_size d <= 42.
Check C16_roundtrip :
  forall valid_pk fs, wf_extra valid_pk fs ->
  raw_of_extra fs = Ok (enc_fields fs) /\ try_parse valid_pk (enc_fields fs) = Ok (true, fs).
Check C16_roundtrip_fields :
  forall valid_pk fs, Forall (wf_subfield valid_pk) fs -> pad_rule fs ->
  try_parse valid_pk (enc_fields fs) = Ok (true, fs).
Check C16_from_panics_over_cap :
  forall fs, MAX_VEC_MEM_ALLOC_SIZE < lenN (enc_fields fs) -> lenN (enc_fields fs) < 2 ^ 64 ->
  raw_of_extra fs = Panic.
Check C16_from_panics_witness :
  forall valid_pk,
  Forall (wf_subfield valid_pk) big_extra /\ pad_rule big_extra /\ raw_of_extra big_extra = Panic.
Check C16_ok_iff_no_resync :
  forall valid_pk e fs, try_parse valid_pk e = Ok (true, fs) <-> strict_seq valid_pk e fs.
Check C16_partial_not_strict :
  forall valid_pk e fs, try_parse valid_pk e = Ok (false, fs) -> forall fs', ~ strict_seq valid_pk e fs'.
Check C16_ok_structure :
  forall valid_pk e fs, strict_seq valid_pk e fs ->
  exists cs, e = concat cs /\ Forall2 eq_upto_mm_size fs cs /\ Forall (wf_subfield valid_pk) fs /\ pad_rule fs.
Check C16_ok_idempotent :
  forall valid_pk e fs, try_parse valid_pk e = Ok (true, fs) ->
  try_parse valid_pk (enc_fields fs) = Ok (true, fs) /\ length (enc_fields fs) = length e.
Check C16_ok_bytes_equal_without_mm :
  forall valid_pk e fs, try_parse valid_pk e = Ok (true, fs) -> Forall no_mm fs -> enc_fields fs = e.
Check C16_accessors_first :
  (forall pre k post, Forall (fun f => forall k', f <> TxPublicKey k') pre ->
     tx_pubkey (pre ++ TxPublicKey k :: post) = Some k) /\
  (forall fs, tx_pubkey fs = None <-> Forall (fun f => forall k', f <> TxPublicKey k') fs) /\
  (forall pre ks post, Forall (fun f => forall k', f <> AdditionalPublicKey k') pre ->
     tx_additional_pubkeys (pre ++ AdditionalPublicKey ks :: post) = Some ks) /\
  (forall fs, tx_additional_pubkeys fs = None <-> Forall (fun f => forall k', f <> AdditionalPublicKey k') fs).
Check C16_tx_independent :
  forall e r, lenN e <= MAX_VEC_MEM_ALLOC_SIZE -> dec_bytes_vec (enc_bytes_vec e ++ r) = (Ok e, r).
Check C16_from_outcome :
  forall fs, existsb subfield_overflows fs = false -> lenN (enc_fields fs) < 2 ^ 64 ->
  match raw_of_extra fs with
  | Ok raw => raw = enc_fields fs /\ raw_of_extra_outcome (lenN (enc_fields fs)) = Ok (lenN raw)
  | Err _ => False
  | Panic => raw_of_extra_outcome (lenN (enc_fields fs)) = Panic
  end.
Check C16_nonce_field_len : forall b, lenN (enc_fields [Nonce b]) = nonce_field_len (lenN b).

Print Assumptions C16_total.
Print Assumptions C16_subfield_never_panics.
Print Assumptions C16_subfield_progress.
Print Assumptions C16_returned_fields_wf.
Print Assumptions C16_subfield_exact.
Print Assumptions C16_subfield_roundtrip.
Print Assumptions C16_each_subfield_strict.
Print Assumptions C16_enc_no_overflow.
Print Assumptions C16_mm_size_byte.
Print Assumptions C16_roundtrip.
Print Assumptions C16_roundtrip_fields.
Print Assumptions C16_from_panics_over_cap.
Print Assumptions C16_from_panics_witness.
Print Assumptions C16_ok_iff_no_resync.
Print Assumptions C16_partial_not_strict.
Print Assumptions C16_ok_structure.
Print Assumptions C16_ok_idempotent.
Print Assumptions C16_ok_bytes_equal_without_mm.
Print Assumptions C16_accessors_first.
Print Assumptions C16_tx_independent.
Print Assumptions C16_from_outcome.
Print Assumptions C16_nonce_field_len.
