(* C07 — output scanning reports exactly the outputs addressed to the wallet. *)
From MRS Require Import Proofs.ScanProofs.
Open Scope Z_scope.

Theorem C07_three_entry_points_agree : forall (E : EdOps) (Hs : hs_fun) (Hb : bytes -> bytes) v S a b c d (t : tx),
  tx_check_outputs Hs Hb v S a b c d t =
    prefix_check_outputs Hs Hb v S a b c d (tx_prefix t) (rct_base_of (tx_rct t)) /\
  (forall tb, checker_new Hs v S a b c d = Ok tb ->
     tx_check_outputs Hs Hb v S a b c d t = tx_check_outputs_with Hs Hb tb v S t /\
     tx_check_outputs_with Hs Hb tb v S t = check_outputs_with Hs Hb tb v S (tx_prefix t) (rct_base_of (tx_rct t))).
Proof. intros E Hs Hb. exact (entry_points_agree Hs Hb). Qed.

Check C07_three_entry_points_agree : forall (E : EdOps) (Hs : hs_fun) (Hb : bytes -> bytes) v S a b c d (t : tx),
  tx_check_outputs Hs Hb v S a b c d t =
    prefix_check_outputs Hs Hb v S a b c d (tx_prefix t) (rct_base_of (tx_rct t)) /\
  (forall tb, checker_new Hs v S a b c d = Ok tb ->
     tx_check_outputs Hs Hb v S a b c d t = tx_check_outputs_with Hs Hb tb v S t /\
     tx_check_outputs_with Hs Hb tb v S t = check_outputs_with Hs Hb tb v S (tx_prefix t) (rct_base_of (tx_rct t))).
Print Assumptions C07_three_entry_points_agree.
