(* C07 — output scanning reports exactly the outputs addressed to the wallet.
   Model: Model/Scan.v (+ Derive.v, Subaddr.v, Extra.v).  Spec: Spec/Sender.v (the Monero sender procedure).
   All curve-dependent theorems hold for EVERY instance (E, LW) of the EdLaws record and EVERY pair of hashes
   (Hs : hash-to-scalar, Hb : raw 32-byte hash): the group laws are hypotheses of the statements, hence `_partial`.
   Definitions used in the statements (Proofs/ScanProofs.v):
     in_ranges a b c d idx := a <= fst idx < b /\ c <= snd idx < d
     adds_of fields        := the first AdditionalPublickKey list of the extra, [] if there is none
     matches Hs Hb v S i o K idx := exists g P Sidx, from_key v S K = Ok g /\ as_one_time_key (o_target o) = Some P /\
        check_view_tag Hb (o_target o) (snd g) i = true /\ get_spend_public_key Hs v S idx = Ok Sidx /\ one_time_key Hs (Sidx, snd g) i = Ok P
   This file contains only statements (pinned by Check), `exact` proofs, non-vacuity Examples and assumption audits. *)
From MRS Require Import Proofs.ScanProofs Proofs.ScanToy.
Open Scope Z_scope.

(* Transaction::check_outputs, TransactionPrefix::check_outputs and the variants taking a pre-built SubKeyChecker run the same scan *)
Theorem C07_three_entry_points_agree : forall (E : EdOps) (Hs : hs_fun) (Hb : bytes -> bytes) v S a b c d (t : tx),
  tx_check_outputs Hs Hb v S a b c d t =
    prefix_check_outputs Hs Hb v S a b c d (tx_prefix t) (rct_base_of (tx_rct t)) /\
  (forall tb, checker_new Hs v S a b c d = Ok tb ->
     tx_check_outputs Hs Hb v S a b c d t = tx_check_outputs_with Hs Hb tb v S t /\
     tx_check_outputs_with Hs Hb tb v S t = check_outputs_with Hs Hb tb v S (tx_prefix t) (rct_base_of (tx_rct t))).
Proof. intros E Hs Hb. exact (entry_points_agree Hs Hb). Qed.

(* SOUNDNESS.  Every reported (position, index, key): the position is an output of the transaction, the index lies in the scanned
   ranges, the key is the FIRST TxPublicKey of the extra or the additional key at the same position (and then the main key did not
   match), the view tag check passed (absent tag passes), and the target key P is a valid key with
   P = one_time_key of the generator (S_idx, rv = 8*(v*K)) at that position, i.e. P = Hs(8vK || varint pos)*G + S_idx (C10_one_time_key_partial,
   C10_derivation_partial, C11_public_partial give the group-level reading of these model functions) *)
Theorem C07_sound_partial : forall (E : EdOps) (LW : EdLaws E) (Hs : hs_fun) (Hb : bytes -> bytes) v S a b c d p rct l w,
  prefix_check_outputs Hs Hb v S a b c d p rct = SOk l -> In w l ->
  exists t fields main o,
    checker_new Hs v S a b c d = Ok t /\
    raw_try_parse valid_pk_b (extra p) = Ok fields /\ tx_pubkey fields = Some main /\
    nth_error (outputs p) (N.to_nat (ow_pos w)) = Some o /\ ow_out w = o /\
    in_ranges a b c d (ow_index w) /\
    (ow_key w = main \/
       (check_key Hs Hb t v S (ow_pos w) o main = Ok None /\
        exists adds, tx_additional_pubkeys fields = Some adds /\ nth_error adds (N.to_nat (ow_pos w)) = Some (ow_key w))) /\
    exists g P Sidx,
       from_key v S (ow_key w) = Ok g /\ as_one_time_key (o_target o) = Some P /\
       check_view_tag Hb (o_target o) (snd g) (ow_pos w) = true /\
       get_spend_public_key Hs v S (ow_index w) = Ok Sidx /\
       one_time_key Hs (Sidx, snd g) (ow_pos w) = Ok P.
Proof. intros E LW Hs Hb. exact (scan_sound Hs Hb). Qed.

(* when the main key matches, it is the one reported (the additional key is only the fallback) *)
Theorem C07_main_key_preferred_partial : forall (E : EdOps) (LW : EdLaws E) (Hs : hs_fun) (Hb : bytes -> bytes) v S a b c d p rct l w t fields main o idx,
  prefix_check_outputs Hs Hb v S a b c d p rct = SOk l -> In w l ->
  checker_new Hs v S a b c d = Ok t -> raw_try_parse valid_pk_b (extra p) = Ok fields -> tx_pubkey fields = Some main ->
  nth_error (outputs p) (N.to_nat (ow_pos w)) = Some o ->
  check_key Hs Hb t v S (ow_pos w) o main = Ok (Some (idx, main)) -> ow_key w = main /\ ow_index w = idx.
Proof. intros E LW Hs Hb. exact (scan_prefers_main Hs Hb). Qed.

(* outputs are reported in output order, each position at most once *)
Theorem C07_positions_increasing : forall (E : EdOps) (Hs : hs_fun) (Hb : bytes -> bytes) t v S rct main outs i adds ecdhs outpks l,
  scan_outputs Hs Hb t v S rct main i outs adds ecdhs outpks = SOk l -> Sorted.StronglySorted N.lt (map ow_pos l).
Proof. intros E Hs Hb t v S rct main outs. exact (scan_outputs_sorted Hs Hb t v S rct main outs). Qed.

(* NOT REPORTED.  matches v S i o K idx := the algebraic condition of C07_sound (K decompresses, o's key P is a valid key, tag absent
   or equal to H("view_tag"||8vK||i)[0], P = Hs(8vK||i)G + S_idx).  If neither the main key nor the additional key at position k
   matches any in-range index, position k is not reported (foreign wallet, out-of-range subaddress, wrong position, wrong tag are instances) *)
Theorem C07_not_reported_partial : forall (E : EdOps) (LW : EdLaws E) (Hs : hs_fun) (Hb : bytes -> bytes) v S a b c d p rct l fields main k o,
  prefix_check_outputs Hs Hb v S a b c d p rct = SOk l ->
  raw_try_parse valid_pk_b (extra p) = Ok fields -> tx_pubkey fields = Some main ->
  nth_error (outputs p) k = Some o ->
  (forall idx, in_ranges a b c d idx -> ~ matches Hs Hb v S (N.of_nat k) o main idx) ->
  (forall K idx, nth_error (adds_of fields) k = Some K -> in_ranges a b c d idx -> ~ matches Hs Hb v S (N.of_nat k) o K idx) ->
  forall w, In w l -> ow_pos w <> N.of_nat k.
Proof. intros E LW Hs Hb. exact (scan_not_reported Hs Hb). Qed.

(* an output built by the sender of Spec/Sender.v (tx key r*G for the primary address, r*S_d for a subaddress; D = 8*(r*V_d);
   P = Hs(D||i)G + S_d; correct or absent tag) for an in-range address is recognised under the key the sender published *)
Theorem C07_sender_key_recognised_partial : forall (E : EdOps) (LW : EdLaws E) (Hs : hs_fun) (Hb : bytes -> bytes) v Sp a b c d t maj min r i o,
  valid Sp -> checker_new Hs v (compress Sp) a b c d = Ok t -> in_ranges a b c d (maj, min) -> (i < 2 ^ 64)%N ->
  let dst := wallet_address Hs v Sp maj min in
  let snt := send Hs Hb r dst i in
  (o_target o = TKey (compress (sn_onetime snt)) \/
   o_target o = TTagged (compress (sn_onetime snt)) (b2n (sn_tag snt))) ->
  exists idx', check_key Hs Hb t v (compress Sp) i o (compress (sn_key snt)) = Ok (Some (idx', compress (sn_key snt))) /\
               In (compress (a_spend dst), idx') t.
Proof. intros E LW Hs Hb. exact (sender_check_key Hs Hb). Qed.

(* COMPLETENESS w.r.t. Spec/Sender.v.  If the scan succeeds, the output at position k was built by the sender for in-range address
   (maj,min) of the wallet, with a correct or absent tag, and its key K is the first TxPublicKey or the additional key at position k,
   then position k IS reported; and if K is the main key or the main key does not match, it is reported with key K and an index
   whose spend key is S_(maj,min) - which is (maj,min) itself under the explicit hypothesis that no other in-range index has the
   same spend key (no collision resistance is assumed) *)
Theorem C07_complete_partial : forall (E : EdOps) (LW : EdLaws E) (Hs : hs_fun) (Hb : bytes -> bytes) v Sp a b c d p rct l fields main k o maj min r,
  valid Sp ->
  prefix_check_outputs Hs Hb v (compress Sp) a b c d p rct = SOk l ->
  raw_try_parse valid_pk_b (extra p) = Ok fields -> tx_pubkey fields = Some main ->
  nth_error (outputs p) k = Some o -> (N.of_nat k < 2 ^ 64)%N ->
  in_ranges a b c d (maj, min) ->
  let dst := wallet_address Hs v Sp maj min in
  let snt := send Hs Hb r dst (N.of_nat k) in
  let K := compress (sn_key snt) in
  (o_target o = TKey (compress (sn_onetime snt)) \/ o_target o = TTagged (compress (sn_onetime snt)) (b2n (sn_tag snt))) ->
  (K = main \/ nth_error (adds_of fields) k = Some K) ->
  exists w t, In w l /\ ow_pos w = N.of_nat k /\ ow_out w = o /\ checker_new Hs v (compress Sp) a b c d = Ok t /\
    ((K = main \/ check_key Hs Hb t v (compress Sp) (N.of_nat k) o main = Ok None) ->
       ow_key w = K /\ get_spend_public_key Hs v (compress Sp) (ow_index w) = Ok (compress (a_spend dst)) /\
       ((forall idx2, in_ranges a b c d idx2 -> get_spend_public_key Hs v (compress Sp) idx2 = Ok (compress (a_spend dst)) ->
           idx2 = (maj, min)) -> ow_index w = (maj, min))).
Proof. intros E LW Hs Hb. exact (scan_complete Hs Hb). Qed.

(* non-vacuity: on the toy instance of EdLaws (Z/l, Proofs/EdToy.v) with toy hashes, a transaction built with Spec/Sender.v for
   subaddress (0,1) via an additional key (position 0) and for the primary address via the main key with a view tag (position 1),
   plus the position-1 key replayed at position 2, scans to exactly the first two *)
Example C07_ex_toy_scan :
  toy_view toy_scan = Some [(0%N, (0%N, 1%N), toy_add0, toy_P0); (1%N, (0%N, 0%N), toy_main, toy_P1)].
Proof. vm_compute. reflexivity. Qed.
Example C07_ex_toy_laws : EdLaws toy_ops.
Proof. exact toy_laws. Qed.

Check C07_three_entry_points_agree : forall (E : EdOps) (Hs : hs_fun) (Hb : bytes -> bytes) v S a b c d (t : tx),
  tx_check_outputs Hs Hb v S a b c d t =
    prefix_check_outputs Hs Hb v S a b c d (tx_prefix t) (rct_base_of (tx_rct t)) /\
  (forall tb, checker_new Hs v S a b c d = Ok tb ->
     tx_check_outputs Hs Hb v S a b c d t = tx_check_outputs_with Hs Hb tb v S t /\
     tx_check_outputs_with Hs Hb tb v S t = check_outputs_with Hs Hb tb v S (tx_prefix t) (rct_base_of (tx_rct t))).
Check C07_sound_partial : forall (E : EdOps) (LW : EdLaws E) (Hs : hs_fun) (Hb : bytes -> bytes) v S a b c d p rct l w,
  prefix_check_outputs Hs Hb v S a b c d p rct = SOk l -> In w l ->
  exists t fields main o,
    checker_new Hs v S a b c d = Ok t /\
    raw_try_parse valid_pk_b (extra p) = Ok fields /\ tx_pubkey fields = Some main /\
    nth_error (outputs p) (N.to_nat (ow_pos w)) = Some o /\ ow_out w = o /\
    in_ranges a b c d (ow_index w) /\
    (ow_key w = main \/
       (check_key Hs Hb t v S (ow_pos w) o main = Ok None /\
        exists adds, tx_additional_pubkeys fields = Some adds /\ nth_error adds (N.to_nat (ow_pos w)) = Some (ow_key w))) /\
    exists g P Sidx,
       from_key v S (ow_key w) = Ok g /\ as_one_time_key (o_target o) = Some P /\
       check_view_tag Hb (o_target o) (snd g) (ow_pos w) = true /\
       get_spend_public_key Hs v S (ow_index w) = Ok Sidx /\
       one_time_key Hs (Sidx, snd g) (ow_pos w) = Ok P.
Check C07_main_key_preferred_partial : forall (E : EdOps) (LW : EdLaws E) (Hs : hs_fun) (Hb : bytes -> bytes) v S a b c d p rct l w t fields main o idx,
  prefix_check_outputs Hs Hb v S a b c d p rct = SOk l -> In w l ->
  checker_new Hs v S a b c d = Ok t -> raw_try_parse valid_pk_b (extra p) = Ok fields -> tx_pubkey fields = Some main ->
  nth_error (outputs p) (N.to_nat (ow_pos w)) = Some o ->
  check_key Hs Hb t v S (ow_pos w) o main = Ok (Some (idx, main)) -> ow_key w = main /\ ow_index w = idx.
Check C07_positions_increasing : forall (E : EdOps) (Hs : hs_fun) (Hb : bytes -> bytes) t v S rct main outs i adds ecdhs outpks l,
  scan_outputs Hs Hb t v S rct main i outs adds ecdhs outpks = SOk l -> Sorted.StronglySorted N.lt (map ow_pos l).
Check C07_not_reported_partial : forall (E : EdOps) (LW : EdLaws E) (Hs : hs_fun) (Hb : bytes -> bytes) v S a b c d p rct l fields main k o,
  prefix_check_outputs Hs Hb v S a b c d p rct = SOk l ->
  raw_try_parse valid_pk_b (extra p) = Ok fields -> tx_pubkey fields = Some main ->
  nth_error (outputs p) k = Some o ->
  (forall idx, in_ranges a b c d idx -> ~ matches Hs Hb v S (N.of_nat k) o main idx) ->
  (forall K idx, nth_error (adds_of fields) k = Some K -> in_ranges a b c d idx -> ~ matches Hs Hb v S (N.of_nat k) o K idx) ->
  forall w, In w l -> ow_pos w <> N.of_nat k.
Check C07_sender_key_recognised_partial : forall (E : EdOps) (LW : EdLaws E) (Hs : hs_fun) (Hb : bytes -> bytes) v Sp a b c d t maj min r i o,
  valid Sp -> checker_new Hs v (compress Sp) a b c d = Ok t -> in_ranges a b c d (maj, min) -> (i < 2 ^ 64)%N ->
  let dst := wallet_address Hs v Sp maj min in
  let snt := send Hs Hb r dst i in
  (o_target o = TKey (compress (sn_onetime snt)) \/
   o_target o = TTagged (compress (sn_onetime snt)) (b2n (sn_tag snt))) ->
  exists idx', check_key Hs Hb t v (compress Sp) i o (compress (sn_key snt)) = Ok (Some (idx', compress (sn_key snt))) /\
               In (compress (a_spend dst), idx') t.
Check C07_complete_partial : forall (E : EdOps) (LW : EdLaws E) (Hs : hs_fun) (Hb : bytes -> bytes) v Sp a b c d p rct l fields main k o maj min r,
  valid Sp ->
  prefix_check_outputs Hs Hb v (compress Sp) a b c d p rct = SOk l ->
  raw_try_parse valid_pk_b (extra p) = Ok fields -> tx_pubkey fields = Some main ->
  nth_error (outputs p) k = Some o -> (N.of_nat k < 2 ^ 64)%N ->
  in_ranges a b c d (maj, min) ->
  let dst := wallet_address Hs v Sp maj min in
  let snt := send Hs Hb r dst (N.of_nat k) in
  let K := compress (sn_key snt) in
  (o_target o = TKey (compress (sn_onetime snt)) \/ o_target o = TTagged (compress (sn_onetime snt)) (b2n (sn_tag snt))) ->
  (K = main \/ nth_error (adds_of fields) k = Some K) ->
  exists w t, In w l /\ ow_pos w = N.of_nat k /\ ow_out w = o /\ checker_new Hs v (compress Sp) a b c d = Ok t /\
    ((K = main \/ check_key Hs Hb t v (compress Sp) (N.of_nat k) o main = Ok None) ->
       ow_key w = K /\ get_spend_public_key Hs v (compress Sp) (ow_index w) = Ok (compress (a_spend dst)) /\
       ((forall idx2, in_ranges a b c d idx2 -> get_spend_public_key Hs v (compress Sp) idx2 = Ok (compress (a_spend dst)) ->
           idx2 = (maj, min)) -> ow_index w = (maj, min))).

Print Assumptions C07_three_entry_points_agree.
Print Assumptions C07_sound_partial.
Print Assumptions C07_main_key_preferred_partial.
Print Assumptions C07_positions_increasing.
Print Assumptions C07_not_reported_partial.
Print Assumptions C07_sender_key_recognised_partial.
Print Assumptions C07_complete_partial.

(* ==== end-to-end compositions (Proofs/ScanEndToEnd.v) ============================================================ *)
From MRS Require Import Proofs.ScanEndToEnd.

(* MATCHES -> REPORTED, for ARBITRARY outputs (the converse of C07_sound_partial).  If the scan succeeds with an ACCEPTED spend key S
   (PublicKey::from_slice accepts it) and the output at position k `matches` an in-range index idx under key K (the algebraic condition of
   C07_sound_partial / C07_not_reported_partial), where K is the first TxPublicKey, or the additional key at position k while the main
   key matches no in-range index, then position k IS reported, with key K and an in-range index whose spend key equals that of idx -
   idx itself under the explicit hypothesis that no other in-range index has the same spend key *)
Theorem C07_matches_reported_partial : forall (E : EdOps) (LW : EdLaws E) (Hs : hs_fun) (Hb : bytes -> bytes) v S a b c d p rct l fields main k o K idx,
  pk_from_slice S = Ok S ->
  prefix_check_outputs Hs Hb v S a b c d p rct = SOk l ->
  raw_try_parse valid_pk_b (extra p) = Ok fields -> tx_pubkey fields = Some main ->
  nth_error (outputs p) k = Some o ->
  in_ranges a b c d idx -> matches Hs Hb v S (N.of_nat k) o K idx ->
  (K = main \/
   (nth_error (adds_of fields) k = Some K /\
    forall idx2, in_ranges a b c d idx2 -> ~ matches Hs Hb v S (N.of_nat k) o main idx2)) ->
  exists w, In w l /\ ow_pos w = N.of_nat k /\ ow_out w = o /\ ow_key w = K /\ in_ranges a b c d (ow_index w) /\
    get_spend_public_key Hs v S (ow_index w) = get_spend_public_key Hs v S idx /\
    ((forall idx2, in_ranges a b c d idx2 -> get_spend_public_key Hs v S idx2 = get_spend_public_key Hs v S idx -> idx2 = idx) ->
       ow_index w = idx).
Proof. intros E LW Hs Hb. exact (matches_reported Hs Hb). Qed.

(* REPORTED <-> MATCHES, for every transaction and every position (C07_sound_partial one way, C07_matches_reported_partial the other):
   position k is reported iff the main key matches some in-range index or the additional key at position k does *)
Theorem C07_reported_iff_matches_partial : forall (E : EdOps) (LW : EdLaws E) (Hs : hs_fun) (Hb : bytes -> bytes) v S a b c d p rct l fields main k o,
  pk_from_slice S = Ok S ->
  prefix_check_outputs Hs Hb v S a b c d p rct = SOk l ->
  raw_try_parse valid_pk_b (extra p) = Ok fields -> tx_pubkey fields = Some main ->
  nth_error (outputs p) k = Some o ->
  ((exists w, In w l /\ ow_pos w = N.of_nat k) <->
   ((exists idx, in_ranges a b c d idx /\ matches Hs Hb v S (N.of_nat k) o main idx) \/
    (exists K idx, nth_error (adds_of fields) k = Some K /\ in_ranges a b c d idx /\ matches Hs Hb v S (N.of_nat k) o K idx))).
Proof. intros E LW Hs Hb. exact (reported_iff_matches Hs Hb). Qed.

(* the hypothesis `pk_from_slice S = Ok S` of the two theorems above cannot be dropped: in an instance of EdLaws with a lenient
   decoder (Proofs/ScanEndToEnd.v toy2: Z/l, every 32-byte string decodes), a wallet whose spend key is STORED as a non-canonical
   encoding (possible only through the public field of PublicKey) does not report an output that matches its primary address:
   the table is keyed by the stored bytes, the looked-up candidate P - Hs(rv||i)G is a canonical encoding *)
Theorem C07_matches_reported_unaccepted_spend_key_refuted : exists (E : EdOps) (LW : EdLaws E) (Hs : hs_fun) (Hb : bytes -> bytes) v S a b c d p rct fields main o idx,
    pk_from_slice S <> Ok S /\
    prefix_check_outputs Hs Hb v S a b c d p rct = SOk [] /\
    raw_try_parse valid_pk_b (extra p) = Ok fields /\ tx_pubkey fields = Some main /\
    nth_error (outputs p) 0 = Some o /\ in_ranges a b c d idx /\ matches Hs Hb v S 0%N o main idx.
Proof. exact matches_reported_unaccepted_spend_key_refuted. Qed.

(* non-vacuity: on the lenient toy instance the hypotheses of C07_matches_reported_partial hold for both outputs of a sender-built
   transaction (accepted spend key; subaddress (0,1) under the additional key at position 0, primary address under the main key at 1) *)
Example C07_ex_toy_matches :
  @pk_from_slice toy2_ops t2_Sb = Ok t2_Sb /\
  @matches toy2_ops toyHs toyHb t2_v t2_Sb 0%N t2_o0 t2_add0 (0%N, 1%N) /\
  @matches toy2_ops toyHs toyHb t2_v t2_Sb 1%N t2_o1 t2_main (0%N, 0%N).
Proof. exact t2_matches. Qed.
Example C07_ex_toy2_laws : EdLaws toy2_ops.
Proof. exact toy2_laws. Qed.

Check C07_matches_reported_partial : forall (E : EdOps) (LW : EdLaws E) (Hs : hs_fun) (Hb : bytes -> bytes) v S a b c d p rct l fields main k o K idx,
  pk_from_slice S = Ok S ->
  prefix_check_outputs Hs Hb v S a b c d p rct = SOk l ->
  raw_try_parse valid_pk_b (extra p) = Ok fields -> tx_pubkey fields = Some main ->
  nth_error (outputs p) k = Some o ->
  in_ranges a b c d idx -> matches Hs Hb v S (N.of_nat k) o K idx ->
  (K = main \/
   (nth_error (adds_of fields) k = Some K /\
    forall idx2, in_ranges a b c d idx2 -> ~ matches Hs Hb v S (N.of_nat k) o main idx2)) ->
  exists w, In w l /\ ow_pos w = N.of_nat k /\ ow_out w = o /\ ow_key w = K /\ in_ranges a b c d (ow_index w) /\
    get_spend_public_key Hs v S (ow_index w) = get_spend_public_key Hs v S idx /\
    ((forall idx2, in_ranges a b c d idx2 -> get_spend_public_key Hs v S idx2 = get_spend_public_key Hs v S idx -> idx2 = idx) ->
       ow_index w = idx).
Check C07_reported_iff_matches_partial : forall (E : EdOps) (LW : EdLaws E) (Hs : hs_fun) (Hb : bytes -> bytes) v S a b c d p rct l fields main k o,
  pk_from_slice S = Ok S ->
  prefix_check_outputs Hs Hb v S a b c d p rct = SOk l ->
  raw_try_parse valid_pk_b (extra p) = Ok fields -> tx_pubkey fields = Some main ->
  nth_error (outputs p) k = Some o ->
  ((exists w, In w l /\ ow_pos w = N.of_nat k) <->
   ((exists idx, in_ranges a b c d idx /\ matches Hs Hb v S (N.of_nat k) o main idx) \/
    (exists K idx, nth_error (adds_of fields) k = Some K /\ in_ranges a b c d idx /\ matches Hs Hb v S (N.of_nat k) o K idx))).
Check C07_matches_reported_unaccepted_spend_key_refuted : exists (E : EdOps) (LW : EdLaws E) (Hs : hs_fun) (Hb : bytes -> bytes) v S a b c d p rct fields main o idx,
    pk_from_slice S <> Ok S /\
    prefix_check_outputs Hs Hb v S a b c d p rct = SOk [] /\
    raw_try_parse valid_pk_b (extra p) = Ok fields /\ tx_pubkey fields = Some main /\
    nth_error (outputs p) 0 = Some o /\ in_ranges a b c d idx /\ matches Hs Hb v S 0%N o main idx.

Print Assumptions C07_matches_reported_partial.
Print Assumptions C07_reported_iff_matches_partial.
Print Assumptions C07_matches_reported_unaccepted_spend_key_refuted.

(* ==== added by the model-mutation audit (notes/MODEL_MUTANTS_B.md, Proofs/AuditC07.v) ============================= *)
From MRS Require Import Proofs.AuditC07.

(* the table of SubKeyChecker is a HashMap: when several inserted entries have the same key, `get` returns the LAST inserted one
   (insertion order of SubKeyChecker::new: row-major, major outer, minor inner).  The scan theorems above only say "an in-range index
   with that spend key"; this pins which one *)
Theorem C07_table_lookup_is_last_insert : forall (E : EdOps) (t : table) k i,
  lookup t k = Some i <-> exists pre post, t = pre ++ (k, i) :: post /\ forall j, ~ In (k, j) post.
Proof. intros E. exact lookup_last. Qed.

(* the public method SubKeyChecker::check(index, key, tx_pubkey) is the one-key check of the scan on an untagged output carrying `key` *)
Theorem C07_subkey_check_is_check_key : forall (E : EdOps) (Hs : hs_fun) (Hb : bytes -> bytes) t v S i am P K, pk_from_slice P = Ok P ->
  check_key Hs Hb t v S i (mk_txout am (TKey P)) K =
    bindr (checker_check Hs t v S i P K) (fun r => match r with Some idx => Ok (Some (idx, K)) | None => Ok None end).
Proof. intros E Hs Hb. exact (checker_check_check_key Hs Hb). Qed.

(* SubKeyChecker::check, SOUNDNESS: a returned index lies in the ranges and P = Hs(8vK || varint i)*G + S_idx *)
Theorem C07_subkey_check_sound_partial : forall (E : EdOps) (LW : EdLaws E) (Hs : hs_fun) v S a b c d t i P K idx,
  checker_new Hs v S a b c d = Ok t -> pk_from_slice P = Ok P ->
  checker_check Hs t v S i P K = Ok (Some idx) ->
  in_ranges a b c d idx /\
  exists g Sidx, from_key v S K = Ok g /\ get_spend_public_key Hs v S idx = Ok Sidx /\ one_time_key Hs (Sidx, snd g) i = Ok P.
Proof. intros E LW Hs. exact (checker_check_sound Hs). Qed.

(* SubKeyChecker::check, COMPLETENESS (accepted wallet spend key): if P is the one-time key of an in-range index under K at position i,
   an in-range index with the same spend key is returned *)
Theorem C07_subkey_check_complete_partial : forall (E : EdOps) (LW : EdLaws E) (Hs : hs_fun) v S a b c d t i P K idx g Sidx,
  pk_from_slice S = Ok S -> checker_new Hs v S a b c d = Ok t -> pk_from_slice P = Ok P ->
  in_ranges a b c d idx -> from_key v S K = Ok g -> get_spend_public_key Hs v S idx = Ok Sidx ->
  one_time_key Hs (Sidx, snd g) i = Ok P ->
  exists idx', checker_check Hs t v S i P K = Ok (Some idx') /\ in_ranges a b c d idx' /\
               get_spend_public_key Hs v S idx' = Ok Sidx.
Proof. intros E LW Hs. exact (checker_check_complete Hs). Qed.

(* the key-acceptance predicate that the scan hands to the extra-field parser (raw_try_parse valid_pk_b in every statement above) is
   exactly PublicKey::from_slice acceptance *)
Theorem C07_extra_key_acceptance : forall (E : EdOps) k, valid_pk_b k = true <-> pk_from_slice k = Ok k.
Proof. intros E. exact valid_pk_b_iff. Qed.

Check C07_extra_key_acceptance : forall (E : EdOps) k, valid_pk_b k = true <-> pk_from_slice k = Ok k.
Check C07_table_lookup_is_last_insert : forall (E : EdOps) (t : table) k i,
  lookup t k = Some i <-> exists pre post, t = pre ++ (k, i) :: post /\ forall j, ~ In (k, j) post.
Check C07_subkey_check_is_check_key : forall (E : EdOps) (Hs : hs_fun) (Hb : bytes -> bytes) t v S i am P K, pk_from_slice P = Ok P ->
  check_key Hs Hb t v S i (mk_txout am (TKey P)) K =
    bindr (checker_check Hs t v S i P K) (fun r => match r with Some idx => Ok (Some (idx, K)) | None => Ok None end).
Check C07_subkey_check_sound_partial : forall (E : EdOps) (LW : EdLaws E) (Hs : hs_fun) v S a b c d t i P K idx,
  checker_new Hs v S a b c d = Ok t -> pk_from_slice P = Ok P ->
  checker_check Hs t v S i P K = Ok (Some idx) ->
  in_ranges a b c d idx /\
  exists g Sidx, from_key v S K = Ok g /\ get_spend_public_key Hs v S idx = Ok Sidx /\ one_time_key Hs (Sidx, snd g) i = Ok P.
Check C07_subkey_check_complete_partial : forall (E : EdOps) (LW : EdLaws E) (Hs : hs_fun) v S a b c d t i P K idx g Sidx,
  pk_from_slice S = Ok S -> checker_new Hs v S a b c d = Ok t -> pk_from_slice P = Ok P ->
  in_ranges a b c d idx -> from_key v S K = Ok g -> get_spend_public_key Hs v S idx = Ok Sidx ->
  one_time_key Hs (Sidx, snd g) i = Ok P ->
  exists idx', checker_check Hs t v S i P K = Ok (Some idx') /\ in_ranges a b c d idx' /\
               get_spend_public_key Hs v S idx' = Ok Sidx.

Print Assumptions C07_extra_key_acceptance.
Print Assumptions C07_table_lookup_is_last_insert.
Print Assumptions C07_subkey_check_is_check_key.
Print Assumptions C07_subkey_check_sound_partial.
Print Assumptions C07_subkey_check_complete_partial.
