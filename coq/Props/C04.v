(* C04 — no input can panic, hang or exhaust memory in parsers or on parsed objects (LOGIC part; the runtime part is
   lib/props/c04.py).  Statements only (pinned by Check), `exact` proofs and assumption audits.
   Models: Model/Codec.v (every consensus decoder, for every size table), Model/TreeHash.v, Model/Extra.v, Model/Address.v,
   Model/Base58.v, Model/Amount.v, Model/Keys.v, Model/Network.v.   Proofs: Proofs/NoPanic.v, Proofs/Robust.v.
   `total d` (Proofs/NoPanic.v) unfolds to: forall s r, d s <> (Panic, r) /\ d s <> (Err EFuel, r). *)
From MRS Require Import Proofs.NoPanic Proofs.Robust Proofs.RobustText Proofs.AllocTotal.
From MRS Require Import Model.TreeHash Spec.TreeHash Spec.Leb128 Model.Keccak Model.Address Model.Base58 Model.Network Model.Keys Model.Amount Model.Extra Model.EdClass.
Open Scope N_scope.

(* ---- (a) no decoder of Model/Codec.v returns Panic, none returns Err EFuel (there is no fuel in the codec: rep is binary recursion on the count, read_n / dec_v1_sigs / the varint loop are structural); for all inputs, all size tables, all context parameters ---- *)
Theorem C04_no_panic_varint : forall s r, dec_varint s <> (Panic, r) /\ dec_varint s <> (Err EFuel, r).
Proof. exact (total_of dec_varint). Qed.

Theorem C04_no_panic_u8 : forall s r, dec_u8 s <> (Panic, r) /\ dec_u8 s <> (Err EFuel, r).
Proof. exact (total_of dec_u8). Qed.

Theorem C04_no_panic_u16 : forall s r, dec_u16 s <> (Panic, r) /\ dec_u16 s <> (Err EFuel, r).
Proof. exact (total_of dec_u16). Qed.

Theorem C04_no_panic_u32 : forall s r, dec_u32 s <> (Panic, r) /\ dec_u32 s <> (Err EFuel, r).
Proof. exact (total_of dec_u32). Qed.

Theorem C04_no_panic_u64 : forall s r, dec_u64 s <> (Panic, r) /\ dec_u64 s <> (Err EFuel, r).
Proof. exact (total_of dec_u64). Qed.

Theorem C04_no_panic_bool : forall s r, dec_bool s <> (Panic, r) /\ dec_bool s <> (Err EFuel, r).
Proof. exact (total_of dec_bool). Qed.

Theorem C04_no_panic_hash : forall s r, dec_hash s <> (Panic, r) /\ dec_hash s <> (Err EFuel, r).
Proof. exact (total_of dec_hash). Qed.

Theorem C04_no_panic_hash8 : forall s r, dec_hash8 s <> (Panic, r) /\ dec_hash8 s <> (Err EFuel, r).
Proof. exact (total_of dec_hash8). Qed.

Theorem C04_no_panic_key64 : forall s r, dec_key64 s <> (Panic, r) /\ dec_key64 s <> (Err EFuel, r).
Proof. exact (total_of dec_key64). Qed.

Theorem C04_no_panic_bytes_vec : forall s r, dec_bytes_vec s <> (Panic, r) /\ dec_bytes_vec s <> (Err EFuel, r).
Proof. exact (total_of dec_bytes_vec). Qed.

Theorem C04_no_panic_txin : forall s r, dec_txin s <> (Panic, r) /\ dec_txin s <> (Err EFuel, r).
Proof. exact (total_of dec_txin). Qed.

Theorem C04_no_panic_target : forall s r, dec_target s <> (Panic, r) /\ dec_target s <> (Err EFuel, r).
Proof. exact (total_of dec_target). Qed.

Theorem C04_no_panic_txout : forall s r, dec_txout s <> (Panic, r) /\ dec_txout s <> (Err EFuel, r).
Proof. exact (total_of dec_txout). Qed.

Theorem C04_no_panic_prefix : forall sz, forall s r, dec_prefix sz s <> (Panic, r) /\ dec_prefix sz s <> (Err EFuel, r).
Proof. intros sz. exact (total_of (dec_prefix sz)). Qed.

Theorem C04_no_panic_signature : forall s r, dec_signature s <> (Panic, r) /\ dec_signature s <> (Err EFuel, r).
Proof. exact (total_of dec_signature). Qed.

Theorem C04_no_panic_rct_type : forall s r, dec_rct_type s <> (Panic, r) /\ dec_rct_type s <> (Err EFuel, r).
Proof. exact (total_of dec_rct_type). Qed.

Theorem C04_no_panic_ecdh : forall t, forall s r, dec_ecdh t s <> (Panic, r) /\ dec_ecdh t s <> (Err EFuel, r).
Proof. intros t. exact (total_of (dec_ecdh t)). Qed.

Theorem C04_no_panic_borosig : forall s r, dec_borosig s <> (Panic, r) /\ dec_borosig s <> (Err EFuel, r).
Proof. exact (total_of dec_borosig). Qed.

Theorem C04_no_panic_rangesig : forall s r, dec_rangesig s <> (Panic, r) /\ dec_rangesig s <> (Err EFuel, r).
Proof. exact (total_of dec_rangesig). Qed.

Theorem C04_no_panic_bulletproof : forall s r, dec_bulletproof s <> (Panic, r) /\ dec_bulletproof s <> (Err EFuel, r).
Proof. exact (total_of dec_bulletproof). Qed.

Theorem C04_no_panic_bpplus : forall s r, dec_bpplus s <> (Panic, r) /\ dec_bpplus s <> (Err EFuel, r).
Proof. exact (total_of dec_bpplus). Qed.

Theorem C04_no_panic_clsag : forall mixin, forall s r, dec_clsag mixin s <> (Panic, r) /\ dec_clsag mixin s <> (Err EFuel, r).
Proof. intros mixin. exact (total_of (dec_clsag mixin)). Qed.

Theorem C04_no_panic_mgsig : forall mixin cols, forall s r, dec_mgsig mixin cols s <> (Panic, r) /\ dec_mgsig mixin cols s <> (Err EFuel, r).
Proof. intros mixin cols. exact (total_of (dec_mgsig mixin cols)). Qed.

Theorem C04_no_panic_rct_base : forall n_in n_out, forall s r, dec_rct_base n_in n_out s <> (Panic, r) /\ dec_rct_base n_in n_out s <> (Err EFuel, r).
Proof. intros n_in n_out. exact (total_of (dec_rct_base n_in n_out)). Qed.

Theorem C04_no_panic_rct_prunable : forall sz t n_in n_out mixin, forall s r, dec_rct_prunable sz t n_in n_out mixin s <> (Panic, r) /\ dec_rct_prunable sz t n_in n_out mixin s <> (Err EFuel, r).
Proof. intros sz t n_in n_out mixin. exact (total_of (dec_rct_prunable sz t n_in n_out mixin)). Qed.

Theorem C04_no_panic_v1_sigs : forall ins, forall s r, dec_v1_sigs ins s <> (Panic, r) /\ dec_v1_sigs ins s <> (Err EFuel, r).
Proof. intros ins. exact (total_of (dec_v1_sigs ins)). Qed.

Theorem C04_no_panic_tx : forall sz, forall s r, dec_tx sz s <> (Panic, r) /\ dec_tx sz s <> (Err EFuel, r).
Proof. intros sz. exact (total_of (dec_tx sz)). Qed.

Theorem C04_no_panic_header : forall s r, dec_header s <> (Panic, r) /\ dec_header s <> (Err EFuel, r).
Proof. exact (total_of dec_header). Qed.

Theorem C04_no_panic_block : forall sz, forall s r, dec_block sz s <> (Panic, r) /\ dec_block sz s <> (Err EFuel, r).
Proof. intros sz. exact (total_of (dec_block sz)). Qed.

Theorem C04_no_panic_rep : forall A (d : dec A) n, (forall s r, d s <> (Panic, r) /\ d s <> (Err EFuel, r)) -> forall s r, rep n d s <> (Panic, r) /\ rep n d s <> (Err EFuel, r).
Proof. intros A d n. exact (rep_total d n). Qed.

Theorem C04_no_panic_vec : forall A (d : dec A) size, (forall s r, d s <> (Panic, r) /\ d s <> (Err EFuel, r)) -> forall s r, dec_vec size d s <> (Panic, r) /\ dec_vec size d s <> (Err EFuel, r).
Proof. intros A d size. exact (vec_total d size). Qed.

Theorem C04_no_panic_sized : forall A (d : dec A) size n, (forall s r, d s <> (Panic, r) /\ d s <> (Err EFuel, r)) -> forall s r, dec_sized size n d s <> (Panic, r) /\ dec_sized size n d s <> (Err EFuel, r).
Proof. intros A d size n. exact (sized_total d size n). Qed.

Theorem C04_no_panic_deserialize_tx : forall sz s, (deserialize (dec_tx sz) s <> Panic /\ deserialize (dec_tx sz) s <> Err EFuel) /\ (deserialize_partial (dec_tx sz) s <> Panic /\ deserialize_partial (dec_tx sz) s <> Err EFuel).
Proof. intros sz s. split; [exact (deserialize_clean (dec_tx sz) s)|exact (deserialize_partial_clean (dec_tx sz) s)]. Qed.

Theorem C04_no_panic_deserialize_block : forall sz s, (deserialize (dec_block sz) s <> Panic /\ deserialize (dec_block sz) s <> Err EFuel) /\ (deserialize_partial (dec_block sz) s <> Panic /\ deserialize_partial (dec_block sz) s <> Err EFuel).
Proof. intros sz s. split; [exact (deserialize_clean (dec_block sz) s)|exact (deserialize_partial_clean (dec_block sz) s)]. Qed.

(* ---- (b) termination / linear work: a loop whose element decoder consumes >= k bytes per success has completed at most |consumed| / k iterations, however large the declared count; `calls n d s` = number of times the loop `for _ in 0..n { d()? }` calls d (success or failure) ---- *)
Theorem C04_rep_consumes : forall A (d : dec A) k, (forall s a r, d s = (Ok a, r) -> (length r + k <= length s)%nat) -> forall n s l r, rep n d s = (Ok l, r) -> (length r + k * N.to_nat n <= length s)%nat.
Proof. intros A d k. exact (rep_consumes d k). Qed.

Theorem C04_rep_bounded : forall A (d : dec A), (forall s a r, d s = (Ok a, r) -> (length r + 1 <= length s)%nat) -> forall n s l r, rep n d s = (Ok l, r) -> n <= lenN s.
Proof. intros A d. exact (rep_bounded d). Qed.

Theorem C04_loop_iterations : forall A (d : dec A), (forall s a r, d s = (Ok a, r) -> (length r + 1 <= length s)%nat) -> forall n s, (calls n d s <= S (length s))%nat /\ (calls n d s <= n)%nat.
Proof. intros A d Hc n s. split; [exact (calls_bounded d Hc n s)|exact (calls_le_n d n s)]. Qed.

Theorem C04_rep_is_the_loop : forall A (d : dec A) n s, rep n d s = repn (N.to_nat n) d s /\ (forall l r, rep n d s = (Ok l, r) -> calls (N.to_nat n) d s = N.to_nat n).
Proof. intros A d n s. split; [exact (rep_repn d n s)|intros l r H; rewrite rep_repn in H; exact (calls_repn d _ _ _ _ H)]. Qed.

Theorem C04_elements_consume : (forall s a r, dec_varint s = (Ok a, r) -> (length r + 1 <= length s)%nat) /\ (forall s a r, dec_hash s = (Ok a, r) -> (length r + 32 <= length s)%nat) /\ (forall s a r, dec_txin s = (Ok a, r) -> (length r + 2 <= length s)%nat) /\ (forall s a r, dec_txout s = (Ok a, r) -> (length r + 34 <= length s)%nat) /\ (forall s a r, dec_signature s = (Ok a, r) -> (length r + 64 <= length s)%nat) /\ (forall t s a r, dec_ecdh t s = (Ok a, r) -> (length r + 8 <= length s)%nat) /\ (forall mixin s a r, dec_clsag mixin s = (Ok a, r) -> (length r + (32 * N.to_nat (mixin + 1) + 64) <= length s)%nat) /\ (forall mixin cols, 1 <= cols -> forall s a r, dec_mgsig mixin cols s = (Ok a, r) -> (length r + (32 * N.to_nat (mixin + 1) + 32) <= length s)%nat).
Proof. split; [exact consumes_varint|]. split; [exact consumes_hash|]. split; [exact consumes_txin|]. split; [exact consumes_txout|]. split; [exact consumes_signature|]. split; [exact consumes_ecdh|]. split; [exact consumes_clsag|exact consumes_mgsig]. Qed.

Theorem C04_vec_txin_bounded : forall size s l r, dec_vec size dec_txin s = (Ok l, r) -> (length r + 1 + 2 * length l <= length s)%nat.
Proof. intros size. exact (vec_consumes dec_txin 2 size consumes_txin). Qed.

Theorem C04_vec_txout_bounded : forall size s l r, dec_vec size dec_txout s = (Ok l, r) -> (length r + 1 + 34 * length l <= length s)%nat.
Proof. intros size. exact (vec_consumes dec_txout 34 size consumes_txout). Qed.

Theorem C04_vec_varint_bounded : forall size s l r, dec_vec size dec_varint s = (Ok l, r) -> (length r + 1 + 1 * length l <= length s)%nat.
Proof. intros size. exact (vec_consumes dec_varint 1 size consumes_varint). Qed.

Theorem C04_vec_hash_bounded : forall size s l r, dec_vec size dec_hash s = (Ok l, r) -> (length r + 1 + 32 * length l <= length s)%nat.
Proof. intros size. exact (vec_consumes dec_hash 32 size consumes_hash). Qed.

Theorem C04_vec_bulletproof_bounded : forall size s l r, dec_vec size dec_bulletproof s = (Ok l, r) -> (length r + 1 + 290 * length l <= length s)%nat.
Proof. intros size. exact (vec_consumes dec_bulletproof 290 size consumes_bulletproof). Qed.

Theorem C04_vec_bpplus_bounded : forall size s l r, dec_vec size dec_bpplus s = (Ok l, r) -> (length r + 1 + 194 * length l <= length s)%nat.
Proof. intros size. exact (vec_consumes dec_bpplus 194 size consumes_bpplus). Qed.

Theorem C04_rangesigs_bounded : forall size n s l r, dec_sized size n dec_rangesig s = (Ok l, r) -> (length r + (4128 + 2048) * N.to_nat n <= length s)%nat.
Proof. intros size n. exact (sized_consumes dec_rangesig (4128 + 2048) size n consumes_rangesig). Qed.

Theorem C04_header_consumes : forall s a r, dec_header s = (Ok a, r) -> (length r + 39 <= length s)%nat.
Proof. exact consumes_header. Qed.

Theorem C04_bytes_vec_bounded : forall s l r, dec_bytes_vec s = (Ok l, r) -> (length r + 1 + 1 * length l <= length s)%nat.
Proof. exact (vec_consumes read_u8 1 1 consumes_read_u8). Qed.

Theorem C04_sized_bounded : forall A (d : dec A) k size n, (forall s a r, d s = (Ok a, r) -> (length r + k <= length s)%nat) -> forall s l r, dec_sized size n d s = (Ok l, r) -> (length r + k * N.to_nat n <= length s)%nat.
Proof. intros A d k size n Hc. exact (sized_consumes d k size n Hc). Qed.

Theorem C04_cap_bounds_count : forall size n, over_cap size n = false -> size * n <= 32 * 1024 * 1024.
Proof. exact cap_bounds_len. Qed.

Theorem C04_zero_column_rows_consume_nothing : forall mixin s, exists l, rep (mixin + 1) (dec_sized 32 0 dec_hash) s = (Ok l, s).
Proof. exact mg_zero_cols_consumes_nothing. Qed.

(* ---- (c) allocation: Vec::with_capacity(len) is requested only after the cap test; every request is <= 32 MiB; a request that is kept (the vector decode succeeded) is paid for by the bytes read ---- *)
Theorem C04_alloc_each : forall size len q, alloc_request size len = Some q -> q <= 32 * 1024 * 1024.
Proof. exact alloc_each. Qed.

Theorem C04_alloc_each_vec : forall A size (d : dec A) s q, vec_request size d s = Some q -> q <= 32 * 1024 * 1024.
Proof. intros A. exact vec_request_each. Qed.

Theorem C04_alloc_kept_linear : forall A (d : dec A) k size, (forall s a r, d s = (Ok a, r) -> (length r + k <= length s)%nat) -> forall s l r, dec_vec size d s = (Ok l, r) -> vec_request size d s = Some (size * lenN l) /\ N.of_nat k * (size * lenN l) <= size * (lenN s - lenN r).
Proof. intros A d k size. exact (alloc_kept_linear d k size). Qed.

Theorem C04_alloc_kept_txin : forall sz s l r, dec_vec (sz_txin sz) dec_txin s = (Ok l, r) -> 2 * (sz_txin sz * lenN l) <= sz_txin sz * (lenN s - lenN r).
Proof. intros sz s l r H. exact (proj2 (alloc_kept_linear dec_txin 2 (sz_txin sz) consumes_txin s l r H)). Qed.

Theorem C04_alloc_kept_txout : forall sz s l r, dec_vec (sz_txout sz) dec_txout s = (Ok l, r) -> 34 * (sz_txout sz * lenN l) <= sz_txout sz * (lenN s - lenN r).
Proof. intros sz s l r H. exact (proj2 (alloc_kept_linear dec_txout 34 (sz_txout sz) consumes_txout s l r H)). Qed.

Theorem C04_alloc_kept_bulletproof : forall sz s l r, dec_vec (sz_bulletproof sz) dec_bulletproof s = (Ok l, r) -> 290 * (sz_bulletproof sz * lenN l) <= sz_bulletproof sz * (lenN s - lenN r).
Proof. intros sz s l r H. exact (proj2 (alloc_kept_linear dec_bulletproof 290 (sz_bulletproof sz) consumes_bulletproof s l r H)). Qed.

Theorem C04_alloc_kept_bpplus : forall sz s l r, dec_vec (sz_bpplus sz) dec_bpplus s = (Ok l, r) -> 194 * (sz_bpplus sz * lenN l) <= sz_bpplus sz * (lenN s - lenN r).
Proof. intros sz s l r H. exact (proj2 (alloc_kept_linear dec_bpplus 194 (sz_bpplus sz) consumes_bpplus s l r H)). Qed.

Theorem C04_alloc_kept_varint_hash : (forall s l r, dec_vec 8 dec_varint s = (Ok l, r) -> 1 * (8 * lenN l) <= 8 * (lenN s - lenN r)) /\ (forall s l r, dec_vec 32 dec_hash s = (Ok l, r) -> 32 * (32 * lenN l) <= 32 * (lenN s - lenN r)) /\ (forall s l r, dec_bytes_vec s = (Ok l, r) -> 1 * (1 * lenN l) <= 1 * (lenN s - lenN r)).
Proof. split; [intros s l r H; exact (proj2 (alloc_kept_linear dec_varint 1 8 consumes_varint s l r H))|]. split; [intros s l r H; exact (proj2 (alloc_kept_linear dec_hash 32 32 consumes_hash s l r H))|intros s l r H; exact (proj2 (alloc_kept_linear read_u8 1 1 consumes_read_u8 s l r H))]. Qed.

(* ---- (d) operations on parsed objects ---- *)
Theorem C04_block_hashes_bounded : forall sz s b r, dec_block sz s = (Ok b, r) -> lenN (tx_hashes b) <= 2 ^ 20.
Proof. exact block_hashes_bounded. Qed.

Theorem C04_block_tree_assert_unreachable : forall sz s b r, dec_block sz s = (Ok b, r) -> lenN (tx_hashes b) + 1 <= 2 ^ 28.
Proof. exact block_count_below_assert. Qed.

Theorem C04_block_root_total : forall (H : bytes -> bytes) sz s b r mh, dec_block sz s = (Ok b, r) -> tx_root H mh (tx_hashes b) = Ok (root_spec H (mh :: tx_hashes b)).
Proof. exact block_root_total. Qed.

Theorem C04_block_blob_total : forall (H : bytes -> bytes) sz s b r hdr mh, dec_block sz s = (Ok b, r) -> hashable_blob H hdr mh (tx_hashes b) = Ok (blob_spec H leb128 hdr (mh :: tx_hashes b)).
Proof. exact block_blob_total. Qed.

Theorem C04_block_id_total : forall sz s b r mh, dec_block sz s = (Ok b, r) -> length mh = 32%nat -> lenN s < 2 ^ 32 -> block_id keccak256 (enc_header (blk_header b)) mh (tx_hashes b) = Ok (id_spec keccak256 leb128 correct_block_id_202612 existing_block_id_202612 (enc_header (blk_header b)) (mh :: tx_hashes b)).
Proof. exact block_id_total. Qed.

Theorem C04_ring_guard : forall sz s t r a ki rest, dec_tx sz s = (Ok t, r) -> inputs (tx_prefix t) = ToKey a [] ki :: rest -> version (tx_prefix t) <> 1 -> rct_p (tx_rct t) = None.
Proof. exact tx_ring_guard. Qed.

Theorem C04_text_parsers_total : forall (H : bytes -> bytes) (valid_pk : bytes -> bool) (E : EdOps), (forall m, length (H m) = 32%nat) -> (forall k, valid_pk k = true -> length k = 32%nat) -> ((forall b, addr_from_bytes H valid_pk b <> Panic) /\ (forall s, addr_from_str H valid_pk s <> Panic) /\ (forall s, addr_from_hex H valid_pk s <> Panic) /\ (forall b, addr_deserialize H valid_pk b <> Panic) /\ (forall s, b58_decode s <> Panic) /\ (forall b, exists s, b58_encode b = Ok s)) /\ ((forall bs n, atype_from_slice bs n <> Panic) /\ (forall b r, dec_varint b <> (Panic, r))) /\ ((forall k, sk_from_slice k <> Panic) /\ (forall t, sk_from_str t <> Panic) /\ (forall b r, dec_sk b <> (Panic, r)) /\ (forall k, pk_from_slice k <> Panic) /\ (forall t, pk_from_str t <> Panic) /\ (forall b r, dec_pk b <> (Panic, r))) /\ ((forall d s, amount_from_str_in s d <> APanic /\ signed_from_str_in s d <> APanic) /\ (forall s, amount_from_str s <> APanic /\ signed_from_str s <> APanic)) /\ ((forall e, exists ok fs, try_parse valid_pk e = Ok (ok, fs)) /\ (forall s r, dec_subfield valid_pk s <> (Panic, r))).
Proof. exact text_parsers_total. Qed.

(* ---- non-vacuity ---- *)
(* a declared length of 2^35 - 1 elements: refused by the cap before anything is allocated; 2^19 elements of 64 bytes are
   the largest request ever made for Vec<TxIn>; the loop stops at the first failing element *)
Example C04_ex_cap : dec_vec 64 dec_txin [xff; xff; xff; xff; x7f] = (Err EBad, []) /\
  alloc_request 64 (2 ^ 19) = Some (32 * 1024 * 1024) /\ alloc_request 64 (2 ^ 19 + 1) = None /\
  vec_request 64 dec_txin [x80; x80; x20; xff] = Some (32 * 1024 * 1024) /\
  fst (dec_vec 64 dec_txin [x80; x80; x20; xff]) = Err EEof.
Proof. repeat split; vm_compute; reflexivity. Qed.
Example C04_ex_calls : calls 1000 dec_u8 [x01; x02] = 3%nat /\ calls 2 dec_u8 [x01; x02; x03] = 2%nat /\
  rep 2 dec_u8 [x01; x02; x03] = (Ok [1; 2], [x03]) /\ fst (rep (2 ^ 64 - 1) dec_u8 [x01; x02]) = Err EEof.
Proof. repeat split; vm_compute; reflexivity. Qed.
(* the empty-ring transaction of C04_ring_guard exists only with RingCT type Null; with any other type it is a parse error *)
Example C04_ex_ring : fst (dec_tx default_sizes ([x02; x00; x01; x02; x00; x00] ++ repeat x00 32 ++ [x00; x00; x05; x00])%list) = Err EBad /\
  (exists t, fst (dec_tx default_sizes ([x02; x00; x01; x02; x00; x00] ++ repeat x00 32 ++ [x00; x00; x00])%list) = Ok t).
Proof. split; [vm_compute; reflexivity|eexists; vm_compute; reflexivity]. Qed.

(* ---- pinned statements ---- *)
(* TOTAL of the kept pre-allocations.  kept_tx / kept_block (Proofs/AllocTotal.v) sum size_of T * len over EVERY
   Vec::with_capacity site the decoder passed for the parsed value (inputs, key offsets, outputs, extra, pseudo-outs, out_pk,
   range proofs with their L/R vectors, MLSAG rows, block hashes).  For every size table within the ratio 32 of the minimal wire
   sizes (the real one is: TxIn 64 bytes per >= 2 wire bytes is the worst case) a successful parse keeps at most
   32 bytes of pre-allocation per byte consumed.  (In-flight allocations of a FAILING parse are bounded one by one by
   C04_alloc_each; their number is the nesting depth of the decoders - argued in notes/C04.md and observed, not proved.) *)
Theorem C04_alloc_kept_total : forall sz,
  sz_txin sz <= 64 /\ sz_txout sz <= 32 * 34 /\ sz_bulletproof sz <= 32 * 290 /\ sz_bpplus sz <= 32 * 194 /\ sz_rangesig sz <= 32 * 6176 ->
  (forall s t r, dec_tx sz s = (Ok t, r) -> kept_tx sz t <= 32 * (lenN s - lenN r)) /\
  (forall s b r, dec_block sz s = (Ok b, r) -> kept_block sz b <= 32 * (lenN s - lenN r)).
Proof. intros sz H. split; [exact (kept_tx_total sz H)|exact (kept_block_total sz H)]. Qed.

Example C04_alloc_default_sizes_within_ratio :
  sz_txin default_sizes <= 64 /\ sz_txout default_sizes <= 32 * 34 /\ sz_bulletproof default_sizes <= 32 * 290 /\
  sz_bpplus default_sizes <= 32 * 194 /\ sz_rangesig default_sizes <= 32 * 6176.
Proof. vm_compute. repeat split; discriminate. Qed.

Check C04_alloc_kept_total : forall sz,
  sz_txin sz <= 64 /\ sz_txout sz <= 32 * 34 /\ sz_bulletproof sz <= 32 * 290 /\ sz_bpplus sz <= 32 * 194 /\ sz_rangesig sz <= 32 * 6176 ->
  (forall s t r, dec_tx sz s = (Ok t, r) -> kept_tx sz t <= 32 * (lenN s - lenN r)) /\
  (forall s b r, dec_block sz s = (Ok b, r) -> kept_block sz b <= 32 * (lenN s - lenN r)).
Print Assumptions C04_alloc_kept_total.

Check C04_no_panic_varint : forall s r, dec_varint s <> (Panic, r) /\ dec_varint s <> (Err EFuel, r).
Check C04_no_panic_u8 : forall s r, dec_u8 s <> (Panic, r) /\ dec_u8 s <> (Err EFuel, r).
Check C04_no_panic_u16 : forall s r, dec_u16 s <> (Panic, r) /\ dec_u16 s <> (Err EFuel, r).
Check C04_no_panic_u32 : forall s r, dec_u32 s <> (Panic, r) /\ dec_u32 s <> (Err EFuel, r).
Check C04_no_panic_u64 : forall s r, dec_u64 s <> (Panic, r) /\ dec_u64 s <> (Err EFuel, r).
Check C04_no_panic_bool : forall s r, dec_bool s <> (Panic, r) /\ dec_bool s <> (Err EFuel, r).
Check C04_no_panic_hash : forall s r, dec_hash s <> (Panic, r) /\ dec_hash s <> (Err EFuel, r).
Check C04_no_panic_hash8 : forall s r, dec_hash8 s <> (Panic, r) /\ dec_hash8 s <> (Err EFuel, r).
Check C04_no_panic_key64 : forall s r, dec_key64 s <> (Panic, r) /\ dec_key64 s <> (Err EFuel, r).
Check C04_no_panic_bytes_vec : forall s r, dec_bytes_vec s <> (Panic, r) /\ dec_bytes_vec s <> (Err EFuel, r).
Check C04_no_panic_txin : forall s r, dec_txin s <> (Panic, r) /\ dec_txin s <> (Err EFuel, r).
Check C04_no_panic_target : forall s r, dec_target s <> (Panic, r) /\ dec_target s <> (Err EFuel, r).
Check C04_no_panic_txout : forall s r, dec_txout s <> (Panic, r) /\ dec_txout s <> (Err EFuel, r).
Check C04_no_panic_prefix : forall sz, forall s r, dec_prefix sz s <> (Panic, r) /\ dec_prefix sz s <> (Err EFuel, r).
Check C04_no_panic_signature : forall s r, dec_signature s <> (Panic, r) /\ dec_signature s <> (Err EFuel, r).
Check C04_no_panic_rct_type : forall s r, dec_rct_type s <> (Panic, r) /\ dec_rct_type s <> (Err EFuel, r).
Check C04_no_panic_ecdh : forall t, forall s r, dec_ecdh t s <> (Panic, r) /\ dec_ecdh t s <> (Err EFuel, r).
Check C04_no_panic_borosig : forall s r, dec_borosig s <> (Panic, r) /\ dec_borosig s <> (Err EFuel, r).
Check C04_no_panic_rangesig : forall s r, dec_rangesig s <> (Panic, r) /\ dec_rangesig s <> (Err EFuel, r).
Check C04_no_panic_bulletproof : forall s r, dec_bulletproof s <> (Panic, r) /\ dec_bulletproof s <> (Err EFuel, r).
Check C04_no_panic_bpplus : forall s r, dec_bpplus s <> (Panic, r) /\ dec_bpplus s <> (Err EFuel, r).
Check C04_no_panic_clsag : forall mixin, forall s r, dec_clsag mixin s <> (Panic, r) /\ dec_clsag mixin s <> (Err EFuel, r).
Check C04_no_panic_mgsig : forall mixin cols, forall s r, dec_mgsig mixin cols s <> (Panic, r) /\ dec_mgsig mixin cols s <> (Err EFuel, r).
Check C04_no_panic_rct_base : forall n_in n_out, forall s r, dec_rct_base n_in n_out s <> (Panic, r) /\ dec_rct_base n_in n_out s <> (Err EFuel, r).
Check C04_no_panic_rct_prunable : forall sz t n_in n_out mixin, forall s r, dec_rct_prunable sz t n_in n_out mixin s <> (Panic, r) /\ dec_rct_prunable sz t n_in n_out mixin s <> (Err EFuel, r).
Check C04_no_panic_v1_sigs : forall ins, forall s r, dec_v1_sigs ins s <> (Panic, r) /\ dec_v1_sigs ins s <> (Err EFuel, r).
Check C04_no_panic_tx : forall sz, forall s r, dec_tx sz s <> (Panic, r) /\ dec_tx sz s <> (Err EFuel, r).
Check C04_no_panic_header : forall s r, dec_header s <> (Panic, r) /\ dec_header s <> (Err EFuel, r).
Check C04_no_panic_block : forall sz, forall s r, dec_block sz s <> (Panic, r) /\ dec_block sz s <> (Err EFuel, r).
Check C04_no_panic_rep : forall A (d : dec A) n, (forall s r, d s <> (Panic, r) /\ d s <> (Err EFuel, r)) -> forall s r, rep n d s <> (Panic, r) /\ rep n d s <> (Err EFuel, r).
Check C04_no_panic_vec : forall A (d : dec A) size, (forall s r, d s <> (Panic, r) /\ d s <> (Err EFuel, r)) -> forall s r, dec_vec size d s <> (Panic, r) /\ dec_vec size d s <> (Err EFuel, r).
Check C04_no_panic_sized : forall A (d : dec A) size n, (forall s r, d s <> (Panic, r) /\ d s <> (Err EFuel, r)) -> forall s r, dec_sized size n d s <> (Panic, r) /\ dec_sized size n d s <> (Err EFuel, r).
Check C04_no_panic_deserialize_tx : forall sz s, (deserialize (dec_tx sz) s <> Panic /\ deserialize (dec_tx sz) s <> Err EFuel) /\ (deserialize_partial (dec_tx sz) s <> Panic /\ deserialize_partial (dec_tx sz) s <> Err EFuel).
Check C04_no_panic_deserialize_block : forall sz s, (deserialize (dec_block sz) s <> Panic /\ deserialize (dec_block sz) s <> Err EFuel) /\ (deserialize_partial (dec_block sz) s <> Panic /\ deserialize_partial (dec_block sz) s <> Err EFuel).
Check C04_rep_consumes : forall A (d : dec A) k, (forall s a r, d s = (Ok a, r) -> (length r + k <= length s)%nat) -> forall n s l r, rep n d s = (Ok l, r) -> (length r + k * N.to_nat n <= length s)%nat.
Check C04_rep_bounded : forall A (d : dec A), (forall s a r, d s = (Ok a, r) -> (length r + 1 <= length s)%nat) -> forall n s l r, rep n d s = (Ok l, r) -> n <= lenN s.
Check C04_loop_iterations : forall A (d : dec A), (forall s a r, d s = (Ok a, r) -> (length r + 1 <= length s)%nat) -> forall n s, (calls n d s <= S (length s))%nat /\ (calls n d s <= n)%nat.
Check C04_rep_is_the_loop : forall A (d : dec A) n s, rep n d s = repn (N.to_nat n) d s /\ (forall l r, rep n d s = (Ok l, r) -> calls (N.to_nat n) d s = N.to_nat n).
Check C04_elements_consume : (forall s a r, dec_varint s = (Ok a, r) -> (length r + 1 <= length s)%nat) /\ (forall s a r, dec_hash s = (Ok a, r) -> (length r + 32 <= length s)%nat) /\ (forall s a r, dec_txin s = (Ok a, r) -> (length r + 2 <= length s)%nat) /\ (forall s a r, dec_txout s = (Ok a, r) -> (length r + 34 <= length s)%nat) /\ (forall s a r, dec_signature s = (Ok a, r) -> (length r + 64 <= length s)%nat) /\ (forall t s a r, dec_ecdh t s = (Ok a, r) -> (length r + 8 <= length s)%nat) /\ (forall mixin s a r, dec_clsag mixin s = (Ok a, r) -> (length r + (32 * N.to_nat (mixin + 1) + 64) <= length s)%nat) /\ (forall mixin cols, 1 <= cols -> forall s a r, dec_mgsig mixin cols s = (Ok a, r) -> (length r + (32 * N.to_nat (mixin + 1) + 32) <= length s)%nat).
Check C04_vec_txin_bounded : forall size s l r, dec_vec size dec_txin s = (Ok l, r) -> (length r + 1 + 2 * length l <= length s)%nat.
Check C04_vec_txout_bounded : forall size s l r, dec_vec size dec_txout s = (Ok l, r) -> (length r + 1 + 34 * length l <= length s)%nat.
Check C04_vec_varint_bounded : forall size s l r, dec_vec size dec_varint s = (Ok l, r) -> (length r + 1 + 1 * length l <= length s)%nat.
Check C04_vec_hash_bounded : forall size s l r, dec_vec size dec_hash s = (Ok l, r) -> (length r + 1 + 32 * length l <= length s)%nat.
Check C04_vec_bulletproof_bounded : forall size s l r, dec_vec size dec_bulletproof s = (Ok l, r) -> (length r + 1 + 290 * length l <= length s)%nat.
Check C04_vec_bpplus_bounded : forall size s l r, dec_vec size dec_bpplus s = (Ok l, r) -> (length r + 1 + 194 * length l <= length s)%nat.
Check C04_rangesigs_bounded : forall size n s l r, dec_sized size n dec_rangesig s = (Ok l, r) -> (length r + (4128 + 2048) * N.to_nat n <= length s)%nat.
Check C04_header_consumes : forall s a r, dec_header s = (Ok a, r) -> (length r + 39 <= length s)%nat.
Check C04_bytes_vec_bounded : forall s l r, dec_bytes_vec s = (Ok l, r) -> (length r + 1 + 1 * length l <= length s)%nat.
Check C04_sized_bounded : forall A (d : dec A) k size n, (forall s a r, d s = (Ok a, r) -> (length r + k <= length s)%nat) -> forall s l r, dec_sized size n d s = (Ok l, r) -> (length r + k * N.to_nat n <= length s)%nat.
Check C04_cap_bounds_count : forall size n, over_cap size n = false -> size * n <= 32 * 1024 * 1024.
Check C04_zero_column_rows_consume_nothing : forall mixin s, exists l, rep (mixin + 1) (dec_sized 32 0 dec_hash) s = (Ok l, s).
Check C04_alloc_each : forall size len q, alloc_request size len = Some q -> q <= 32 * 1024 * 1024.
Check C04_alloc_each_vec : forall A size (d : dec A) s q, vec_request size d s = Some q -> q <= 32 * 1024 * 1024.
Check C04_alloc_kept_linear : forall A (d : dec A) k size, (forall s a r, d s = (Ok a, r) -> (length r + k <= length s)%nat) -> forall s l r, dec_vec size d s = (Ok l, r) -> vec_request size d s = Some (size * lenN l) /\ N.of_nat k * (size * lenN l) <= size * (lenN s - lenN r).
Check C04_alloc_kept_txin : forall sz s l r, dec_vec (sz_txin sz) dec_txin s = (Ok l, r) -> 2 * (sz_txin sz * lenN l) <= sz_txin sz * (lenN s - lenN r).
Check C04_alloc_kept_txout : forall sz s l r, dec_vec (sz_txout sz) dec_txout s = (Ok l, r) -> 34 * (sz_txout sz * lenN l) <= sz_txout sz * (lenN s - lenN r).
Check C04_alloc_kept_bulletproof : forall sz s l r, dec_vec (sz_bulletproof sz) dec_bulletproof s = (Ok l, r) -> 290 * (sz_bulletproof sz * lenN l) <= sz_bulletproof sz * (lenN s - lenN r).
Check C04_alloc_kept_bpplus : forall sz s l r, dec_vec (sz_bpplus sz) dec_bpplus s = (Ok l, r) -> 194 * (sz_bpplus sz * lenN l) <= sz_bpplus sz * (lenN s - lenN r).
Check C04_alloc_kept_varint_hash : (forall s l r, dec_vec 8 dec_varint s = (Ok l, r) -> 1 * (8 * lenN l) <= 8 * (lenN s - lenN r)) /\ (forall s l r, dec_vec 32 dec_hash s = (Ok l, r) -> 32 * (32 * lenN l) <= 32 * (lenN s - lenN r)) /\ (forall s l r, dec_bytes_vec s = (Ok l, r) -> 1 * (1 * lenN l) <= 1 * (lenN s - lenN r)).
Check C04_block_hashes_bounded : forall sz s b r, dec_block sz s = (Ok b, r) -> lenN (tx_hashes b) <= 2 ^ 20.
Check C04_block_tree_assert_unreachable : forall sz s b r, dec_block sz s = (Ok b, r) -> lenN (tx_hashes b) + 1 <= 2 ^ 28.
Check C04_block_root_total : forall (H : bytes -> bytes) sz s b r mh, dec_block sz s = (Ok b, r) -> tx_root H mh (tx_hashes b) = Ok (root_spec H (mh :: tx_hashes b)).
Check C04_block_blob_total : forall (H : bytes -> bytes) sz s b r hdr mh, dec_block sz s = (Ok b, r) -> hashable_blob H hdr mh (tx_hashes b) = Ok (blob_spec H leb128 hdr (mh :: tx_hashes b)).
Check C04_block_id_total : forall sz s b r mh, dec_block sz s = (Ok b, r) -> length mh = 32%nat -> lenN s < 2 ^ 32 -> block_id keccak256 (enc_header (blk_header b)) mh (tx_hashes b) = Ok (id_spec keccak256 leb128 correct_block_id_202612 existing_block_id_202612 (enc_header (blk_header b)) (mh :: tx_hashes b)).
Check C04_ring_guard : forall sz s t r a ki rest, dec_tx sz s = (Ok t, r) -> inputs (tx_prefix t) = ToKey a [] ki :: rest -> version (tx_prefix t) <> 1 -> rct_p (tx_rct t) = None.
Check C04_text_parsers_total : forall (H : bytes -> bytes) (valid_pk : bytes -> bool) (E : EdOps), (forall m, length (H m) = 32%nat) -> (forall k, valid_pk k = true -> length k = 32%nat) -> ((forall b, addr_from_bytes H valid_pk b <> Panic) /\ (forall s, addr_from_str H valid_pk s <> Panic) /\ (forall s, addr_from_hex H valid_pk s <> Panic) /\ (forall b, addr_deserialize H valid_pk b <> Panic) /\ (forall s, b58_decode s <> Panic) /\ (forall b, exists s, b58_encode b = Ok s)) /\ ((forall bs n, atype_from_slice bs n <> Panic) /\ (forall b r, dec_varint b <> (Panic, r))) /\ ((forall k, sk_from_slice k <> Panic) /\ (forall t, sk_from_str t <> Panic) /\ (forall b r, dec_sk b <> (Panic, r)) /\ (forall k, pk_from_slice k <> Panic) /\ (forall t, pk_from_str t <> Panic) /\ (forall b r, dec_pk b <> (Panic, r))) /\ ((forall d s, amount_from_str_in s d <> APanic /\ signed_from_str_in s d <> APanic) /\ (forall s, amount_from_str s <> APanic /\ signed_from_str s <> APanic)) /\ ((forall e, exists ok fs, try_parse valid_pk e = Ok (ok, fs)) /\ (forall s r, dec_subfield valid_pk s <> (Panic, r))).

Print Assumptions C04_no_panic_varint.
Print Assumptions C04_no_panic_u8.
Print Assumptions C04_no_panic_u16.
Print Assumptions C04_no_panic_u32.
Print Assumptions C04_no_panic_u64.
Print Assumptions C04_no_panic_bool.
Print Assumptions C04_no_panic_hash.
Print Assumptions C04_no_panic_hash8.
Print Assumptions C04_no_panic_key64.
Print Assumptions C04_no_panic_bytes_vec.
Print Assumptions C04_no_panic_txin.
Print Assumptions C04_no_panic_target.
Print Assumptions C04_no_panic_txout.
Print Assumptions C04_no_panic_prefix.
Print Assumptions C04_no_panic_signature.
Print Assumptions C04_no_panic_rct_type.
Print Assumptions C04_no_panic_ecdh.
Print Assumptions C04_no_panic_borosig.
Print Assumptions C04_no_panic_rangesig.
Print Assumptions C04_no_panic_bulletproof.
Print Assumptions C04_no_panic_bpplus.
Print Assumptions C04_no_panic_clsag.
Print Assumptions C04_no_panic_mgsig.
Print Assumptions C04_no_panic_rct_base.
Print Assumptions C04_no_panic_rct_prunable.
Print Assumptions C04_no_panic_v1_sigs.
Print Assumptions C04_no_panic_tx.
Print Assumptions C04_no_panic_header.
Print Assumptions C04_no_panic_block.
Print Assumptions C04_no_panic_rep.
Print Assumptions C04_no_panic_vec.
Print Assumptions C04_no_panic_sized.
Print Assumptions C04_no_panic_deserialize_tx.
Print Assumptions C04_no_panic_deserialize_block.
Print Assumptions C04_rep_consumes.
Print Assumptions C04_rep_bounded.
Print Assumptions C04_loop_iterations.
Print Assumptions C04_rep_is_the_loop.
Print Assumptions C04_elements_consume.
Print Assumptions C04_vec_txin_bounded.
Print Assumptions C04_vec_txout_bounded.
Print Assumptions C04_vec_varint_bounded.
Print Assumptions C04_vec_hash_bounded.
Print Assumptions C04_vec_bulletproof_bounded.
Print Assumptions C04_vec_bpplus_bounded.
Print Assumptions C04_rangesigs_bounded.
Print Assumptions C04_header_consumes.
Print Assumptions C04_bytes_vec_bounded.
Print Assumptions C04_sized_bounded.
Print Assumptions C04_cap_bounds_count.
Print Assumptions C04_zero_column_rows_consume_nothing.
Print Assumptions C04_alloc_each.
Print Assumptions C04_alloc_each_vec.
Print Assumptions C04_alloc_kept_linear.
Print Assumptions C04_alloc_kept_txin.
Print Assumptions C04_alloc_kept_txout.
Print Assumptions C04_alloc_kept_bulletproof.
Print Assumptions C04_alloc_kept_bpplus.
Print Assumptions C04_alloc_kept_varint_hash.
Print Assumptions C04_block_hashes_bounded.
Print Assumptions C04_block_tree_assert_unreachable.
Print Assumptions C04_block_root_total.
Print Assumptions C04_block_blob_total.
Print Assumptions C04_block_id_total.
Print Assumptions C04_ring_guard.
Print Assumptions C04_text_parsers_total.

(* ==== (e) output scanning and key recovery on parsed objects (Model/Scan.v; proofs in Proofs/ScanTotal.v) =======================
   The model of scanning has an explicit `SPanic` / `Panic` outcome for every unwrap / expect on its path: PublicKey::point()
   (`.decompress().expect(..)`) inside KeyGenerator::from_key, SubKeyChecker::{new, check}, the PublicKey operators, and
   `H.point.decompress().unwrap()` inside EcdhInfo::open_commitment.  The transaction prefix and the RingCT base below are
   ARBITRARY values of the model types (whatever the decoders produce, and more): check_outputs_with re-parses the raw extra
   with `raw_try_parse valid_pk_b` (total, C16), so the transaction keys it uses are accepted keys; output target keys that are
   not accepted are filtered by as_one_time_key; missing / undecodable RingCT data are the errors MissingEcdhInfo,
   MissingCommitment, InvalidCommitment.  For EVERY instance of the group laws and every pair of hashes.
   The one unwrap the laws cannot exclude is the decompression of the CONSTANT H (an abstract `decompress` may reject those 32
   bytes): it is a hypothesis, true of the executable instance (C04_ex_H_ed25519), needed (C04_ex_H_needed) and consistent
   with the laws (C04_ex_scan_hyps). *)
From MRS Require Import Proofs.ScanTotal.
Open Scope N_scope.

(* 1. scanning with the view pair (v, S), S an accepted public key, any four range bounds (also reversed / empty ranges): the
      table is built (SubKeyChecker::new) and none of the entry points returns SPanic *)
Theorem C04_scan_outputs_no_panic_partial : forall (E : EdOps) (LW : EdLaws E) (Hs : hs_fun) (Hb : bytes -> bytes) (v : Z) (S : bytes),
  pk_from_slice S = Ok S -> (exists Hp : point, decompress Ed25519.H_bytes = Some Hp) ->
  forall maj_lo maj_hi min_lo min_hi : N,
  (exists tb, checker_new Hs v S maj_lo maj_hi min_lo min_hi = Ok tb) /\
  (forall p rct, (exists l, prefix_check_outputs Hs Hb v S maj_lo maj_hi min_lo min_hi p rct = SOk l) \/
                 (exists e, prefix_check_outputs Hs Hb v S maj_lo maj_hi min_lo min_hi p rct = SErr e)) /\
  (forall t, (exists l, tx_check_outputs Hs Hb v S maj_lo maj_hi min_lo min_hi t = SOk l) \/
             (exists e, tx_check_outputs Hs Hb v S maj_lo maj_hi min_lo min_hi t = SErr e)) /\
  (forall tb p rct, checker_new Hs v S maj_lo maj_hi min_lo min_hi = Ok tb ->
     (exists l, check_outputs_with Hs Hb tb v S p rct = SOk l) \/ (exists e, check_outputs_with Hs Hb tb v S p rct = SErr e)) /\
  (forall tb t, checker_new Hs v S maj_lo maj_hi min_lo min_hi = Ok tb ->
     (exists l, tx_check_outputs_with Hs Hb tb v S t = SOk l) \/ (exists e, tx_check_outputs_with Hs Hb tb v S t = SErr e)).
Proof. intros E LW Hs Hb. exact (scan_entry_points_no_panic Hs Hb). Qed.

(* ... in fact check_outputs_with does not panic for ANY table and ANY stored spend-key bytes (a ViewPair has public fields): on
   this path the spend key is only carried along, and the table is only looked up *)
Theorem C04_scan_any_table_no_panic_partial : forall (E : EdOps) (LW : EdLaws E) (Hs : hs_fun) (Hb : bytes -> bytes),
  (exists Hp : point, decompress Ed25519.H_bytes = Some Hp) ->
  forall (tb : table) (v : Z) (S : bytes),
  (forall p rct, (exists l, check_outputs_with Hs Hb tb v S p rct = SOk l) \/ (exists e, check_outputs_with Hs Hb tb v S p rct = SErr e)) /\
  (forall t, (exists l, tx_check_outputs_with Hs Hb tb v S t = SOk l) \/ (exists e, tx_check_outputs_with Hs Hb tb v S t = SErr e)).
Proof. intros E LW Hs Hb. exact (scan_any_table_no_panic Hs Hb). Qed.

(* 2. operations on the OwnedTxOut values a scan returns.  The transaction key stored in every returned value is an accepted key;
      hence recover_key with ANY key pair (v', s') - the scanning wallet's or not - returns Ok (KeyRecoverer::new cannot hit the
      expect), and with the scanning wallet's pair (S = s*G) the value is the secret of the output's one-time key (C09).
      amount() / blinding_factor() / commitment() are total by construction (owned_amount / owned_blinding_factor /
      owned_commitment are plain `option`-valued Gallina functions without a Panic outcome): nothing to prove. *)
Theorem C04_owned_ops_total_partial : forall (E : EdOps) (LW : EdLaws E) (Hs : hs_fun) (Hb : bytes -> bytes),
  (forall tb (v : Z) S p rct l w, check_outputs_with Hs Hb tb v S p rct = SOk l -> In w l ->
     pk_from_slice (ow_key w) = Ok (ow_key w) /\
     forall v' s' : Z, exists g, from_key v' (pk_from_priv s') (ow_key w) = Ok g /\
                             owned_recover_key Hs v' s' w = Ok (recover Hs v' s' g (ow_pos w) (ow_index w))) /\
  (forall (v : Z) S (a b c d : N) p rct l w, prefix_check_outputs Hs Hb v S a b c d p rct = SOk l -> In w l ->
     pk_from_slice (ow_key w) = Ok (ow_key w) /\
     forall v' s' : Z, exists g, from_key v' (pk_from_priv s') (ow_key w) = Ok g /\
                             owned_recover_key Hs v' s' w = Ok (recover Hs v' s' g (ow_pos w) (ow_index w))) /\
  (forall (v s : Z) (a b c d : N) p rct l w, prefix_check_outputs Hs Hb v (pk_from_priv s) a b c d p rct = SOk l -> In w l ->
     exists x, owned_recover_key Hs v s w = Ok x /\ as_one_time_key (o_target (ow_out w)) = Some (pk_from_priv x)).
Proof. intros E LW Hs Hb. exact (owned_ops_total Hs Hb). Qed.

(* 3. TxOutTarget::check_view_tag is a total boolean function of (target, derivation, position) for every position: the model
      takes the position modulo 2^64 (`index as u64` of a usize), so positions >= 2^64 wrap; an untagged target passes; a tag
      that does not fit a byte never matches *)
Theorem C04_view_tag_total : forall (Hb : bytes -> bytes) (t : target) (rv : bytes) (i : N),
  check_view_tag Hb t rv i = check_view_tag Hb t rv (i mod 2 ^ 64) /\
  check_view_tag Hb t rv i =
    match t with
    | TKey _ => true
    | TTagged _ tag => tag =? b2n (hd x00 (Hb (view_tag_salt ++ rv ++ enc_varint (i mod 2 ^ 64))))
    end /\
  (forall k tag, t = TTagged k tag -> 256 <= tag -> check_view_tag Hb t rv i = false).
Proof. exact view_tag_total. Qed.

(* 4. SubKeyChecker::check / check_with_key_generator on an accepted output key (and an accepted transaction key) never panic,
      for any table, any generator, any position *)
Theorem C04_subkey_check_no_panic_partial : forall (E : EdOps) (LW : EdLaws E) (Hs : hs_fun) (tb : table) (v : Z) (S : bytes) (i : N) (P K : bytes),
  pk_from_slice P = Ok P ->
  (forall g, exists r, check_with_key_generator Hs tb g i P = Ok r) /\
  (pk_from_slice K = Ok K -> exists r, checker_check Hs tb v S i P K = Ok r).
Proof. intros E LW Hs. exact (subkey_check_total Hs). Qed.

(* non-vacuity of the hypotheses of 1.: an instance of the laws (Z/l with a lenient decompress) in which H decodes, with an accepted key *)
Example C04_ex_scan_hyps : exists (E : EdOps) (LW : EdLaws E) (S : bytes),
  pk_from_slice S = Ok S /\ (exists Hp : point, decompress Ed25519.H_bytes = Some Hp).
Proof. exact scan_hyps_satisfiable. Qed.

(* the hypothesis on H holds in the executable instance (curve25519-dalek semantics of decompress) *)
Example C04_ex_H_ed25519 : exists Hp : @point ed25519_ops, @decompress ed25519_ops Ed25519.H_bytes = Some Hp.
Proof. exact (proj2 ed25519_H_decompresses). Qed.

(* ... and it is needed: the toy instance of the laws of Proofs/EdToy.v rejects H_bytes, and its scan of a transaction with a
   RingCT base reaches `H.point.decompress().unwrap()` (the same transaction without the base scans fine) *)
Example C04_ex_H_needed :
  @decompress toy_ops Ed25519.H_bytes = None /\
  @prefix_check_outputs toy_ops toyHs toyHb toy_v toy_Sb 0 1 0 2 toy_prefix (Some toy_rct) = SPanic /\
  (exists l, @prefix_check_outputs toy_ops toyHs toyHb toy_v toy_Sb 0 1 0 2 toy_prefix None = SOk l).
Proof. exact scan_panics_without_H. Qed.

Check C04_scan_outputs_no_panic_partial : forall (E : EdOps) (LW : EdLaws E) (Hs : hs_fun) (Hb : bytes -> bytes) (v : Z) (S : bytes),
  pk_from_slice S = Ok S -> (exists Hp : point, decompress Ed25519.H_bytes = Some Hp) ->
  forall maj_lo maj_hi min_lo min_hi : N,
  (exists tb, checker_new Hs v S maj_lo maj_hi min_lo min_hi = Ok tb) /\
  (forall p rct, (exists l, prefix_check_outputs Hs Hb v S maj_lo maj_hi min_lo min_hi p rct = SOk l) \/
                 (exists e, prefix_check_outputs Hs Hb v S maj_lo maj_hi min_lo min_hi p rct = SErr e)) /\
  (forall t, (exists l, tx_check_outputs Hs Hb v S maj_lo maj_hi min_lo min_hi t = SOk l) \/
             (exists e, tx_check_outputs Hs Hb v S maj_lo maj_hi min_lo min_hi t = SErr e)) /\
  (forall tb p rct, checker_new Hs v S maj_lo maj_hi min_lo min_hi = Ok tb ->
     (exists l, check_outputs_with Hs Hb tb v S p rct = SOk l) \/ (exists e, check_outputs_with Hs Hb tb v S p rct = SErr e)) /\
  (forall tb t, checker_new Hs v S maj_lo maj_hi min_lo min_hi = Ok tb ->
     (exists l, tx_check_outputs_with Hs Hb tb v S t = SOk l) \/ (exists e, tx_check_outputs_with Hs Hb tb v S t = SErr e)).
Check C04_scan_any_table_no_panic_partial : forall (E : EdOps) (LW : EdLaws E) (Hs : hs_fun) (Hb : bytes -> bytes),
  (exists Hp : point, decompress Ed25519.H_bytes = Some Hp) ->
  forall (tb : table) (v : Z) (S : bytes),
  (forall p rct, (exists l, check_outputs_with Hs Hb tb v S p rct = SOk l) \/ (exists e, check_outputs_with Hs Hb tb v S p rct = SErr e)) /\
  (forall t, (exists l, tx_check_outputs_with Hs Hb tb v S t = SOk l) \/ (exists e, tx_check_outputs_with Hs Hb tb v S t = SErr e)).
Check C04_owned_ops_total_partial : forall (E : EdOps) (LW : EdLaws E) (Hs : hs_fun) (Hb : bytes -> bytes),
  (forall tb (v : Z) S p rct l w, check_outputs_with Hs Hb tb v S p rct = SOk l -> In w l ->
     pk_from_slice (ow_key w) = Ok (ow_key w) /\
     forall v' s' : Z, exists g, from_key v' (pk_from_priv s') (ow_key w) = Ok g /\
                             owned_recover_key Hs v' s' w = Ok (recover Hs v' s' g (ow_pos w) (ow_index w))) /\
  (forall (v : Z) S (a b c d : N) p rct l w, prefix_check_outputs Hs Hb v S a b c d p rct = SOk l -> In w l ->
     pk_from_slice (ow_key w) = Ok (ow_key w) /\
     forall v' s' : Z, exists g, from_key v' (pk_from_priv s') (ow_key w) = Ok g /\
                             owned_recover_key Hs v' s' w = Ok (recover Hs v' s' g (ow_pos w) (ow_index w))) /\
  (forall (v s : Z) (a b c d : N) p rct l w, prefix_check_outputs Hs Hb v (pk_from_priv s) a b c d p rct = SOk l -> In w l ->
     exists x, owned_recover_key Hs v s w = Ok x /\ as_one_time_key (o_target (ow_out w)) = Some (pk_from_priv x)).
Check C04_view_tag_total : forall (Hb : bytes -> bytes) (t : target) (rv : bytes) (i : N),
  check_view_tag Hb t rv i = check_view_tag Hb t rv (i mod 2 ^ 64) /\
  check_view_tag Hb t rv i =
    match t with
    | TKey _ => true
    | TTagged _ tag => tag =? b2n (hd x00 (Hb (view_tag_salt ++ rv ++ enc_varint (i mod 2 ^ 64))))
    end /\
  (forall k tag, t = TTagged k tag -> 256 <= tag -> check_view_tag Hb t rv i = false).
Check C04_subkey_check_no_panic_partial : forall (E : EdOps) (LW : EdLaws E) (Hs : hs_fun) (tb : table) (v : Z) (S : bytes) (i : N) (P K : bytes),
  pk_from_slice P = Ok P ->
  (forall g, exists r, check_with_key_generator Hs tb g i P = Ok r) /\
  (pk_from_slice K = Ok K -> exists r, checker_check Hs tb v S i P K = Ok r).

Print Assumptions C04_scan_outputs_no_panic_partial.
Print Assumptions C04_scan_any_table_no_panic_partial.
Print Assumptions C04_owned_ops_total_partial.
Print Assumptions C04_view_tag_total.
Print Assumptions C04_subkey_check_no_panic_partial.

(* ---- (c') PEAK of the live heap reservations, for EVERY input - also when the parse fails midway (Proofs/AllocPeak.v) ----
   `idec_tx sz gs` / `idec_block sz gs` are the decoders of Model/Codec.v re-stated in an instrumented cursor monad that
   threads (live bytes, peak of live bytes): `Vec::with_capacity(len)` after the cap test reserves size_of T * len BEFORE the
   elements are read (ivec / isized); `vec![]` + push loops and `collect::<Result<Vec<_>,_>>()` grow by std's amortised doubling
   (igrow / ipush: 4 slots at the first push, then 2 x capacity, old and new buffer live together while re-allocating); nothing
   else is freed (a parsed value keeps everything); on an error the run stops.  `sz` = size_of of the elements of the capped
   vectors (Model/Codec.v), `gs` = size_of of the elements of the growing vectors (EcdhInfo 65, Vec<Key> 24, Clsag 88, MgSig 56).
   `peak_of i s` = the peak reached by `i` on input `s` from an empty heap.
   C04_alloc_peak_erasure: forgetting the instrumentation gives exactly dec_tx / dec_block.
   C04_alloc_peak_tx / _block: peak <= 2 * 32 MiB + (4 * (sum of gs) + 384) + rho * |input| for every input, every pair of
   tables and every rho satisfying the eleven ratio conditions (element size <= rho * minimal wire size; x 4 for growing vectors).
   The 2 is the nesting depth of capped vectors: Vec<TxIn> > Vec<VarInt>, Vec<Bulletproof(+)> > Vec<Key>; MLSAG matrices are
   grown (Vec<MgSig> > ss) with one capped Vec<Key> per row, depth 1.
   C04_alloc_peak_all_tables: `rho_of sz gs` (max of the rounded-up ratios, at least 8) satisfies the conditions: no hypothesis left. *)
From MRS Require Import Proofs.AllocPeak.

Theorem C04_alloc_peak_erasure : forall sz gs,
  (forall s m, fst (idec_tx sz gs s m) = dec_tx sz s) /\ (forall s m, fst (idec_block sz gs s m) = dec_block sz s).
Proof. intros sz gs. split; [exact (er_tx sz gs)|exact (er_block sz gs)]. Qed.

Theorem C04_alloc_peak_tx : forall sz gs rho s,
  8 <= rho /\ sz_txin sz <= 2 * rho /\ sz_txin sz + 4 * g_row gs <= 35 * rho /\ sz_txout sz <= 34 * rho /\
  sz_bulletproof sz <= 290 * rho /\ sz_bpplus sz <= 194 * rho /\ sz_rangesig sz <= 6176 * rho /\ 4 * g_ecdh gs <= 8 * rho /\
  4 * g_clsag gs <= 64 * rho /\ 4 * g_mgsig gs <= 32 * rho /\ 4 * g_row gs + 32 <= 32 * rho ->
  peak_of (idec_tx sz gs) s <= 2 * (32 * 1024 * 1024) + (4 * (g_ecdh gs + g_row gs + g_clsag gs + g_mgsig gs) + 384) + rho * lenN s.
Proof. intros sz gs rho s H. exact (peak_tx sz gs rho s H). Qed.

Theorem C04_alloc_peak_block : forall sz gs rho s,
  8 <= rho /\ sz_txin sz <= 2 * rho /\ sz_txin sz + 4 * g_row gs <= 35 * rho /\ sz_txout sz <= 34 * rho /\
  sz_bulletproof sz <= 290 * rho /\ sz_bpplus sz <= 194 * rho /\ sz_rangesig sz <= 6176 * rho /\ 4 * g_ecdh gs <= 8 * rho /\
  4 * g_clsag gs <= 64 * rho /\ 4 * g_mgsig gs <= 32 * rho /\ 4 * g_row gs + 32 <= 32 * rho ->
  peak_of (idec_block sz gs) s <= 2 * (32 * 1024 * 1024) + (4 * (g_ecdh gs + g_row gs + g_clsag gs + g_mgsig gs) + 384) + rho * lenN s.
Proof. intros sz gs rho s H. exact (peak_block sz gs rho s H). Qed.

Theorem C04_alloc_peak_all_tables : forall sz gs s,
  peak_of (idec_tx sz gs) s <= 2 * (32 * 1024 * 1024) + (4 * (g_ecdh gs + g_row gs + g_clsag gs + g_mgsig gs) + 384) + rho_of sz gs * lenN s /\
  peak_of (idec_block sz gs) s <= 2 * (32 * 1024 * 1024) + (4 * (g_ecdh gs + g_row gs + g_clsag gs + g_mgsig gs) + 384) + rho_of sz gs * lenN s.
Proof. intros sz gs s. split; [exact (peak_tx_all sz gs s)|exact (peak_block_all sz gs s)]. Qed.

(* the prefix alone: no growing vector, no additive constant beyond the two reservations *)
Theorem C04_alloc_peak_prefix : forall sz gs rho s,
  8 <= rho /\ sz_txin sz <= 2 * rho /\ sz_txin sz + 4 * g_row gs <= 35 * rho /\ sz_txout sz <= 34 * rho /\
  sz_bulletproof sz <= 290 * rho /\ sz_bpplus sz <= 194 * rho /\ sz_rangesig sz <= 6176 * rho /\ 4 * g_ecdh gs <= 8 * rho /\
  4 * g_clsag gs <= 64 * rho /\ 4 * g_mgsig gs <= 32 * rho /\ 4 * g_row gs + 32 <= 32 * rho ->
  peak_of (idec_prefix sz) s <= 2 * (32 * 1024 * 1024) + rho * lenN s.
Proof. intros sz gs rho s H. exact (peak_prefix sz gs rho s H). Qed.

(* the generic steps of the nesting argument.  `PK rho i C K cred` (Proofs/AllocPeak.v): from a state with credit C (live + C +
   rho * |rest| <= B0) the decoder i never lets the live heap exceed B0 + K, and on success hands on the credit `cred a`.
   A capped vector adds 32 MiB to the K of its element (the reservation is made before the elements are read and is paid by them
   afterwards: every element leaves `size`); a growing vector adds 4 * esize (every element leaves 4 * esize). *)
Theorem C04_alloc_peak_vec : forall rho A (d : idec A) K size ce C,
  (forall C', PK rho d C' K (fun a => C' + size + ce a)) ->
  PK rho (ivec size d) C (32 * 1024 * 1024 + K) (fun l => C + rho + lsum ce l).
Proof. intros rho A d K size ce C H. exact (pk_vec rho d K size ce C H). Qed.

Theorem C04_alloc_peak_grow : forall rho A (d : idec A) K esize ce n C,
  (forall C', PK rho d C' K (fun a => C' + 4 * esize + ce a)) ->
  PK rho (igrow esize n d) C (K + 4 * esize) (fun l => C + lsum ce l).
Proof. intros rho A d K esize ce n C H. exact (pk_grow rho d K esize ce n C H). Qed.

(* the real tables: rho = 33 (32 is NOT enough: EcdhInfo, 65 bytes per 8 wire bytes, 4 slots after the first push), additive
   constant 2 * 32 MiB + 1316 bytes; observed by lib/props/c04.py on small inputs: 2 * 32 MiB + 1.4 kB (harness copies included) *)
Example C04_ex_peak_default :
  rho_of default_sizes default_gsizes = 33 /\
  (forall s, peak_of (idec_tx default_sizes default_gsizes) s <= 67108864 + 1316 + 33 * lenN s) /\
  (forall s, peak_of (idec_block default_sizes default_gsizes) s <= 67108864 + 1316 + 33 * lenN s) /\
  ~ (8 <= 32 /\ sz_txin default_sizes <= 2 * 32 /\ sz_txin default_sizes + 4 * g_row default_gsizes <= 35 * 32 /\
     sz_txout default_sizes <= 34 * 32 /\ sz_bulletproof default_sizes <= 290 * 32 /\ sz_bpplus default_sizes <= 194 * 32 /\
     sz_rangesig default_sizes <= 6176 * 32 /\ 4 * g_ecdh default_gsizes <= 8 * 32 /\ 4 * g_clsag default_gsizes <= 64 * 32 /\
     4 * g_mgsig default_gsizes <= 32 * 32 /\ 4 * g_row default_gsizes + 32 <= 32 * 32).
Proof.
  split; [exact (proj1 rho_default)|]. split; [|split; [|exact rho_32_not_ok]].
  - intros s. pose proof (peak_tx_all default_sizes default_gsizes s) as H. rewrite (proj1 rho_default) in H. exact H.
  - intros s. pose proof (peak_block_all default_sizes default_gsizes s) as H. rewrite (proj1 rho_default) in H. exact H.
Qed.

(* the multiple 2 of 32 MiB is reached: an 11-byte input (2^19 inputs declared, the first one a ToKey with 2^22 key offsets
   declared, then end of input) fails with EOF while both reservations are live *)
Example C04_ex_peak_two_level :
  dec_tx default_sizes [x02; x00; x80; x80; x20; x02; x00; x80; x80; x80; x02] = (Err EEof, []) /\
  peak_of (idec_tx default_sizes default_gsizes) [x02; x00; x80; x80; x20; x02; x00; x80; x80; x80; x02] = 2 * (32 * 1024 * 1024).
Proof.
  split; [rewrite <- (er_tx default_sizes default_gsizes _ (0, 0)); exact (proj1 two_level_peak)|exact (proj2 two_level_peak)].
Qed.

Check C04_alloc_peak_erasure : forall sz gs,
  (forall s m, fst (idec_tx sz gs s m) = dec_tx sz s) /\ (forall s m, fst (idec_block sz gs s m) = dec_block sz s).
Check C04_alloc_peak_tx : forall sz gs rho s,
  8 <= rho /\ sz_txin sz <= 2 * rho /\ sz_txin sz + 4 * g_row gs <= 35 * rho /\ sz_txout sz <= 34 * rho /\
  sz_bulletproof sz <= 290 * rho /\ sz_bpplus sz <= 194 * rho /\ sz_rangesig sz <= 6176 * rho /\ 4 * g_ecdh gs <= 8 * rho /\
  4 * g_clsag gs <= 64 * rho /\ 4 * g_mgsig gs <= 32 * rho /\ 4 * g_row gs + 32 <= 32 * rho ->
  peak_of (idec_tx sz gs) s <= 2 * (32 * 1024 * 1024) + (4 * (g_ecdh gs + g_row gs + g_clsag gs + g_mgsig gs) + 384) + rho * lenN s.
Check C04_alloc_peak_block : forall sz gs rho s,
  8 <= rho /\ sz_txin sz <= 2 * rho /\ sz_txin sz + 4 * g_row gs <= 35 * rho /\ sz_txout sz <= 34 * rho /\
  sz_bulletproof sz <= 290 * rho /\ sz_bpplus sz <= 194 * rho /\ sz_rangesig sz <= 6176 * rho /\ 4 * g_ecdh gs <= 8 * rho /\
  4 * g_clsag gs <= 64 * rho /\ 4 * g_mgsig gs <= 32 * rho /\ 4 * g_row gs + 32 <= 32 * rho ->
  peak_of (idec_block sz gs) s <= 2 * (32 * 1024 * 1024) + (4 * (g_ecdh gs + g_row gs + g_clsag gs + g_mgsig gs) + 384) + rho * lenN s.
Check C04_alloc_peak_all_tables : forall sz gs s,
  peak_of (idec_tx sz gs) s <= 2 * (32 * 1024 * 1024) + (4 * (g_ecdh gs + g_row gs + g_clsag gs + g_mgsig gs) + 384) + rho_of sz gs * lenN s /\
  peak_of (idec_block sz gs) s <= 2 * (32 * 1024 * 1024) + (4 * (g_ecdh gs + g_row gs + g_clsag gs + g_mgsig gs) + 384) + rho_of sz gs * lenN s.
Check C04_alloc_peak_prefix : forall sz gs rho s,
  8 <= rho /\ sz_txin sz <= 2 * rho /\ sz_txin sz + 4 * g_row gs <= 35 * rho /\ sz_txout sz <= 34 * rho /\
  sz_bulletproof sz <= 290 * rho /\ sz_bpplus sz <= 194 * rho /\ sz_rangesig sz <= 6176 * rho /\ 4 * g_ecdh gs <= 8 * rho /\
  4 * g_clsag gs <= 64 * rho /\ 4 * g_mgsig gs <= 32 * rho /\ 4 * g_row gs + 32 <= 32 * rho ->
  peak_of (idec_prefix sz) s <= 2 * (32 * 1024 * 1024) + rho * lenN s.
Check C04_alloc_peak_vec : forall rho A (d : idec A) K size ce C,
  (forall C', PK rho d C' K (fun a => C' + size + ce a)) ->
  PK rho (ivec size d) C (32 * 1024 * 1024 + K) (fun l => C + rho + lsum ce l).
Check C04_alloc_peak_grow : forall rho A (d : idec A) K esize ce n C,
  (forall C', PK rho d C' K (fun a => C' + 4 * esize + ce a)) ->
  PK rho (igrow esize n d) C (K + 4 * esize) (fun l => C + lsum ce l).

Print Assumptions C04_alloc_peak_erasure.
Print Assumptions C04_alloc_peak_tx.
Print Assumptions C04_alloc_peak_block.
Print Assumptions C04_alloc_peak_all_tables.
Print Assumptions C04_alloc_peak_prefix.
Print Assumptions C04_alloc_peak_vec.
Print Assumptions C04_alloc_peak_grow.
