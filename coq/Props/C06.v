(* C06 — block id, PoW blob and Merkle root follow the CryptoNote definition. *)
From MRS Require Import Proofs.TreeHashProofs.
Open Scope N_scope.

Theorem C06_cnt : forall n, 3 <= n -> n <= 2 ^ 28 ->
  tree_hash_cnt n = Ok (pow2_below n) /\ pow2_below n < n /\ n <= 2 * pow2_below n.
Proof. exact tree_hash_cnt_spec. Qed.

Check C06_cnt : forall n, 3 <= n -> n <= 2 ^ 28 ->
  tree_hash_cnt n = Ok (pow2_below n) /\ pow2_below n < n /\ n <= 2 * pow2_below n.
Print Assumptions C06_cnt.
