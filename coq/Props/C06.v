(* C06 — block id, PoW blob and Merkle root follow the CryptoNote definition.
   Statements only (pinned by Check), `exact` proofs and assumption audits.
   Model: Model/TreeHash.v (tree_hash_cnt, the in-place tree_hash, tx_root, hashable_blob, block_id).
   Spec: Spec/TreeHash.v (recursive definition; PoW blob; id) with the textbook LEB128 of Spec/Leb128.v.
   The tree theorems hold for EVERY two-to-one hash `hc`, the block theorems for EVERY `H` (no property of Keccak is used). *)
From MRS Require Import Proofs.TreeHashProofs Proofs.BlockIdProofs.
From Coq Require Import String.
Open Scope string_scope.
Open Scope N_scope.

(* tree_hash_cnt on its whole problem space: the largest power of two strictly below n; never EFuel/Panic there *)
Theorem C06_cnt : forall n, 3 <= n -> n <= 2 ^ 28 ->
  tree_hash_cnt n = Ok (pow2_below n) /\ pow2_below n < n /\ n <= 2 * pow2_below n.
Proof. exact tree_hash_cnt_spec. Qed.

Theorem C06_cnt_pow2 : forall n, 3 <= n -> n <= 2 ^ 28 -> exists k, 1 <= k <= 27 /\ tree_hash_cnt n = Ok (2 ^ k).
Proof. exact tree_hash_cnt_pow2. Qed.

(* outside it, the two asserts fire *)
Theorem C06_cnt_panics : forall n, n < 3 \/ 2 ^ 28 < n -> tree_hash_cnt n = Panic.
Proof. exact tree_hash_cnt_panics. Qed.

(* the in-place array algorithm computes the recursive CryptoNote definition, for every hash and every leaf count
   up to the sanity limit (count = 1 + |extra| <= 2^28): no panic (indexing, the subtraction, assert_eq!(i, count)),
   no fuel exhaustion *)
Theorem C06_tree : forall (hc : bytes -> bytes -> bytes) root extra,
  lenN extra < 2 ^ 28 -> tree_hash hc root extra = Ok (tree_spec hc (root :: extra)).
Proof. exact tree_hash_correct. Qed.

Theorem C06_tree_list : forall (hc : bytes -> bytes -> bytes) l,
  1 <= lenN l <= 2 ^ 28 -> tree_hash_list hc l = Ok (tree_spec hc l).
Proof. exact tree_hash_list_correct. Qed.

(* above the limit the function panics (assert!(count <= 0x10000000)) *)
Theorem C06_tree_panics_above_limit : forall (hc : bytes -> bytes -> bytes) root extra,
  2 ^ 28 <= lenN extra -> tree_hash hc root extra = Panic.
Proof. exact tree_hash_panics. Qed.

(* Block::tx_root = tree hash of the miner-transaction hash followed by the listed hashes *)
Theorem C06_root : forall (H : bytes -> bytes) mh txs,
  lenN txs < 2 ^ 28 -> tx_root H mh txs = Ok (root_spec H (mh :: txs)).
Proof. exact tx_root_correct. Qed.

(* PoW blob = header || root || LEB128(1 + number of listed transactions) *)
Theorem C06_blob : forall (H : bytes -> bytes) hdr mh txs,
  lenN txs < 2 ^ 28 ->
  hashable_blob H hdr mh txs = Ok (blob_spec H leb128 hdr (mh :: txs)) /\
  blob_spec H leb128 hdr (mh :: txs) = (hdr ++ root_spec H (mh :: txs) ++ leb128 (1 + lenN txs))%list.
Proof.
  intros H hdr mh txs Hl. split; [exact (hashable_blob_correct H hdr mh txs Hl)|].
  unfold blob_spec. now rewrite lenN_cons.
Qed.

(* id = H(LEB128(|blob|) || blob), except that the value 426d16cf… is replaced by bbd604d2… *)
Theorem C06_id : forall (H : bytes -> bytes) hdr mh txs,
  lenN txs < 2 ^ 28 -> lenN (blob_spec H leb128 hdr (mh :: txs)) < 2 ^ 64 ->
  block_id H hdr mh txs = Ok (id_spec H leb128 correct_block_id_202612 existing_block_id_202612 hdr (mh :: txs)).
Proof. exact block_id_correct. Qed.

Theorem C06_id_cases : forall (H : bytes -> bytes) hdr mh txs,
  lenN txs < 2 ^ 28 -> lenN (blob_spec H leb128 hdr (mh :: txs)) < 2 ^ 64 ->
  let blob := blob_spec H leb128 hdr (mh :: txs) in
  let h := H (leb128 (lenN blob) ++ blob)%list in
  (h = correct_block_id_202612 -> block_id H hdr mh txs = Ok existing_block_id_202612) /\
  (h <> correct_block_id_202612 -> block_id H hdr mh txs = Ok h).
Proof. exact block_id_cases. Qed.

(* with Keccak-256 the blob is short, so `blob.len().try_into().unwrap()` cannot fail: unconditional for real blocks *)
Theorem C06_id_keccak : forall hdr mh txs,
  List.length mh = 32%nat -> lenN txs < 2 ^ 28 -> lenN hdr < 2 ^ 32 ->
  block_id keccak256 hdr mh txs =
  Ok (id_spec keccak256 leb128 correct_block_id_202612 existing_block_id_202612 hdr (mh :: txs)).
Proof. exact block_id_keccak. Qed.

(* the two explicit small cases of the definition are instances of the general formula *)
Theorem C06_spec_uniform : forall (hc : bytes -> bytes -> bytes) a b,
  tree_spec hc [a] =
    perfect hc (depth_below 1) (firstn (2 * 2 ^ depth_below 1 - 1) [a] ++ pairs hc (skipn (2 * 2 ^ depth_below 1 - 1) [a]))%list /\
  tree_spec hc [a; b] =
    perfect hc (depth_below 2) (firstn (2 * 2 ^ depth_below 2 - 2) [a; b] ++ pairs hc (skipn (2 * 2 ^ depth_below 2 - 2) [a; b]))%list.
Proof. exact tree_spec_small. Qed.

(* sanity of the specification itself: on 2^k leaves it is the plain perfect binary Merkle tree *)
Theorem C06_spec_pow2 : forall (hc : bytes -> bytes -> bytes) k l,
  List.length l = (2 ^ k)%nat -> tree_spec hc l = perfect hc k l.
Proof. exact tree_spec_pow2. Qed.

(* non-vacuity: with hc a b = "(" a "," b ")" the shape of the tree is visible *)
Definition paren (a b : bytes) : bytes := (x28 :: a ++ x2c :: b ++ [x29])%list.
Definition leaves_abc (n : nat) : list bytes := map (fun i => [n2b (97 + N.of_nat i)]) (seq 0 n).
Example C06_ex_shapes :
  tree_hash_list paren (leaves_abc 1) = Ok (bytes_of_string "a") /\
  tree_hash_list paren (leaves_abc 2) = Ok (bytes_of_string "(a,b)") /\
  tree_hash_list paren (leaves_abc 3) = Ok (bytes_of_string "(a,(b,c))") /\
  tree_hash_list paren (leaves_abc 4) = Ok (bytes_of_string "((a,b),(c,d))") /\
  tree_hash_list paren (leaves_abc 5) = Ok (bytes_of_string "((a,b),(c,(d,e)))") /\
  tree_hash_list paren (leaves_abc 6) = Ok (bytes_of_string "((a,b),((c,d),(e,f)))") /\
  tree_hash_list paren (leaves_abc 7) = Ok (bytes_of_string "((a,(b,c)),((d,e),(f,g)))") /\
  tree_hash_list paren (leaves_abc 9) = Ok (bytes_of_string "(((a,b),(c,d)),((e,f),(g,(h,i))))") /\
  tree_spec paren (leaves_abc 9) = bytes_of_string "(((a,b),(c,d)),((e,f),(g,(h,i))))" /\
  tree_hash_list paren [] = Panic.
Proof. repeat split; vm_compute; reflexivity. Qed.
Example C06_ex_cnt : tree_hash_cnt 3 = Ok 2 /\ tree_hash_cnt 4 = Ok 2 /\ tree_hash_cnt 5 = Ok 4 /\ tree_hash_cnt 8 = Ok 4 /\
  tree_hash_cnt 9 = Ok 8 /\ tree_hash_cnt (2 ^ 28) = Ok (2 ^ 27) /\ tree_hash_cnt 2 = Panic /\ tree_hash_cnt (2 ^ 28 + 1) = Panic.
Proof. repeat split; vm_compute; reflexivity. Qed.
(* (mainnet block 202612 with its 513 hashes is evaluated inside Coq in Proofs/TreeHashKAT.v — part of the full build, not imported
   here because re-checking ~1500 Keccak permutations with coqchk takes longer than the whole thorough tier) *)

(* every block the parser accepts (from at most 4 GiB of bytes): root, PoW blob and id are total and are the CryptoNote
   definition over the miner-transaction id of C05 and the listed hashes; no assert / unwrap is reachable *)
Theorem C06_parsed_block : forall sz s b r,
  dec_block sz s = (Ok b, r) -> lenN s < 2 ^ 32 ->
  let mh := tx_hash keccak256 (miner_tx b) in
  let hdr := enc_header (blk_header b) in
  block_tx_root keccak256 b = Ok (root_spec keccak256 (mh :: tx_hashes b)) /\
  block_hashable keccak256 b = Ok (blob_spec keccak256 leb128 hdr (mh :: tx_hashes b)) /\
  block_id_of keccak256 b =
    Ok (id_spec keccak256 leb128 correct_block_id_202612 existing_block_id_202612 hdr (mh :: tx_hashes b)).
Proof. exact parsed_block_total. Qed.

Check C06_parsed_block : forall sz s b r,
  dec_block sz s = (Ok b, r) -> lenN s < 2 ^ 32 ->
  let mh := tx_hash keccak256 (miner_tx b) in
  let hdr := enc_header (blk_header b) in
  block_tx_root keccak256 b = Ok (root_spec keccak256 (mh :: tx_hashes b)) /\
  block_hashable keccak256 b = Ok (blob_spec keccak256 leb128 hdr (mh :: tx_hashes b)) /\
  block_id_of keccak256 b =
    Ok (id_spec keccak256 leb128 correct_block_id_202612 existing_block_id_202612 hdr (mh :: tx_hashes b)).
Print Assumptions C06_parsed_block.

Check C06_cnt : forall n, 3 <= n -> n <= 2 ^ 28 ->
  tree_hash_cnt n = Ok (pow2_below n) /\ pow2_below n < n /\ n <= 2 * pow2_below n.
Check C06_cnt_pow2 : forall n, 3 <= n -> n <= 2 ^ 28 -> exists k, 1 <= k <= 27 /\ tree_hash_cnt n = Ok (2 ^ k).
Check C06_cnt_panics : forall n, n < 3 \/ 2 ^ 28 < n -> tree_hash_cnt n = Panic.
Check C06_tree : forall (hc : bytes -> bytes -> bytes) root extra,
  lenN extra < 2 ^ 28 -> tree_hash hc root extra = Ok (tree_spec hc (root :: extra)).
Check C06_tree_list : forall (hc : bytes -> bytes -> bytes) l,
  1 <= lenN l <= 2 ^ 28 -> tree_hash_list hc l = Ok (tree_spec hc l).
Check C06_tree_panics_above_limit : forall (hc : bytes -> bytes -> bytes) root extra,
  2 ^ 28 <= lenN extra -> tree_hash hc root extra = Panic.
Check C06_root : forall (H : bytes -> bytes) mh txs,
  lenN txs < 2 ^ 28 -> tx_root H mh txs = Ok (root_spec H (mh :: txs)).
Check C06_blob : forall (H : bytes -> bytes) hdr mh txs,
  lenN txs < 2 ^ 28 ->
  hashable_blob H hdr mh txs = Ok (blob_spec H leb128 hdr (mh :: txs)) /\
  blob_spec H leb128 hdr (mh :: txs) = (hdr ++ root_spec H (mh :: txs) ++ leb128 (1 + lenN txs))%list.
Check C06_id : forall (H : bytes -> bytes) hdr mh txs,
  lenN txs < 2 ^ 28 -> lenN (blob_spec H leb128 hdr (mh :: txs)) < 2 ^ 64 ->
  block_id H hdr mh txs = Ok (id_spec H leb128 correct_block_id_202612 existing_block_id_202612 hdr (mh :: txs)).
Check C06_id_cases : forall (H : bytes -> bytes) hdr mh txs,
  lenN txs < 2 ^ 28 -> lenN (blob_spec H leb128 hdr (mh :: txs)) < 2 ^ 64 ->
  let blob := blob_spec H leb128 hdr (mh :: txs) in
  let h := H (leb128 (lenN blob) ++ blob)%list in
  (h = correct_block_id_202612 -> block_id H hdr mh txs = Ok existing_block_id_202612) /\
  (h <> correct_block_id_202612 -> block_id H hdr mh txs = Ok h).
Check C06_id_keccak : forall hdr mh txs,
  List.length mh = 32%nat -> lenN txs < 2 ^ 28 -> lenN hdr < 2 ^ 32 ->
  block_id keccak256 hdr mh txs =
  Ok (id_spec keccak256 leb128 correct_block_id_202612 existing_block_id_202612 hdr (mh :: txs)).
Check C06_spec_uniform : forall (hc : bytes -> bytes -> bytes) a b,
  tree_spec hc [a] =
    perfect hc (depth_below 1) (firstn (2 * 2 ^ depth_below 1 - 1) [a] ++ pairs hc (skipn (2 * 2 ^ depth_below 1 - 1) [a]))%list /\
  tree_spec hc [a; b] =
    perfect hc (depth_below 2) (firstn (2 * 2 ^ depth_below 2 - 2) [a; b] ++ pairs hc (skipn (2 * 2 ^ depth_below 2 - 2) [a; b]))%list.
Check C06_spec_pow2 : forall (hc : bytes -> bytes -> bytes) k l,
  List.length l = (2 ^ k)%nat -> tree_spec hc l = perfect hc k l.

Print Assumptions C06_cnt.
Print Assumptions C06_cnt_pow2.
Print Assumptions C06_cnt_panics.
Print Assumptions C06_tree.
Print Assumptions C06_tree_list.
Print Assumptions C06_tree_panics_above_limit.
Print Assumptions C06_root.
Print Assumptions C06_blob.
Print Assumptions C06_id.
Print Assumptions C06_id_cases.
Print Assumptions C06_id_keccak.
Print Assumptions C06_spec_uniform.
Print Assumptions C06_spec_pow2.
