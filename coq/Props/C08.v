(* C08 — recovered amounts are the sender's and always open the on-chain commitment.
   Model: Model/Ecdh.v (EcdhInfo::open_commitment as the source is after the commit "fix: legacy ecdh amount key is Hs(Hs(shared))"),
   Model/Scan.v (opening step, OwnedTxOut getters).  Spec: Spec/Sender.v (rctOps ecdhEncode, genCommitmentMask, Pedersen commitment).
   commit Hp y a = pedersen Hp y a = y*G + a*Hp, Hp = decompress H_bytes (the second generator; `.unwrap()` modelled as Panic).
   open_commitment e v S K i C = open_with e (Hs(8vK || varint i)) C.
   Exactness theorems hold for EVERY instance of EdLaws and all hashes (legacy: hash-to-scalar values in [0,l)) - `_partial`.
   This file contains only statements (pinned by Check), `exact` proofs, non-vacuity Examples and assumption audits. *)
From MRS Require Import Proofs.ScanProofs Proofs.EcdhProofs Proofs.EdInstProofs.
Open Scope Z_scope.

(* SOUNDNESS of every opening, for ANY input (corrupted or not): whatever open_commitment returns satisfies C = the candidate
   commitment and C = y*G + a*H.  Needs nothing but the soundness of the point-equality test *)
Theorem C08_opening_valid : forall (E : EdOps) (Hs : hs_fun) (Hb : bytes -> bytes) e v S K i cand a y C,
  (forall P Q : point, peqb P Q = true -> P = Q) ->
  open_commitment Hs Hb e v S K i cand = Ok (Some (a, y, C)) ->
  exists Hp, decompress Ed25519.H_bytes = Some Hp /\ C = cand /\ C = commit Hp y a.
Proof. intros E Hs Hb. exact (open_commitment_sound Hs Hb). Qed.

(* the same for every instance of the laws (the equality test is sound on valid points; a decompressed commitment is valid) *)
Theorem C08_opening_valid_partial : forall (E : EdOps) (LW : EdLaws E) (Hs : hs_fun) (Hb : bytes -> bytes) e v S K i cand a y C, valid cand ->
  open_commitment Hs Hb e v S K i cand = Ok (Some (a, y, C)) ->
  exists Hp, decompress Ed25519.H_bytes = Some Hp /\ valid Hp /\ C = cand /\ C = commit Hp y a.
Proof. intros E LW Hs Hb. exact (open_commitment_sound_laws Hs Hb). Qed.

(* the decoded amount is a u64 in both encodings *)
Theorem C08_amount_is_u64 : forall (E : EdOps) (Hs : hs_fun) (Hb : bytes -> bytes) e shared, (fst (ecdh_decode Hs Hb e shared) < 2 ^ 64)%N.
Proof. intros E Hs Hb. exact (ecdh_decode_u64 Hs Hb). Qed.

(* for ANY transaction: when a scan succeeds, every owned output of a RingCT transaction (base present, type not Null) carries an
   opening (amount, blinding factor, commitment) with commitment = the decompressed out_pk entry at that position = y*G + a*H, and
   amount() / blinding_factor() / commitment() return exactly these; otherwise (no base, Null type) there is no opening.
   no_rct rct := rct = None \/ exists bs, rct = Some bs /\ rb_type bs = RNull *)
Theorem C08_scan_amount_only_with_opening_partial : forall (E : EdOps) (LW : EdLaws E) (Hs : hs_fun) (Hb : bytes -> bytes) v S a b c d p rct l w,
  prefix_check_outputs Hs Hb v S a b c d p rct = SOk l -> In w l ->
  (no_rct rct /\ ow_opening w = None) \/
  (exists bs e0 c0 C am y Hp,
     rct = Some bs /\ rb_type bs <> RNull /\
     nth_error (rb_ecdh bs) (N.to_nat (ow_pos w)) = Some e0 /\ nth_error (rb_out_pk bs) (N.to_nat (ow_pos w)) = Some c0 /\
     decompress c0 = Some C /\ decompress Ed25519.H_bytes = Some Hp /\
     ow_opening w = Some (am, y, C) /\ C = commit Hp y am /\ (am < 2 ^ 64)%N /\
     owned_amount w = Some am /\ owned_blinding_factor w = Some y /\ owned_commitment w = Some C).
Proof. intros E LW Hs Hb. exact (scan_opening Hs Hb). Qed.

(* the opening step fails only with MissingEcdhInfo (no ecdh entry), MissingCommitment (no out_pk entry) or InvalidCommitment *)
Theorem C08_scan_error_kinds : forall (E : EdOps) (Hs : hs_fun) (Hb : bytes -> bytes) rct e c v S i key er,
  opening_step Hs Hb rct e c v S i key = SErr er ->
  er = MissingEcdhInfo /\ e = None \/ er = MissingCommitment /\ c = None \/ er = InvalidCommitment.
Proof. intros E Hs Hb. exact (opening_step_errors Hs Hb). Qed.

(* version-1 / coinbase / Null-type outputs (no opening): the clear amount a > 0 is reported as a, a clear amount 0 as unknown *)
Theorem C08_clear_amount : forall (E : EdOps) (w : owned), ow_opening w = None ->
  owned_amount w = (if (o_amount (ow_out w) =? 0)%N then None else Some (o_amount (ow_out w))) /\
  owned_blinding_factor w = None /\ owned_commitment w = None.
Proof. intros E. exact owned_amount_clear. Qed.

(* EXACTNESS, compact 8-byte encoding: the sender's (amount xor H("amount"||shared)[0..8], C = mask*G + a*H with the derived mask
   Hs("commitment_mask"||shared)) opens to the sender's amount and the derived mask, for every a < 2^64 and every shared scalar
   (open_commitment = open_with at shared = Hs(8vK || varint i)) *)
Theorem C08_compact_exact_partial : forall (E : EdOps) (LW : EdLaws E) (Hs : hs_fun) (Hb : bytes -> bytes) a shared Hp,
  (a < 2 ^ 64)%N -> decompress Ed25519.H_bytes = Some Hp ->
  open_with Hs Hb (EBulletproof (sender_compact Hb a shared)) shared (pedersen Hp (gen_commitment_mask Hs shared) a)
    = Ok (Some (a, gen_commitment_mask Hs shared, pedersen Hp (gen_commitment_mask Hs shared) a)).
Proof. intros E LW Hs Hb. exact (compact_exact Hs Hb). Qed.

(* EXACTNESS, legacy 64-byte encoding: the sender's (mask + Hs(shared), amount + Hs(Hs(shared))) as 32-byte scalars and C = y*G + a*H
   open to exactly (a, y), for every a < 2^64, every mask y in [0,l) and EVERY shared scalar, for every hash-to-scalar with values in [0,l) *)
Theorem C08_legacy_exact_partial : forall (E : EdOps) (LW : EdLaws E) (Hs : hs_fun) (Hb : bytes -> bytes) a y shared Hp,
  (forall m, 0 <= Hs m < ell) -> (a < 2 ^ 64)%N -> 0 <= y < ell -> decompress Ed25519.H_bytes = Some Hp ->
  open_with Hs Hb (EStandard (fst (sender_legacy Hs a y shared)) (snd (sender_legacy Hs a y shared))) shared (pedersen Hp y a)
    = Ok (Some (a, y, pedersen Hp y a)).
Proof. intros E LW Hs Hb. exact (legacy_exact Hs Hb). Qed.

(* the decoders alone (no curve involved in the statement) *)
Theorem C08_decode_inverts_sender : forall (E : EdOps) (LW : EdLaws E) (Hs : hs_fun) (Hb : bytes -> bytes) a y shared,
  (a < 2 ^ 64)%N ->
  ecdh_decode Hs Hb (EBulletproof (sender_compact Hb a shared)) shared = (a, gen_commitment_mask Hs shared) /\
  ((forall m, 0 <= Hs m < ell) -> 0 <= y < ell ->
   ecdh_decode Hs Hb (EStandard (fst (sender_legacy Hs a y shared)) (snd (sender_legacy Hs a y shared))) shared = (a, y)).
Proof. intros E LW Hs Hb a y shared Ha. split; [exact (compact_decode Hs Hb a shared Ha)|intros Hr Hy; exact (legacy_decode Hs Hb a y shared Hr Ha Hy)]. Qed.

(* non-vacuity / sanity on the Keccak instance: xor involution and scalar arithmetic on concrete numbers *)
Example C08_ex_compact_roundtrip :
  xor_amount Keccak.keccak256 (sender_compact Keccak.keccak256 (2 ^ 64 - 1) 5) 5 = (2 ^ 64 - 1)%N /\
  xor_amount Keccak.keccak256 (sender_compact Keccak.keccak256 0 5) 5 = 0%N.
Proof. vm_compute. split; reflexivity. Qed.
Example C08_ex_legacy_roundtrip :
  ecdh_decode hs_keccak Keccak.keccak256
    (EStandard (fst (sender_legacy hs_keccak (2 ^ 63) (ell - 1) 7)) (snd (sender_legacy hs_keccak (2 ^ 63) (ell - 1) 7))) 7
  = ((2 ^ 63)%N, ell - 1).
Proof. vm_compute. reflexivity. Qed.
Example C08_ex_clear : forall (E : EdOps) k,
  owned_amount (mk_owned 0 (mk_txout 0 (TKey k)) (0%N, 0%N) k None) = None /\
  owned_amount (mk_owned 0 (mk_txout 7 (TKey k)) (0%N, 0%N) k None) = Some 7%N.
Proof. intros E k. split; reflexivity. Qed.

Check C08_opening_valid : forall (E : EdOps) (Hs : hs_fun) (Hb : bytes -> bytes) e v S K i cand a y C,
  (forall P Q : point, peqb P Q = true -> P = Q) ->
  open_commitment Hs Hb e v S K i cand = Ok (Some (a, y, C)) ->
  exists Hp, decompress Ed25519.H_bytes = Some Hp /\ C = cand /\ C = commit Hp y a.
Check C08_opening_valid_partial : forall (E : EdOps) (LW : EdLaws E) (Hs : hs_fun) (Hb : bytes -> bytes) e v S K i cand a y C, valid cand ->
  open_commitment Hs Hb e v S K i cand = Ok (Some (a, y, C)) ->
  exists Hp, decompress Ed25519.H_bytes = Some Hp /\ valid Hp /\ C = cand /\ C = commit Hp y a.
Check C08_amount_is_u64 : forall (E : EdOps) (Hs : hs_fun) (Hb : bytes -> bytes) e shared, (fst (ecdh_decode Hs Hb e shared) < 2 ^ 64)%N.
Check C08_scan_amount_only_with_opening_partial : forall (E : EdOps) (LW : EdLaws E) (Hs : hs_fun) (Hb : bytes -> bytes) v S a b c d p rct l w,
  prefix_check_outputs Hs Hb v S a b c d p rct = SOk l -> In w l ->
  (no_rct rct /\ ow_opening w = None) \/
  (exists bs e0 c0 C am y Hp,
     rct = Some bs /\ rb_type bs <> RNull /\
     nth_error (rb_ecdh bs) (N.to_nat (ow_pos w)) = Some e0 /\ nth_error (rb_out_pk bs) (N.to_nat (ow_pos w)) = Some c0 /\
     decompress c0 = Some C /\ decompress Ed25519.H_bytes = Some Hp /\
     ow_opening w = Some (am, y, C) /\ C = commit Hp y am /\ (am < 2 ^ 64)%N /\
     owned_amount w = Some am /\ owned_blinding_factor w = Some y /\ owned_commitment w = Some C).
Check C08_scan_error_kinds : forall (E : EdOps) (Hs : hs_fun) (Hb : bytes -> bytes) rct e c v S i key er,
  opening_step Hs Hb rct e c v S i key = SErr er ->
  er = MissingEcdhInfo /\ e = None \/ er = MissingCommitment /\ c = None \/ er = InvalidCommitment.
Check C08_clear_amount : forall (E : EdOps) (w : owned), ow_opening w = None ->
  owned_amount w = (if (o_amount (ow_out w) =? 0)%N then None else Some (o_amount (ow_out w))) /\
  owned_blinding_factor w = None /\ owned_commitment w = None.
Check C08_compact_exact_partial : forall (E : EdOps) (LW : EdLaws E) (Hs : hs_fun) (Hb : bytes -> bytes) a shared Hp,
  (a < 2 ^ 64)%N -> decompress Ed25519.H_bytes = Some Hp ->
  open_with Hs Hb (EBulletproof (sender_compact Hb a shared)) shared (pedersen Hp (gen_commitment_mask Hs shared) a)
    = Ok (Some (a, gen_commitment_mask Hs shared, pedersen Hp (gen_commitment_mask Hs shared) a)).
Check C08_legacy_exact_partial : forall (E : EdOps) (LW : EdLaws E) (Hs : hs_fun) (Hb : bytes -> bytes) a y shared Hp,
  (forall m, 0 <= Hs m < ell) -> (a < 2 ^ 64)%N -> 0 <= y < ell -> decompress Ed25519.H_bytes = Some Hp ->
  open_with Hs Hb (EStandard (fst (sender_legacy Hs a y shared)) (snd (sender_legacy Hs a y shared))) shared (pedersen Hp y a)
    = Ok (Some (a, y, pedersen Hp y a)).
Check C08_decode_inverts_sender : forall (E : EdOps) (LW : EdLaws E) (Hs : hs_fun) (Hb : bytes -> bytes) a y shared,
  (a < 2 ^ 64)%N ->
  ecdh_decode Hs Hb (EBulletproof (sender_compact Hb a shared)) shared = (a, gen_commitment_mask Hs shared) /\
  ((forall m, 0 <= Hs m < ell) -> 0 <= y < ell ->
   ecdh_decode Hs Hb (EStandard (fst (sender_legacy Hs a y shared)) (snd (sender_legacy Hs a y shared))) shared = (a, y)).

Print Assumptions C08_opening_valid.
Print Assumptions C08_opening_valid_partial.
Print Assumptions C08_amount_is_u64.
Print Assumptions C08_scan_amount_only_with_opening_partial.
Print Assumptions C08_scan_error_kinds.
Print Assumptions C08_clear_amount.
Print Assumptions C08_compact_exact_partial.
Print Assumptions C08_legacy_exact_partial.
Print Assumptions C08_decode_inverts_sender.
