(* C08 — placeholder, replaced below by the real statements. *)
From MRS Require Import Proofs.ScanProofs.
Theorem C08_placeholder : True. Proof. exact I. Qed.
Check C08_placeholder : True.
Print Assumptions C08_placeholder.
