(* C08 — recovered amounts are the sender's and always open the on-chain commitment.
   Model: Model/Ecdh.v (EcdhInfo::open_commitment as the source is after the commit "fix: legacy ecdh amount key is Hs(Hs(shared))"),
   Model/Scan.v (opening step, OwnedTxOut getters).  Spec: Spec/Sender.v (rctOps ecdhEncode, genCommitmentMask, Pedersen commitment).
   commit Hp y a = pedersen Hp y a = y*G + a*Hp, Hp = decompress H_bytes (the second generator; `.unwrap()` modelled as Panic).
   open_commitment e v S K i C = open_with e (Hs(8vK || varint i)) C.
   Exactness theorems hold for EVERY instance of EdLaws and all hashes (legacy: hash-to-scalar values in [0,l)) - `_partial`.
   This file contains only statements (pinned by Check), `exact` proofs, non-vacuity Examples and assumption audits. *)
From MRS Require Import Proofs.ScanProofs Proofs.EcdhProofs Proofs.EdInstProofs.
Open Scope Z_scope.

(* SOUNDNESS of every opening, for ANY input (corrupted or not): whatever open_commitment returns satisfies C = the candidate
   commitment and C = y*G + a*H.  Needs nothing but the soundness of the point-equality test *)
Theorem C08_opening_valid : forall (E : EdOps) (Hs : hs_fun) (Hb : bytes -> bytes) e v S K i cand a y C,
  (forall P Q : point, peqb P Q = true -> P = Q) ->
  open_commitment Hs Hb e v S K i cand = Ok (Some (a, y, C)) ->
  exists Hp, decompress Ed25519.H_bytes = Some Hp /\ C = cand /\ C = commit Hp y a.
Proof. intros E Hs Hb. exact (open_commitment_sound Hs Hb). Qed.

(* the same for every instance of the laws (the equality test is sound on valid points; a decompressed commitment is valid) *)
Theorem C08_opening_valid_partial : forall (E : EdOps) (LW : EdLaws E) (Hs : hs_fun) (Hb : bytes -> bytes) e v S K i cand a y C, valid cand ->
  open_commitment Hs Hb e v S K i cand = Ok (Some (a, y, C)) ->
  exists Hp, decompress Ed25519.H_bytes = Some Hp /\ valid Hp /\ C = cand /\ C = commit Hp y a.
Proof. intros E LW Hs Hb. exact (open_commitment_sound_laws Hs Hb). Qed.

(* the decoded amount is a u64 in both encodings *)
Theorem C08_amount_is_u64 : forall (E : EdOps) (Hs : hs_fun) (Hb : bytes -> bytes) e shared, (fst (ecdh_decode Hs Hb e shared) < 2 ^ 64)%N.
Proof. intros E Hs Hb. exact (ecdh_decode_u64 Hs Hb). Qed.

(* for ANY transaction: when a scan succeeds, every owned output of a RingCT transaction (base present, type not Null) carries an
   opening (amount, blinding factor, commitment) with commitment = the decompressed out_pk entry at that position = y*G + a*H, and
   amount() / blinding_factor() / commitment() return exactly these; otherwise (no base, Null type) there is no opening.
   no_rct rct := rct = None \/ exists bs, rct = Some bs /\ rb_type bs = RNull *)
Theorem C08_scan_amount_only_with_opening_partial : forall (E : EdOps) (LW : EdLaws E) (Hs : hs_fun) (Hb : bytes -> bytes) v S a b c d p rct l w,
  prefix_check_outputs Hs Hb v S a b c d p rct = SOk l -> In w l ->
  (no_rct rct /\ ow_opening w = None) \/
  (exists bs e0 c0 C am y Hp,
     rct = Some bs /\ rb_type bs <> RNull /\
     nth_error (rb_ecdh bs) (N.to_nat (ow_pos w)) = Some e0 /\ nth_error (rb_out_pk bs) (N.to_nat (ow_pos w)) = Some c0 /\
     decompress c0 = Some C /\ decompress Ed25519.H_bytes = Some Hp /\
     ow_opening w = Some (am, y, C) /\ C = commit Hp y am /\ (am < 2 ^ 64)%N /\
     owned_amount w = Some am /\ owned_blinding_factor w = Some y /\ owned_commitment w = Some C).
Proof. intros E LW Hs Hb. exact (scan_opening Hs Hb). Qed.

(* the opening step fails only with MissingEcdhInfo (no ecdh entry), MissingCommitment (no out_pk entry) or InvalidCommitment *)
Theorem C08_scan_error_kinds : forall (E : EdOps) (Hs : hs_fun) (Hb : bytes -> bytes) rct e c v S i key er,
  opening_step Hs Hb rct e c v S i key = SErr er ->
  er = MissingEcdhInfo /\ e = None \/ er = MissingCommitment /\ c = None \/ er = InvalidCommitment.
Proof. intros E Hs Hb. exact (opening_step_errors Hs Hb). Qed.

(* version-1 / coinbase / Null-type outputs (no opening): the clear amount a > 0 is reported as a, a clear amount 0 as unknown *)
Theorem C08_clear_amount : forall (E : EdOps) (w : owned), ow_opening w = None ->
  owned_amount w = (if (o_amount (ow_out w) =? 0)%N then None else Some (o_amount (ow_out w))) /\
  owned_blinding_factor w = None /\ owned_commitment w = None.
Proof. intros E. exact owned_amount_clear. Qed.

(* EXACTNESS, compact 8-byte encoding: the sender's (amount xor H("amount"||shared)[0..8], C = mask*G + a*H with the derived mask
   Hs("commitment_mask"||shared)) opens to the sender's amount and the derived mask, for every a < 2^64 and every shared scalar
   (open_commitment = open_with at shared = Hs(8vK || varint i)) *)
Theorem C08_compact_exact_partial : forall (E : EdOps) (LW : EdLaws E) (Hs : hs_fun) (Hb : bytes -> bytes) a shared Hp,
  (a < 2 ^ 64)%N -> decompress Ed25519.H_bytes = Some Hp ->
  open_with Hs Hb (EBulletproof (sender_compact Hb a shared)) shared (pedersen Hp (gen_commitment_mask Hs shared) a)
    = Ok (Some (a, gen_commitment_mask Hs shared, pedersen Hp (gen_commitment_mask Hs shared) a)).
Proof. intros E LW Hs Hb. exact (compact_exact Hs Hb). Qed.

(* EXACTNESS, legacy 64-byte encoding: the sender's (mask + Hs(shared), amount + Hs(Hs(shared))) as 32-byte scalars and C = y*G + a*H
   open to exactly (a, y), for every a < 2^64, every mask y in [0,l) and EVERY shared scalar, for every hash-to-scalar with values in [0,l) *)
Theorem C08_legacy_exact_partial : forall (E : EdOps) (LW : EdLaws E) (Hs : hs_fun) (Hb : bytes -> bytes) a y shared Hp,
  (forall m, 0 <= Hs m < ell) -> (a < 2 ^ 64)%N -> 0 <= y < ell -> decompress Ed25519.H_bytes = Some Hp ->
  open_with Hs Hb (EStandard (fst (sender_legacy Hs a y shared)) (snd (sender_legacy Hs a y shared))) shared (pedersen Hp y a)
    = Ok (Some (a, y, pedersen Hp y a)).
Proof. intros E LW Hs Hb. exact (legacy_exact Hs Hb). Qed.

(* the decoders alone (no curve involved in the statement) *)
Theorem C08_decode_inverts_sender : forall (E : EdOps) (LW : EdLaws E) (Hs : hs_fun) (Hb : bytes -> bytes) a y shared,
  (a < 2 ^ 64)%N ->
  ecdh_decode Hs Hb (EBulletproof (sender_compact Hb a shared)) shared = (a, gen_commitment_mask Hs shared) /\
  ((forall m, 0 <= Hs m < ell) -> 0 <= y < ell ->
   ecdh_decode Hs Hb (EStandard (fst (sender_legacy Hs a y shared)) (snd (sender_legacy Hs a y shared))) shared = (a, y)).
Proof. intros E LW Hs Hb a y shared Ha. split; [exact (compact_decode Hs Hb a shared Ha)|intros Hr Hy; exact (legacy_decode Hs Hb a y shared Hr Ha Hy)]. Qed.

(* non-vacuity / sanity on the Keccak instance: xor involution and scalar arithmetic on concrete numbers *)
Example C08_ex_compact_roundtrip :
  xor_amount Keccak.keccak256 (sender_compact Keccak.keccak256 (2 ^ 64 - 1) 5) 5 = (2 ^ 64 - 1)%N /\
  xor_amount Keccak.keccak256 (sender_compact Keccak.keccak256 0 5) 5 = 0%N.
Proof. vm_compute. split; reflexivity. Qed.
Example C08_ex_legacy_roundtrip :
  ecdh_decode hs_keccak Keccak.keccak256
    (EStandard (fst (sender_legacy hs_keccak (2 ^ 63) (ell - 1) 7)) (snd (sender_legacy hs_keccak (2 ^ 63) (ell - 1) 7))) 7
  = ((2 ^ 63)%N, ell - 1).
Proof. vm_compute. reflexivity. Qed.
Example C08_ex_clear : forall (E : EdOps) k,
  owned_amount (mk_owned 0 (mk_txout 0 (TKey k)) (0%N, 0%N) k None) = None /\
  owned_amount (mk_owned 0 (mk_txout 7 (TKey k)) (0%N, 0%N) k None) = Some 7%N.
Proof. intros E k. split; reflexivity. Qed.

Check C08_opening_valid : forall (E : EdOps) (Hs : hs_fun) (Hb : bytes -> bytes) e v S K i cand a y C,
  (forall P Q : point, peqb P Q = true -> P = Q) ->
  open_commitment Hs Hb e v S K i cand = Ok (Some (a, y, C)) ->
  exists Hp, decompress Ed25519.H_bytes = Some Hp /\ C = cand /\ C = commit Hp y a.
Check C08_opening_valid_partial : forall (E : EdOps) (LW : EdLaws E) (Hs : hs_fun) (Hb : bytes -> bytes) e v S K i cand a y C, valid cand ->
  open_commitment Hs Hb e v S K i cand = Ok (Some (a, y, C)) ->
  exists Hp, decompress Ed25519.H_bytes = Some Hp /\ valid Hp /\ C = cand /\ C = commit Hp y a.
Check C08_amount_is_u64 : forall (E : EdOps) (Hs : hs_fun) (Hb : bytes -> bytes) e shared, (fst (ecdh_decode Hs Hb e shared) < 2 ^ 64)%N.
Check C08_scan_amount_only_with_opening_partial : forall (E : EdOps) (LW : EdLaws E) (Hs : hs_fun) (Hb : bytes -> bytes) v S a b c d p rct l w,
  prefix_check_outputs Hs Hb v S a b c d p rct = SOk l -> In w l ->
  (no_rct rct /\ ow_opening w = None) \/
  (exists bs e0 c0 C am y Hp,
     rct = Some bs /\ rb_type bs <> RNull /\
     nth_error (rb_ecdh bs) (N.to_nat (ow_pos w)) = Some e0 /\ nth_error (rb_out_pk bs) (N.to_nat (ow_pos w)) = Some c0 /\
     decompress c0 = Some C /\ decompress Ed25519.H_bytes = Some Hp /\
     ow_opening w = Some (am, y, C) /\ C = commit Hp y am /\ (am < 2 ^ 64)%N /\
     owned_amount w = Some am /\ owned_blinding_factor w = Some y /\ owned_commitment w = Some C).
Check C08_scan_error_kinds : forall (E : EdOps) (Hs : hs_fun) (Hb : bytes -> bytes) rct e c v S i key er,
  opening_step Hs Hb rct e c v S i key = SErr er ->
  er = MissingEcdhInfo /\ e = None \/ er = MissingCommitment /\ c = None \/ er = InvalidCommitment.
Check C08_clear_amount : forall (E : EdOps) (w : owned), ow_opening w = None ->
  owned_amount w = (if (o_amount (ow_out w) =? 0)%N then None else Some (o_amount (ow_out w))) /\
  owned_blinding_factor w = None /\ owned_commitment w = None.
Check C08_compact_exact_partial : forall (E : EdOps) (LW : EdLaws E) (Hs : hs_fun) (Hb : bytes -> bytes) a shared Hp,
  (a < 2 ^ 64)%N -> decompress Ed25519.H_bytes = Some Hp ->
  open_with Hs Hb (EBulletproof (sender_compact Hb a shared)) shared (pedersen Hp (gen_commitment_mask Hs shared) a)
    = Ok (Some (a, gen_commitment_mask Hs shared, pedersen Hp (gen_commitment_mask Hs shared) a)).
Check C08_legacy_exact_partial : forall (E : EdOps) (LW : EdLaws E) (Hs : hs_fun) (Hb : bytes -> bytes) a y shared Hp,
  (forall m, 0 <= Hs m < ell) -> (a < 2 ^ 64)%N -> 0 <= y < ell -> decompress Ed25519.H_bytes = Some Hp ->
  open_with Hs Hb (EStandard (fst (sender_legacy Hs a y shared)) (snd (sender_legacy Hs a y shared))) shared (pedersen Hp y a)
    = Ok (Some (a, y, pedersen Hp y a)).
Check C08_decode_inverts_sender : forall (E : EdOps) (LW : EdLaws E) (Hs : hs_fun) (Hb : bytes -> bytes) a y shared,
  (a < 2 ^ 64)%N ->
  ecdh_decode Hs Hb (EBulletproof (sender_compact Hb a shared)) shared = (a, gen_commitment_mask Hs shared) /\
  ((forall m, 0 <= Hs m < ell) -> 0 <= y < ell ->
   ecdh_decode Hs Hb (EStandard (fst (sender_legacy Hs a y shared)) (snd (sender_legacy Hs a y shared))) shared = (a, y)).

Print Assumptions C08_opening_valid.
Print Assumptions C08_opening_valid_partial.
Print Assumptions C08_amount_is_u64.
Print Assumptions C08_scan_amount_only_with_opening_partial.
Print Assumptions C08_scan_error_kinds.
Print Assumptions C08_clear_amount.
Print Assumptions C08_compact_exact_partial.
Print Assumptions C08_legacy_exact_partial.
Print Assumptions C08_decode_inverts_sender.

(* ==== end-to-end compositions (Proofs/ScanEndToEnd.v) ============================================================ *)
From MRS Require Import Proofs.ScanEndToEnd.

(* the scalar the scanner derives from the published key and the position is the sender's shared scalar Hs(D || i), D = 8*(r*V_d):
   the exactness theorems above (stated for a given shared scalar) apply to open_commitment on sender-built outputs *)
Theorem C08_sender_shared_scalar_partial : forall (E : EdOps) (LW : EdLaws E) (Hs : hs_fun) (Hb : bytes -> bytes) v Sp maj min r i, valid Sp -> (i < 2 ^ 64)%N ->
  let dst := wallet_address Hs v Sp maj min in
  let snt := send Hs Hb r dst i in
  shared_scalar Hs v (compress Sp) (compress (sn_key snt)) i = Ok (sn_shared snt).
Proof. intros E LW Hs Hb. exact (sender_shared Hs Hb). Qed.

(* END TO END.  If the scan succeeds on a transaction with a RingCT base of non-Null type whose output at position k was built by the
   sender of Spec/Sender.v for in-range address (maj,min) of the wallet (v, Sp) (correct or absent tag; its key K is the first
   TxPublicKey, or the additional key at position k while the main key matches no in-range index - the explicit no-other-match
   hypothesis), and whose ecdh entry e and out_pk entry c0 at position k were produced by the sender from the SAME shared scalar
   sh = Hs(D||k) for amount am < 2^64 and mask y (compact: e = am xor H("amount"||sh)[0..8], y = Hs("commitment_mask"||sh);
   legacy: e = (y + Hs(sh), am + Hs(Hs(sh))), 0 <= y < l, hash-to-scalar values in [0,l)), c0 decoding to y*G + am*H, then the
   result contains an owned output at position k with key K whose amount() is Some am, blinding_factor() Some y, commitment()
   Some (y*G + am*H); its index has spend key S_(maj,min) and is (maj,min) if no other in-range index has that spend key *)
Theorem C08_sender_amount_recovered_partial : forall (E : EdOps) (LW : EdLaws E) (Hs : hs_fun) (Hb : bytes -> bytes) v Sp a b c d p l fields main k o maj min r bs e c0 Hp am y,
  valid Sp ->
  prefix_check_outputs Hs Hb v (compress Sp) a b c d p (Some bs) = SOk l ->
  raw_try_parse valid_pk_b (extra p) = Ok fields -> tx_pubkey fields = Some main ->
  nth_error (outputs p) k = Some o -> (N.of_nat k < 2 ^ 64)%N ->
  in_ranges a b c d (maj, min) ->
  let dst := wallet_address Hs v Sp maj min in
  let snt := send Hs Hb r dst (N.of_nat k) in
  let K := compress (sn_key snt) in
  let sh := sn_shared snt in
  (o_target o = TKey (compress (sn_onetime snt)) \/ o_target o = TTagged (compress (sn_onetime snt)) (b2n (sn_tag snt))) ->
  (K = main \/
   (nth_error (adds_of fields) k = Some K /\
    forall idx2, in_ranges a b c d idx2 -> ~ matches Hs Hb v (compress Sp) (N.of_nat k) o main idx2)) ->
  rb_type bs <> RNull ->
  nth_error (rb_ecdh bs) k = Some e -> nth_error (rb_out_pk bs) k = Some c0 ->
  (am < 2 ^ 64)%N -> decompress Ed25519.H_bytes = Some Hp ->
  ((e = EBulletproof (sender_compact Hb am sh) /\ y = gen_commitment_mask Hs sh) \/
   (e = EStandard (fst (sender_legacy Hs am y sh)) (snd (sender_legacy Hs am y sh)) /\ 0 <= y < ell /\ (forall m, 0 <= Hs m < ell))) ->
  decompress c0 = Some (pedersen Hp y am) ->
  exists w, In w l /\ ow_pos w = N.of_nat k /\ ow_out w = o /\ ow_key w = K /\
    ow_opening w = Some (am, y, pedersen Hp y am) /\
    owned_amount w = Some am /\ owned_blinding_factor w = Some y /\ owned_commitment w = Some (pedersen Hp y am) /\
    get_spend_public_key Hs v (compress Sp) (ow_index w) = Ok (compress (a_spend dst)) /\
    ((forall idx2, in_ranges a b c d idx2 -> get_spend_public_key Hs v (compress Sp) idx2 = Ok (compress (a_spend dst)) ->
        idx2 = (maj, min)) -> ow_index w = (maj, min)).
Proof. intros E LW Hs Hb. exact (sender_amount_recovered Hs Hb). Qed.

(* the stronger per-iteration form, WITHOUT assuming that the scan succeeds: on such an output, iteration k of the scan loop
   (check_output, then opening_step on the entries at position k) reports key K and opens to the sender's values - the opening step
   of a sender-built output is never the cause of an SErr or a panic (t = the wallet's table; the main key is K or is rejected) *)
Theorem C08_sender_step_ok_partial : forall (E : EdOps) (LW : EdLaws E) (Hs : hs_fun) (Hb : bytes -> bytes) v Sp a b c d t maj min r i o main add am y bs e c0 Hp,
  valid Sp -> checker_new Hs v (compress Sp) a b c d = Ok t -> in_ranges a b c d (maj, min) -> (i < 2 ^ 64)%N ->
  let dst := wallet_address Hs v Sp maj min in
  let snt := send Hs Hb r dst i in
  let K := compress (sn_key snt) in
  let sh := sn_shared snt in
  (o_target o = TKey (compress (sn_onetime snt)) \/ o_target o = TTagged (compress (sn_onetime snt)) (b2n (sn_tag snt))) ->
  (K = main \/ (add = Some K /\ check_key Hs Hb t v (compress Sp) i o main = Ok None)) ->
  rb_type bs <> RNull ->
  (am < 2 ^ 64)%N -> decompress Ed25519.H_bytes = Some Hp ->
  ((e = EBulletproof (sender_compact Hb am sh) /\ y = gen_commitment_mask Hs sh) \/
   (e = EStandard (fst (sender_legacy Hs am y sh)) (snd (sender_legacy Hs am y sh)) /\ 0 <= y < ell /\ (forall m, 0 <= Hs m < ell))) ->
  decompress c0 = Some (pedersen Hp y am) ->
  exists idx',
    check_output Hs Hb t v (compress Sp) i o main add = Ok (Some (idx', K)) /\
    get_spend_public_key Hs v (compress Sp) idx' = Ok (compress (a_spend dst)) /\
    opening_step Hs Hb (Some bs) (Some e) (Some c0) v (compress Sp) i K = SOk (Some (am, y, pedersen Hp y am)).
Proof. intros E LW Hs Hb. exact (sender_step_ok Hs Hb). Qed.

(* non-vacuity: the lenient toy instance of EdLaws (Proofs/ScanEndToEnd.v toy2: Z/l, every 32-byte string decodes, so H_bytes is a
   point) with the toy hashes; a RingCT (Clsag) transaction built with Spec/Sender.v - position 0: subaddress (0,1), additional
   key, compact entry, amount 2^64-1; position 1: primary address, main key, view tag, legacy entry, amount 12345, mask l-1 -
   scans to exactly the sender's amounts, masks and commitments *)
Example C08_ex_toy2_laws : EdLaws toy2_ops.
Proof. exact toy2_laws. Qed.
Example C08_ex_toy_end_to_end :
  t2_view t2_scan = Some [(0%N, (0%N, 1%N), t2_add0, Some t2_a0, Some t2_y0, Some t2_C0);
                          (1%N, (0%N, 0%N), t2_main, Some t2_a1, Some t2_y1, Some t2_C1)].
Proof. exact t2_scan_result. Qed.
(* ... and every hypothesis of C08_sender_amount_recovered_partial holds there for both positions *)
Example C08_ex_toy_hypotheses :
  @valid toy2_ops t2_Sp /\ (exists l, t2_scan = SOk l) /\
  @raw_try_parse (@valid_pk_b toy2_ops) (extra t2_prefix) = Ok t2_fields /\ tx_pubkey t2_fields = Some t2_main /\
  @decompress toy2_ops Ed25519.H_bytes = Some t2_Hp /\ rb_type t2_base <> RNull /\
  (nth_error (outputs t2_prefix) 0 = Some t2_o0 /\ nth_error (adds_of t2_fields) 0 = Some t2_add0 /\
   (forall idx2, in_ranges 0 1 0 2 idx2 -> ~ @matches toy2_ops toyHs toyHb t2_v t2_Sb 0%N t2_o0 t2_main idx2) /\
   nth_error (rb_ecdh t2_base) 0 = Some t2_e0 /\ sender_ecdh toyHs toyHb (sn_shared t2_s0) t2_a0 t2_y0 t2_e0 /\
   (t2_a0 < 2 ^ 64)%N /\
   exists c0, nth_error (rb_out_pk t2_base) 0 = Some c0 /\ @decompress toy2_ops c0 = Some t2_C0) /\
  (nth_error (outputs t2_prefix) 1 = Some t2_o1 /\
   nth_error (rb_ecdh t2_base) 1 = Some t2_e1 /\ sender_ecdh toyHs toyHb (sn_shared t2_s1) t2_a1 t2_y1 t2_e1 /\
   (t2_a1 < 2 ^ 64)%N /\
   exists c1, nth_error (rb_out_pk t2_base) 1 = Some c1 /\ @decompress toy2_ops c1 = Some t2_C1).
Proof. exact t2_hypotheses. Qed.

Check C08_sender_shared_scalar_partial : forall (E : EdOps) (LW : EdLaws E) (Hs : hs_fun) (Hb : bytes -> bytes) v Sp maj min r i, valid Sp -> (i < 2 ^ 64)%N ->
  let dst := wallet_address Hs v Sp maj min in
  let snt := send Hs Hb r dst i in
  shared_scalar Hs v (compress Sp) (compress (sn_key snt)) i = Ok (sn_shared snt).
Check C08_sender_amount_recovered_partial : forall (E : EdOps) (LW : EdLaws E) (Hs : hs_fun) (Hb : bytes -> bytes) v Sp a b c d p l fields main k o maj min r bs e c0 Hp am y,
  valid Sp ->
  prefix_check_outputs Hs Hb v (compress Sp) a b c d p (Some bs) = SOk l ->
  raw_try_parse valid_pk_b (extra p) = Ok fields -> tx_pubkey fields = Some main ->
  nth_error (outputs p) k = Some o -> (N.of_nat k < 2 ^ 64)%N ->
  in_ranges a b c d (maj, min) ->
  let dst := wallet_address Hs v Sp maj min in
  let snt := send Hs Hb r dst (N.of_nat k) in
  let K := compress (sn_key snt) in
  let sh := sn_shared snt in
  (o_target o = TKey (compress (sn_onetime snt)) \/ o_target o = TTagged (compress (sn_onetime snt)) (b2n (sn_tag snt))) ->
  (K = main \/
   (nth_error (adds_of fields) k = Some K /\
    forall idx2, in_ranges a b c d idx2 -> ~ matches Hs Hb v (compress Sp) (N.of_nat k) o main idx2)) ->
  rb_type bs <> RNull ->
  nth_error (rb_ecdh bs) k = Some e -> nth_error (rb_out_pk bs) k = Some c0 ->
  (am < 2 ^ 64)%N -> decompress Ed25519.H_bytes = Some Hp ->
  ((e = EBulletproof (sender_compact Hb am sh) /\ y = gen_commitment_mask Hs sh) \/
   (e = EStandard (fst (sender_legacy Hs am y sh)) (snd (sender_legacy Hs am y sh)) /\ 0 <= y < ell /\ (forall m, 0 <= Hs m < ell))) ->
  decompress c0 = Some (pedersen Hp y am) ->
  exists w, In w l /\ ow_pos w = N.of_nat k /\ ow_out w = o /\ ow_key w = K /\
    ow_opening w = Some (am, y, pedersen Hp y am) /\
    owned_amount w = Some am /\ owned_blinding_factor w = Some y /\ owned_commitment w = Some (pedersen Hp y am) /\
    get_spend_public_key Hs v (compress Sp) (ow_index w) = Ok (compress (a_spend dst)) /\
    ((forall idx2, in_ranges a b c d idx2 -> get_spend_public_key Hs v (compress Sp) idx2 = Ok (compress (a_spend dst)) ->
        idx2 = (maj, min)) -> ow_index w = (maj, min)).
Check C08_sender_step_ok_partial : forall (E : EdOps) (LW : EdLaws E) (Hs : hs_fun) (Hb : bytes -> bytes) v Sp a b c d t maj min r i o main add am y bs e c0 Hp,
  valid Sp -> checker_new Hs v (compress Sp) a b c d = Ok t -> in_ranges a b c d (maj, min) -> (i < 2 ^ 64)%N ->
  let dst := wallet_address Hs v Sp maj min in
  let snt := send Hs Hb r dst i in
  let K := compress (sn_key snt) in
  let sh := sn_shared snt in
  (o_target o = TKey (compress (sn_onetime snt)) \/ o_target o = TTagged (compress (sn_onetime snt)) (b2n (sn_tag snt))) ->
  (K = main \/ (add = Some K /\ check_key Hs Hb t v (compress Sp) i o main = Ok None)) ->
  rb_type bs <> RNull ->
  (am < 2 ^ 64)%N -> decompress Ed25519.H_bytes = Some Hp ->
  ((e = EBulletproof (sender_compact Hb am sh) /\ y = gen_commitment_mask Hs sh) \/
   (e = EStandard (fst (sender_legacy Hs am y sh)) (snd (sender_legacy Hs am y sh)) /\ 0 <= y < ell /\ (forall m, 0 <= Hs m < ell))) ->
  decompress c0 = Some (pedersen Hp y am) ->
  exists idx',
    check_output Hs Hb t v (compress Sp) i o main add = Ok (Some (idx', K)) /\
    get_spend_public_key Hs v (compress Sp) idx' = Ok (compress (a_spend dst)) /\
    opening_step Hs Hb (Some bs) (Some e) (Some c0) v (compress Sp) i K = SOk (Some (am, y, pedersen Hp y am)).

Print Assumptions C08_sender_shared_scalar_partial.
Print Assumptions C08_sender_amount_recovered_partial.
Print Assumptions C08_sender_step_ok_partial.
