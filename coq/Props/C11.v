(* C11 — subaddress keys follow Monero's derivation on both the secret and the public side.
   Statements about scalars, byte layout, the zero index and the address record are unconditional facts about the
   model (Model/Subaddr.v).  Statements that relate keys through the curve are proved for EVERY instance (E, LW) of
   the EdLaws record and every hash-to-scalar Hs: the group laws are hypotheses, hence `_partial`.
   That distinct preimages hash to distinct scalars is NOT provable (it is collision resistance); distinctness of keys
   is stated GIVEN distinct scalars modulo l.
   This file contains only statements (pinned by Check), `exact` proofs and assumption audits. *)
From MRS Require Import Proofs.SubaddrProofs Proofs.EdInstProofs.
Open Scope Z_scope.

(* m(i,j) = Hs("SubAddr\0" || v || le32 i || le32 j); the preimage is 8 + 32 + 4 + 4 bytes *)
Theorem C11_scalar : forall (Hs : hs_fun) v i j,
  get_secret_scalar Hs v (i, j) = Hs (subaddr_prefix ++ sk_to_bytes v ++ le32 i ++ le32 j) /\
  subaddr_prefix = [x53; x75; x62; x41; x64; x64; x72; x00] /\
  length (subaddr_prefix ++ sk_to_bytes v ++ le32 i ++ le32 j) = 48%nat /\
  le32 i = n2le 4 i.
Proof.
  intros Hs v i j. split; [reflexivity|split; [reflexivity|split; [|reflexivity]]].
  exact (proj2 (proj2 (subaddr_preimage_layout v i j))).
Qed.

(* with the Keccak instance: m is the digest read little-endian and reduced modulo l *)
Theorem C11_scalar_keccak : forall v i j,
  get_secret_scalar hs_keccak v (i, j) =
    Z.of_N (le2n (Keccak.keccak256 (subaddr_prefix ++ sk_to_bytes v ++ le32 i ++ le32 j))) mod ell /\
  0 <= get_secret_scalar hs_keccak v (i, j) < ell.
Proof. intros v i j. split; [exact (hs_keccak_spec _)|exact (hs_keccak_range _)]. Qed.

(* secret side: s' = s + m, v' = v * s' (mod l) *)
Theorem C11_secret : forall (Hs : hs_fun) v s i,
  get_secret_keys Hs v s i = (get_view_secret_key Hs v s i, get_spend_secret_key Hs v s i) /\
  (is_zero i = false ->
     get_spend_secret_key Hs v s i = (s + get_secret_scalar Hs v i) mod ell /\
     get_view_secret_key Hs v s i = (v * ((s + get_secret_scalar Hs v i) mod ell)) mod ell).
Proof. intros Hs. exact (@secret_keys_spec Hs). Qed.

(* public side: S' = S + m*G, V' = v*S' *)
Theorem C11_public_partial : forall (E : EdOps) (LW : EdLaws E) (Hs : hs_fun) v S i, valid S -> is_zero i = false ->
  get_spend_public_key Hs v (compress S) i = Ok (compress (padd S (smul (get_secret_scalar Hs v i) G))) /\
  get_public_keys Hs v (compress S) i =
    Ok (compress (smul v (padd S (smul (get_secret_scalar Hs v i) G))),
        compress (padd S (smul (get_secret_scalar Hs v i) G))).
Proof.
  intros E LW Hs v S i HS Hz. split; [exact (spend_public_spec Hs v S i HS Hz)|exact (public_keys_spec Hs v S i HS Hz)].
Qed.

(* every accepted spend key gives accepted subaddress keys; no error, no panic *)
Theorem C11_public_total_partial : forall (E : EdOps) (LW : EdLaws E) (Hs : hs_fun) v S i, pk_from_slice S = Ok S ->
  exists vw sp, get_public_keys Hs v S i = Ok (vw, sp) /\ get_spend_public_key Hs v S i = Ok sp /\
                pk_from_slice vw = Ok vw /\ pk_from_slice sp = Ok sp.
Proof. intros E LW Hs. exact (public_keys_accepted Hs). Qed.

(* s'*G = S' and v'*G = V' for every index (zero included) *)
Theorem C11_secret_matches_public_partial : forall (E : EdOps) (LW : EdLaws E) (Hs : hs_fun) v s i,
  get_spend_public_key Hs v (pk_from_priv s) i = Ok (pk_from_priv (get_spend_secret_key Hs v s i)) /\
  get_public_keys Hs v (pk_from_priv s) i =
    Ok (pk_from_priv (get_view_secret_key Hs v s i), pk_from_priv (get_spend_secret_key Hs v s i)).
Proof. intros E LW Hs. exact (secret_matches_public Hs). Qed.

(* index (0,0): the primary keys on all derivation paths *)
Theorem C11_zero : forall (E : EdOps) (Hs : hs_fun) v s S net,
  get_spend_secret_key Hs v s (0%N, 0%N) = s /\
  get_view_secret_key Hs v s (0%N, 0%N) = v /\
  get_secret_keys Hs v s (0%N, 0%N) = (v, s) /\
  get_spend_public_key Hs v S (0%N, 0%N) = Ok S /\
  get_public_keys Hs v S (0%N, 0%N) = Ok (pk_from_priv v, S) /\
  get_subaddress Hs v S (0%N, 0%N) net =
    Ok (mk_sub_address (match net with Some n => n | None => Mainnet end) SubAddress S (pk_from_priv v)).
Proof. intros E Hs. exact (zero_index_paths Hs). Qed.

Theorem C11_zero_is_only_special_case : forall i, is_zero i = true <-> i = (0%N, 0%N).
Proof. exact is_zero_iff. Qed.

(* distinct (wallet, index) give distinct hash inputs *)
Theorem C11_preimage_injective : forall v v' i j i' j',
  0 <= v < 2 ^ 256 -> 0 <= v' < 2 ^ 256 ->
  (i < 2 ^ 32)%N -> (j < 2 ^ 32)%N -> (i' < 2 ^ 32)%N -> (j' < 2 ^ 32)%N ->
  subaddr_preimage v (i, j) = subaddr_preimage v' (i', j') -> v = v' /\ i = i' /\ j = j'.
Proof. exact subaddr_preimage_inj. Qed.

Theorem C11_preimage_distinct : forall v i j i' j',
  (i < 2 ^ 32)%N -> (j < 2 ^ 32)%N -> (i' < 2 ^ 32)%N -> (j' < 2 ^ 32)%N ->
  (i, j) <> (i', j') -> subaddr_preimage v (i, j) <> subaddr_preimage v (i', j').
Proof. exact subaddr_preimage_distinct. Qed.

(* distinct scalars (mod l) give distinct spend keys — uses that G has order exactly l *)
Theorem C11_distinct_partial : forall (E : EdOps) (LW : EdLaws E) (Hs : hs_fun) v S i i',
  pk_from_slice S = Ok S -> is_zero i = false -> is_zero i' = false ->
  get_secret_scalar Hs v i mod ell <> get_secret_scalar Hs v i' mod ell ->
  get_spend_public_key Hs v S i <> get_spend_public_key Hs v S i'.
Proof. intros E LW Hs. exact (subaddress_distinct Hs). Qed.

Theorem C11_distinct_from_primary_partial : forall (E : EdOps) (LW : EdLaws E) (Hs : hs_fun) v S i,
  pk_from_slice S = Ok S -> is_zero i = false -> get_secret_scalar Hs v i mod ell <> 0 ->
  get_spend_public_key Hs v S i <> Ok S.
Proof. intros E LW Hs. exact (subaddress_distinct_from_primary Hs). Qed.

(* get_subaddress: subaddress-typed, on the requested network or Mainnet, carrying exactly (S', V') *)
Theorem C11_address : forall (E : EdOps) (Hs : hs_fun) v S i net,
  (forall ad, get_subaddress Hs v S i net = Ok ad ->
     sa_type ad = SubAddress /\ sa_network ad = match net with Some n => n | None => Mainnet end /\
     get_public_keys Hs v S i = Ok (sa_view ad, sa_spend ad)) /\
  (forall vw sp, get_public_keys Hs v S i = Ok (vw, sp) ->
     get_subaddress Hs v S i net =
       Ok (mk_sub_address (match net with Some n => n | None => Mainnet end) SubAddress sp vw)).
Proof.
  intros E Hs v S i net. split; [exact (subaddress_fields Hs v S i net)|exact (subaddress_of_public_keys Hs v S i net)].
Qed.

(* non-vacuity: byte order of the index at multi-byte values *)
Example C11_ex_le32 : le32 0x10000 = [x00; x00; x01; x00] /\ le32 (2 ^ 32 - 1) = [xff; xff; xff; xff] /\ le32 18 = [x12; x00; x00; x00].
Proof. repeat split; vm_compute; reflexivity. Qed.
Example C11_ex_zero : is_zero (0%N, 1%N) = false /\ is_zero (1%N, 0%N) = false /\ is_zero (0%N, 0%N) = true.
Proof. repeat split; reflexivity. Qed.

Check C11_scalar : forall (Hs : hs_fun) v i j,
  get_secret_scalar Hs v (i, j) = Hs (subaddr_prefix ++ sk_to_bytes v ++ le32 i ++ le32 j) /\
  subaddr_prefix = [x53; x75; x62; x41; x64; x64; x72; x00] /\
  length (subaddr_prefix ++ sk_to_bytes v ++ le32 i ++ le32 j) = 48%nat /\
  le32 i = n2le 4 i.
Check C11_secret : forall (Hs : hs_fun) v s i,
  get_secret_keys Hs v s i = (get_view_secret_key Hs v s i, get_spend_secret_key Hs v s i) /\
  (is_zero i = false ->
     get_spend_secret_key Hs v s i = (s + get_secret_scalar Hs v i) mod ell /\
     get_view_secret_key Hs v s i = (v * ((s + get_secret_scalar Hs v i) mod ell)) mod ell).
Check C11_public_partial : forall (E : EdOps) (LW : EdLaws E) (Hs : hs_fun) v S i, valid S -> is_zero i = false ->
  get_spend_public_key Hs v (compress S) i = Ok (compress (padd S (smul (get_secret_scalar Hs v i) G))) /\
  get_public_keys Hs v (compress S) i =
    Ok (compress (smul v (padd S (smul (get_secret_scalar Hs v i) G))),
        compress (padd S (smul (get_secret_scalar Hs v i) G))).
Check C11_public_total_partial : forall (E : EdOps) (LW : EdLaws E) (Hs : hs_fun) v S i, pk_from_slice S = Ok S ->
  exists vw sp, get_public_keys Hs v S i = Ok (vw, sp) /\ get_spend_public_key Hs v S i = Ok sp /\
                pk_from_slice vw = Ok vw /\ pk_from_slice sp = Ok sp.
Check C11_secret_matches_public_partial : forall (E : EdOps) (LW : EdLaws E) (Hs : hs_fun) v s i,
  get_spend_public_key Hs v (pk_from_priv s) i = Ok (pk_from_priv (get_spend_secret_key Hs v s i)) /\
  get_public_keys Hs v (pk_from_priv s) i =
    Ok (pk_from_priv (get_view_secret_key Hs v s i), pk_from_priv (get_spend_secret_key Hs v s i)).
Check C11_zero : forall (E : EdOps) (Hs : hs_fun) v s S net,
  get_spend_secret_key Hs v s (0%N, 0%N) = s /\
  get_view_secret_key Hs v s (0%N, 0%N) = v /\
  get_secret_keys Hs v s (0%N, 0%N) = (v, s) /\
  get_spend_public_key Hs v S (0%N, 0%N) = Ok S /\
  get_public_keys Hs v S (0%N, 0%N) = Ok (pk_from_priv v, S) /\
  get_subaddress Hs v S (0%N, 0%N) net =
    Ok (mk_sub_address (match net with Some n => n | None => Mainnet end) SubAddress S (pk_from_priv v)).
Check C11_zero_is_only_special_case : forall i, is_zero i = true <-> i = (0%N, 0%N).
Check C11_preimage_injective : forall v v' i j i' j',
  0 <= v < 2 ^ 256 -> 0 <= v' < 2 ^ 256 ->
  (i < 2 ^ 32)%N -> (j < 2 ^ 32)%N -> (i' < 2 ^ 32)%N -> (j' < 2 ^ 32)%N ->
  subaddr_preimage v (i, j) = subaddr_preimage v' (i', j') -> v = v' /\ i = i' /\ j = j'.
Check C11_preimage_distinct : forall v i j i' j',
  (i < 2 ^ 32)%N -> (j < 2 ^ 32)%N -> (i' < 2 ^ 32)%N -> (j' < 2 ^ 32)%N ->
  (i, j) <> (i', j') -> subaddr_preimage v (i, j) <> subaddr_preimage v (i', j').
Check C11_distinct_partial : forall (E : EdOps) (LW : EdLaws E) (Hs : hs_fun) v S i i',
  pk_from_slice S = Ok S -> is_zero i = false -> is_zero i' = false ->
  get_secret_scalar Hs v i mod ell <> get_secret_scalar Hs v i' mod ell ->
  get_spend_public_key Hs v S i <> get_spend_public_key Hs v S i'.
Check C11_distinct_from_primary_partial : forall (E : EdOps) (LW : EdLaws E) (Hs : hs_fun) v S i,
  pk_from_slice S = Ok S -> is_zero i = false -> get_secret_scalar Hs v i mod ell <> 0 ->
  get_spend_public_key Hs v S i <> Ok S.
Check C11_address : forall (E : EdOps) (Hs : hs_fun) v S i net,
  (forall ad, get_subaddress Hs v S i net = Ok ad ->
     sa_type ad = SubAddress /\ sa_network ad = match net with Some n => n | None => Mainnet end /\
     get_public_keys Hs v S i = Ok (sa_view ad, sa_spend ad)) /\
  (forall vw sp, get_public_keys Hs v S i = Ok (vw, sp) ->
     get_subaddress Hs v S i net =
       Ok (mk_sub_address (match net with Some n => n | None => Mainnet end) SubAddress sp vw)).
Check C11_scalar_keccak : forall v i j,
  get_secret_scalar hs_keccak v (i, j) =
    Z.of_N (le2n (Keccak.keccak256 (subaddr_prefix ++ sk_to_bytes v ++ le32 i ++ le32 j))) mod ell /\
  0 <= get_secret_scalar hs_keccak v (i, j) < ell.

Print Assumptions C11_scalar.
Print Assumptions C11_secret.
Print Assumptions C11_public_partial.
Print Assumptions C11_public_total_partial.
Print Assumptions C11_secret_matches_public_partial.
Print Assumptions C11_zero.
Print Assumptions C11_zero_is_only_special_case.
Print Assumptions C11_preimage_injective.
Print Assumptions C11_preimage_distinct.
Print Assumptions C11_distinct_partial.
Print Assumptions C11_distinct_from_primary_partial.
Print Assumptions C11_address.
Print Assumptions C11_scalar_keccak.
