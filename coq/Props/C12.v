(* C12 — address text form: base58 / blob / hex / consensus forms round-trip, have Monero's layout, and only the
   canonical spelling is accepted.  Statements only (pinned by Check), `exact` proofs, assumption audits.
   The address theorems hold for EVERY hash H with 32-byte output and EVERY key test that implies length 32;
   C12_instances shows that Keccak-256 and the Ed25519 decompress/recompress test are such. *)
From MRS Require Import Proofs.Base58Proofs Proofs.AddressProofs Model.Keccak Model.Ed25519.
Open Scope list_scope.
Open Scope N_scope.

(* the 58-character table, without repetition *)
Theorem C12_b58_alphabet :
  alphabet = [x31; x32; x33; x34; x35; x36; x37; x38; x39;
              x41; x42; x43; x44; x45; x46; x47; x48; x4a; x4b; x4c; x4d; x4e; x50; x51; x52; x53; x54; x55; x56;
              x57; x58; x59; x5a;
              x61; x62; x63; x64; x65; x66; x67; x68; x69; x6a; x6b; x6d; x6e; x6f; x70; x71; x72; x73; x74; x75;
              x76; x77; x78; x79; x7a] /\ NoDup alphabet.
Proof.
  exact alphabet_table.
Qed.

(* digit <-> character is one-to-one *)
Theorem C12_b58_alphabet_injective :
  (forall d, d < 58 -> index_of (b58_char d) alphabet = Some d) /\
  (forall c d, index_of c alphabet = Some d -> d < 58 /\ b58_char d = c) /\
  (forall d1 d2, d1 < 58 -> d2 < 58 -> b58_char d1 = b58_char d2 -> d1 = d2).
Proof.
  split; [exact index_of_char|split; [exact index_of_sound|exact b58_char_inj]].
Qed.

(* a block is k base-58 digits, most significant first (enc_k/dec_k are the two loops of encode_block/decode_block) *)
Theorem C12_b58_block_digits :
  forall k n, enc_k k n = rev (map b58_char (rdigits k n)) /\ length (enc_k k n) = k.
Proof.
  intros k n. split; [exact (enc_k_digits k n)|exact (enc_k_length k n)].
Qed.

(* dec_k (enc_k n) = n for n < 58^k *)
Theorem C12_b58_block_dec_enc :
  forall k n, (k <= 11)%nat -> n < 58 ^ N.of_nat k -> dec_k (enc_k k n) = Some n.
Proof.
  exact dec_enc_k.
Qed.

(* enc_k (dec_k s) = s for every alphabet string of length k <= 11; other strings have no value *)
Theorem C12_b58_block_enc_dec :
  forall s, (length s <= 11)%nat ->
    (Forall (fun c => In c alphabet) s ->
       exists v, dec_k s = Some v /\ v < 58 ^ lenN s /\ enc_k (length s) v = s) /\
    (~ Forall (fun c => In c alphabet) s -> dec_k s = None).
Proof.
  intros s Hl. split; [exact (enc_dec_k_alphabet s Hl)|exact (dec_k_outside_alphabet s Hl)].
Qed.

(* encode_block / decode_block in terms of the digit loops: sizes table, overflow test, 8-byte big-endian result *)
Theorem C12_b58_block_codec :
  (forall data, (0 < length data <= 8)%nat ->
       encode_block data = Ok (enc_k (sz (length data)) (be2n data) ++ repeat x31 (11 - sz (length data)))) /\
    (forall m n, (1 <= m <= 8)%nat -> n < 256 ^ N.of_nat m -> decode_block (enc_k (sz m) n) = Ok (n2be 8 n, m)) /\
    (forall s d size, decode_block s = Ok (d, size) ->
       (size <= 8)%nat /\ sz size = length s /\
       exists v, v < 256 ^ N.of_nat size /\ d = n2be 8 v /\ enc_k (length s) v = s).
Proof.
  split; [exact encode_block_spec|split; [exact decode_block_enc|exact decode_block_inv]].
Qed.

(* the recursion equations that determine the encoder: 8 bytes -> 11 digits, m-byte tail -> sizes[m] digits *)
Theorem C12_b58_encode_is_blockwise :
  b58_encode [] = Ok [] /\
  (forall t, (0 < length t < 8)%nat -> b58_encode t = Ok (enc_k (sz (length t)) (be2n t))) /\
  (forall a r, length a = 8%nat ->
     b58_encode (a ++ r) =
     match b58_encode r with Ok x => Ok (enc_k 11 (be2n a) ++ x) | Err e => Err e | Panic => Panic end).
Proof.
  exact b58_encode_equations.
Qed.

(* every byte string (any length) has a text and the text decodes to it *)
Theorem C12_b58_dec_enc :
  forall b, exists s, b58_encode b = Ok s /\ b58_decode s = Ok b.
Proof.
  exact b58_decode_encode.
Qed.

(* canonicity: whatever decodes is THE text of its bytes (no second spelling, no padding, no overflowed block) *)
Theorem C12_b58_enc_dec :
  forall s b, b58_decode s = Ok b -> b58_encode b = Ok s.
Proof.
  exact b58_encode_decode.
Qed.

(* a text is accepted iff it is the encoding of some byte string *)
Theorem C12_b58_accepts_exactly :
  forall s, (exists b, b58_decode s = Ok b) <-> (exists b, b58_encode b = Ok s).
Proof.
  exact b58_decode_accepts_iff.
Qed.

(* neither direction can panic; encode cannot fail *)
Theorem C12_b58_never_panics :
  (forall b, exists s, b58_encode b = Ok s) /\ (forall s, b58_decode s <> Panic).
Proof.
  split; [exact b58_encode_never_fails|exact b58_decode_never_panics].
Qed.

(* length of the text: 11 characters per full block plus sizes[tail] *)
Theorem C12_b58_text_length :
  forall b s, b58_encode b = Ok s ->
    length s = (11 * (length b / 8) + sz (length b mod 8))%nat.
Proof.
  exact b58_encode_length.
Qed.

(* tag :: spend ++ view ++ payment id? ++ first four bytes of H over everything before *)
Theorem C12_layout :
  forall (H : bytes -> bytes) (valid_pk : bytes -> bool),
  (forall m, length (H m) = 32%nat) -> (forall k, valid_pk k = true -> length k = 32%nat) ->
  forall a, addr_as_bytes H a =
    n2b (net_as_u8 (a_net a) (a_type a)) :: a_spend a ++ a_view a ++ pid_of (a_type a) ++
      firstn 4 (H (n2b (net_as_u8 (a_net a) (a_type a)) :: a_spend a ++ a_view a ++ pid_of (a_type a))).
Proof.
  intros H valid_pk _ _. exact (as_bytes_layout H).
Qed.

(* 69 bytes, or 77 with a payment id *)
Theorem C12_length :
  forall (H : bytes -> bytes) (valid_pk : bytes -> bool),
  (forall m, length (H m) = 32%nat) -> (forall k, valid_pk k = true -> length k = 32%nat) ->
  forall a, wf_addr valid_pk a ->
    length (addr_as_bytes H a) = match a_type a with Integrated _ => 77%nat | _ => 69%nat end.
Proof.
  intros H valid_pk Hl Hv. exact (as_bytes_length H valid_pk Hl Hv).
Qed.

(* an address prints as 95 characters, 106 with a payment id *)
Theorem C12_text_length :
  forall (H : bytes -> bytes) (valid_pk : bytes -> bool),
  (forall m, length (H m) = 32%nat) -> (forall k, valid_pk k = true -> length k = 32%nat) ->
  forall a s, wf_addr valid_pk a -> addr_to_string H a = Ok s ->
    length s = match a_type a with Integrated _ => 106%nat | _ => 95%nat end.
Proof.
  intros H valid_pk Hl Hv. exact (to_string_length H valid_pk Hl Hv).
Qed.

(* from_bytes (as_bytes a) = a *)
Theorem C12_roundtrip_bytes :
  forall (H : bytes -> bytes) (valid_pk : bytes -> bool),
  (forall m, length (H m) = 32%nat) -> (forall k, valid_pk k = true -> length k = 32%nat) ->
  forall a, wf_addr valid_pk a -> addr_from_bytes H valid_pk (addr_as_bytes H a) = Ok a.
Proof.
  intros H valid_pk Hl Hv. exact (from_as_bytes H valid_pk Hl Hv).
Qed.

(* to_string never panics and from_str (to_string a) = a *)
Theorem C12_roundtrip_text :
  forall (H : bytes -> bytes) (valid_pk : bytes -> bool),
  (forall m, length (H m) = 32%nat) -> (forall k, valid_pk k = true -> length k = 32%nat) ->
  forall a, wf_addr valid_pk a ->
    exists s, addr_to_string H a = Ok s /\ addr_from_str H valid_pk s = Ok a.
Proof.
  intros H valid_pk Hl Hv. exact (from_to_string H valid_pk Hl Hv).
Qed.

(* from_hex (as_hex a) = a, with and without the 0x prefix *)
Theorem C12_roundtrip_hex :
  forall (H : bytes -> bytes) (valid_pk : bytes -> bool),
  (forall m, length (H m) = 32%nat) -> (forall k, valid_pk k = true -> length k = 32%nat) ->
  forall a, wf_addr valid_pk a ->
    addr_from_hex H valid_pk (addr_as_hex H a) = Ok a /\
    addr_from_hex H valid_pk (x30 :: x78 :: addr_as_hex H a) = Ok a.
Proof.
  intros H valid_pk Hl Hv. exact (from_as_hex H valid_pk Hl Hv).
Qed.

(* deserialize (serialize a) = a *)
Theorem C12_roundtrip_consensus :
  forall (H : bytes -> bytes) (valid_pk : bytes -> bool),
  (forall m, length (H m) = 32%nat) -> (forall k, valid_pk k = true -> length k = 32%nat) ->
  forall a, wf_addr valid_pk a -> addr_deserialize H valid_pk (addr_consensus_encode H a) = Ok a.
Proof.
  intros H valid_pk Hl Hv. exact (deserialize_encode H valid_pk Hl Hv).
Qed.

(* a blob is accepted only if it is exactly the canonical blob of the (well-formed) address returned *)
Theorem C12_only_canonical :
  forall (H : bytes -> bytes) (valid_pk : bytes -> bool),
  (forall m, length (H m) = 32%nat) -> (forall k, valid_pk k = true -> length k = 32%nat) ->
  forall b a, addr_from_bytes H valid_pk b = Ok a -> addr_as_bytes H a = b /\ wf_addr valid_pk a.
Proof.
  intros H valid_pk Hl Hv. exact (from_bytes_canonical H valid_pk Hl Hv).
Qed.

(* acceptance is exactly: canonical blob of a well-formed address *)
Theorem C12_accepts_exactly :
  forall (H : bytes -> bytes) (valid_pk : bytes -> bool),
  (forall m, length (H m) = 32%nat) -> (forall k, valid_pk k = true -> length k = 32%nat) ->
  forall b a, addr_from_bytes H valid_pk b = Ok a <-> (wf_addr valid_pk a /\ b = addr_as_bytes H a).
Proof.
  intros H valid_pk Hl Hv. exact (from_bytes_iff H valid_pk Hl Hv).
Qed.

(* from_str s = a implies to_string a = s *)
Theorem C12_only_canonical_text :
  forall (H : bytes -> bytes) (valid_pk : bytes -> bool),
  (forall m, length (H m) = 32%nat) -> (forall k, valid_pk k = true -> length k = 32%nat) ->
  forall s a, addr_from_str H valid_pk s = Ok a -> addr_to_string H a = Ok s /\ wf_addr valid_pk a.
Proof.
  intros H valid_pk Hl Hv. exact (from_str_canonical H valid_pk Hl Hv).
Qed.

(* the hex reader is case- and prefix-insensitive by design: what is claimed is that the decoded bytes are canonical *)
Theorem C12_only_canonical_hex :
  forall (H : bytes -> bytes) (valid_pk : bytes -> bool),
  (forall m, length (H m) = 32%nat) -> (forall k, valid_pk k = true -> length k = 32%nat) ->
  forall s a, addr_from_hex H valid_pk s = Ok a ->
    hex_decode (strip_0x s) = Some (addr_as_bytes H a) /\ wf_addr valid_pk a.
Proof.
  intros H valid_pk Hl Hv. exact (from_hex_canonical H valid_pk Hl Hv).
Qed.

(* deserialize b = a implies serialize a = b (minimal length prefix, no trailing byte) *)
Theorem C12_only_canonical_consensus :
  forall (H : bytes -> bytes) (valid_pk : bytes -> bool),
  (forall m, length (H m) = 32%nat) -> (forall k, valid_pk k = true -> length k = 32%nat) ->
  forall b a, addr_deserialize H valid_pk b = Ok a -> addr_consensus_encode H a = b /\ wf_addr valid_pk a.
Proof.
  intros H valid_pk Hl Hv. exact (deserialize_canonical H valid_pk Hl Hv).
Qed.

(* any blob other than the canonical one of a is refused or is the canonical blob of a different address *)
Theorem C12_corruption :
  forall (H : bytes -> bytes) (valid_pk : bytes -> bool),
  (forall m, length (H m) = 32%nat) -> (forall k, valid_pk k = true -> length k = 32%nat) ->
  forall b a a', wf_addr valid_pk a -> b <> addr_as_bytes H a ->
    addr_from_bytes H valid_pk b = Ok a' -> a' <> a /\ addr_as_bytes H a' = b /\ wf_addr valid_pk a'.
Proof.
  intros H valid_pk Hl Hv. exact (corruption H valid_pk Hl Hv).
Qed.

(* trailing data and every proper prefix are refused; so is every length other than 69/77 and every unknown tag *)
Theorem C12_rejects_trailing_and_truncated :
  forall (H : bytes -> bytes) (valid_pk : bytes -> bool),
  (forall m, length (H m) = 32%nat) -> (forall k, valid_pk k = true -> length k = 32%nat) ->
  (forall a x r a', wf_addr valid_pk a -> addr_from_bytes H valid_pk (addr_as_bytes H a ++ x :: r) <> Ok a') /\
  (forall a k a', wf_addr valid_pk a -> (k < length (addr_as_bytes H a))%nat ->
     addr_from_bytes H valid_pk (firstn k (addr_as_bytes H a)) <> Ok a') /\
  (forall b, length b <> 69%nat -> length b <> 77%nat -> exists e, addr_from_bytes H valid_pk b = Err e) /\
  (forall b0 r, net_from_u8 (b2n b0) = None -> exists e, addr_from_bytes H valid_pk (b0 :: r) = Err e).
Proof.
  intros H valid_pk Hl Hv. split; [exact (trailing_rejected H valid_pk Hl Hv)|].
  split; [exact (truncation_rejected H valid_pk Hl Hv)|].
  split; [exact (wrong_length_rejected H valid_pk Hl Hv)|exact (unknown_tag_rejected H valid_pk)].
Qed.

(* no input makes any of the four parsers panic (the slices guarded by length tests are in range) *)
Theorem C12_never_panics :
  forall (H : bytes -> bytes) (valid_pk : bytes -> bool),
  (forall m, length (H m) = 32%nat) -> (forall k, valid_pk k = true -> length k = 32%nat) ->
  (forall b, addr_from_bytes H valid_pk b <> Panic) /\ (forall s, addr_from_str H valid_pk s <> Panic) /\
  (forall s, addr_from_hex H valid_pk s <> Panic) /\ (forall b, addr_deserialize H valid_pk b <> Panic).
Proof.
  intros H valid_pk Hl Hv. split; [exact (from_bytes_never_panics H valid_pk Hl Hv)|].
  split; [exact (from_str_never_panics H valid_pk Hl Hv)|].
  split; [exact (from_hex_never_panics H valid_pk Hl Hv)|exact (deserialize_never_panics H valid_pk Hl Hv)].
Qed.

(* the executable instances used by the correspondence check satisfy the two side conditions *)
Theorem C12_instances :
  (forall m, length (keccak256 m) = 32%nat) /\ (forall k, pk_valid k = true -> length k = 32%nat).
Proof.
  split; [exact keccak256_length32|exact pk_valid_length32].
Qed.

(* the main statements for the concrete hash and key test *)
Theorem C12_keccak_ed25519 :
  (forall a, wf_addr pk_valid a -> addr_from_bytes keccak256 pk_valid (addr_as_bytes keccak256 a) = Ok a) /\
  (forall b a, addr_from_bytes keccak256 pk_valid b = Ok a <-> (wf_addr pk_valid a /\ b = addr_as_bytes keccak256 a)) /\
  (forall a, wf_addr pk_valid a ->
     exists s, addr_to_string keccak256 a = Ok s /\ addr_from_str keccak256 pk_valid s = Ok a) /\
  (forall s a, addr_from_str keccak256 pk_valid s = Ok a -> addr_to_string keccak256 a = Ok s /\ wf_addr pk_valid a).
Proof.
  split; [exact (from_as_bytes keccak256 pk_valid keccak256_length32 pk_valid_length32)|].
  split; [exact (from_bytes_iff keccak256 pk_valid keccak256_length32 pk_valid_length32)|].
  split; [exact (from_to_string keccak256 pk_valid keccak256_length32 pk_valid_length32)|].
  exact (from_str_canonical keccak256 pk_valid keccak256_length32 pk_valid_length32).
Qed.

(* non-vacuity / known answers: the first address string of the repository's tests and its 69-byte blob *)
Definition ex_text : bytes :=
  [x34;x41;x44;x54;x31;x42;x74;x62;x78;x71;x45;x57;x65;x4d;x4b;x70;x39;x47;x67;x50;x72;x32;x4e;x65;x79;x4a;x58;x58;
   x74;x4e;x78;x76;x6f;x44;x61;x77;x70;x79;x41;x34;x57;x70;x7a;x46;x63;x47;x63;x6f;x48;x55;x76;x58;x65;x69;x6a;x45;
   x36;x36;x44;x4e;x66;x6f;x68;x45;x39;x72;x31;x62;x51;x59;x61;x42;x69;x51;x6a;x45;x74;x4b;x45;x37;x43;x74;x6b;x54;
   x64;x4c;x77;x69;x44;x7a;x6e;x46;x7a;x72;x61].
Definition ex_blob : bytes :=
  [x12;xe2;xbb;x11;x75;x06;xbc;x69;xb1;x3a;xcf;xcd;x2a;xcd;xe5;xfb;x81;x76;xfd;x15;xf5;x31;x43;x24;x4b;x3e;x0c;x50;
   x5a;xf4;xc2;x6c;xd2;xdc;x73;xc3;x37;xbd;x58;x88;x4e;x3f;x20;x29;x21;xa8;xcd;xf5;x03;x8b;xea;x6d;x40;xc6;xb3;x35;
   x6c;xf7;x4d;xb7;x19;xac;x3b;x71;x73;x31;x53;xcd;xdf].
Example C12_ex_b58 : b58_decode ex_text = Ok ex_blob /\ b58_encode ex_blob = Ok ex_text.
Proof. split; vm_compute; reflexivity. Qed.
Example C12_ex_checksum : firstn 4 (keccak256 (firstn 65 ex_blob)) = skipn 65 ex_blob.
Proof. vm_compute. reflexivity. Qed.
(* zzzzzzzzzzz overflows a block, a 1-, 4- or 8-character tail has no size, '0' is not in the alphabet *)
Example C12_ex_b58_rejects :
  b58_decode (repeat x7a 11) = Err EBad /\ b58_decode [x31] = Err EBad /\ b58_decode (repeat x31 4) = Err EBad /\
  b58_decode (repeat x31 8) = Err EBad /\ b58_decode [x31; x30] = Err EBad /\ b58_decode [x31; x31] = Ok [x00].
Proof. repeat split; vm_compute; reflexivity. Qed.
(* with a trivially-true key test the blob parses to the mainnet standard address and prints as the text *)
Example C12_ex_parse :
  match addr_from_bytes keccak256 (fun k => Nat.eqb (length k) 32) ex_blob with
  | Ok a => a_net a = Mainnet /\ a_type a = Standard /\ addr_to_string keccak256 a = Ok ex_text
  | _ => False
  end /\
  addr_from_bytes keccak256 (fun k => Nat.eqb (length k) 32) (ex_blob ++ [x00]) = Err EBad.
Proof. split; vm_compute; [repeat split|reflexivity]. Qed.

Check C12_b58_alphabet :
  alphabet = [x31; x32; x33; x34; x35; x36; x37; x38; x39;
              x41; x42; x43; x44; x45; x46; x47; x48; x4a; x4b; x4c; x4d; x4e; x50; x51; x52; x53; x54; x55; x56;
              x57; x58; x59; x5a;
              x61; x62; x63; x64; x65; x66; x67; x68; x69; x6a; x6b; x6d; x6e; x6f; x70; x71; x72; x73; x74; x75;
              x76; x77; x78; x79; x7a] /\ NoDup alphabet.

Check C12_b58_alphabet_injective :
  (forall d, d < 58 -> index_of (b58_char d) alphabet = Some d) /\
  (forall c d, index_of c alphabet = Some d -> d < 58 /\ b58_char d = c) /\
  (forall d1 d2, d1 < 58 -> d2 < 58 -> b58_char d1 = b58_char d2 -> d1 = d2).

Check C12_b58_block_digits :
  forall k n, enc_k k n = rev (map b58_char (rdigits k n)) /\ length (enc_k k n) = k.

Check C12_b58_block_dec_enc :
  forall k n, (k <= 11)%nat -> n < 58 ^ N.of_nat k -> dec_k (enc_k k n) = Some n.

Check C12_b58_block_enc_dec :
  forall s, (length s <= 11)%nat ->
    (Forall (fun c => In c alphabet) s ->
       exists v, dec_k s = Some v /\ v < 58 ^ lenN s /\ enc_k (length s) v = s) /\
    (~ Forall (fun c => In c alphabet) s -> dec_k s = None).

Check C12_b58_block_codec :
  (forall data, (0 < length data <= 8)%nat ->
       encode_block data = Ok (enc_k (sz (length data)) (be2n data) ++ repeat x31 (11 - sz (length data)))) /\
    (forall m n, (1 <= m <= 8)%nat -> n < 256 ^ N.of_nat m -> decode_block (enc_k (sz m) n) = Ok (n2be 8 n, m)) /\
    (forall s d size, decode_block s = Ok (d, size) ->
       (size <= 8)%nat /\ sz size = length s /\
       exists v, v < 256 ^ N.of_nat size /\ d = n2be 8 v /\ enc_k (length s) v = s).

Check C12_b58_encode_is_blockwise :
  b58_encode [] = Ok [] /\
  (forall t, (0 < length t < 8)%nat -> b58_encode t = Ok (enc_k (sz (length t)) (be2n t))) /\
  (forall a r, length a = 8%nat ->
     b58_encode (a ++ r) =
     match b58_encode r with Ok x => Ok (enc_k 11 (be2n a) ++ x) | Err e => Err e | Panic => Panic end).

Check C12_b58_dec_enc :
  forall b, exists s, b58_encode b = Ok s /\ b58_decode s = Ok b.

Check C12_b58_enc_dec :
  forall s b, b58_decode s = Ok b -> b58_encode b = Ok s.

Check C12_b58_accepts_exactly :
  forall s, (exists b, b58_decode s = Ok b) <-> (exists b, b58_encode b = Ok s).

Check C12_b58_never_panics :
  (forall b, exists s, b58_encode b = Ok s) /\ (forall s, b58_decode s <> Panic).

Check C12_b58_text_length :
  forall b s, b58_encode b = Ok s ->
    length s = (11 * (length b / 8) + sz (length b mod 8))%nat.

Check C12_layout :
  forall (H : bytes -> bytes) (valid_pk : bytes -> bool),
  (forall m, length (H m) = 32%nat) -> (forall k, valid_pk k = true -> length k = 32%nat) ->
  forall a, addr_as_bytes H a =
    n2b (net_as_u8 (a_net a) (a_type a)) :: a_spend a ++ a_view a ++ pid_of (a_type a) ++
      firstn 4 (H (n2b (net_as_u8 (a_net a) (a_type a)) :: a_spend a ++ a_view a ++ pid_of (a_type a))).

Check C12_length :
  forall (H : bytes -> bytes) (valid_pk : bytes -> bool),
  (forall m, length (H m) = 32%nat) -> (forall k, valid_pk k = true -> length k = 32%nat) ->
  forall a, wf_addr valid_pk a ->
    length (addr_as_bytes H a) = match a_type a with Integrated _ => 77%nat | _ => 69%nat end.

Check C12_text_length :
  forall (H : bytes -> bytes) (valid_pk : bytes -> bool),
  (forall m, length (H m) = 32%nat) -> (forall k, valid_pk k = true -> length k = 32%nat) ->
  forall a s, wf_addr valid_pk a -> addr_to_string H a = Ok s ->
    length s = match a_type a with Integrated _ => 106%nat | _ => 95%nat end.

Check C12_roundtrip_bytes :
  forall (H : bytes -> bytes) (valid_pk : bytes -> bool),
  (forall m, length (H m) = 32%nat) -> (forall k, valid_pk k = true -> length k = 32%nat) ->
  forall a, wf_addr valid_pk a -> addr_from_bytes H valid_pk (addr_as_bytes H a) = Ok a.

Check C12_roundtrip_text :
  forall (H : bytes -> bytes) (valid_pk : bytes -> bool),
  (forall m, length (H m) = 32%nat) -> (forall k, valid_pk k = true -> length k = 32%nat) ->
  forall a, wf_addr valid_pk a ->
    exists s, addr_to_string H a = Ok s /\ addr_from_str H valid_pk s = Ok a.

Check C12_roundtrip_hex :
  forall (H : bytes -> bytes) (valid_pk : bytes -> bool),
  (forall m, length (H m) = 32%nat) -> (forall k, valid_pk k = true -> length k = 32%nat) ->
  forall a, wf_addr valid_pk a ->
    addr_from_hex H valid_pk (addr_as_hex H a) = Ok a /\
    addr_from_hex H valid_pk (x30 :: x78 :: addr_as_hex H a) = Ok a.

Check C12_roundtrip_consensus :
  forall (H : bytes -> bytes) (valid_pk : bytes -> bool),
  (forall m, length (H m) = 32%nat) -> (forall k, valid_pk k = true -> length k = 32%nat) ->
  forall a, wf_addr valid_pk a -> addr_deserialize H valid_pk (addr_consensus_encode H a) = Ok a.

Check C12_only_canonical :
  forall (H : bytes -> bytes) (valid_pk : bytes -> bool),
  (forall m, length (H m) = 32%nat) -> (forall k, valid_pk k = true -> length k = 32%nat) ->
  forall b a, addr_from_bytes H valid_pk b = Ok a -> addr_as_bytes H a = b /\ wf_addr valid_pk a.

Check C12_accepts_exactly :
  forall (H : bytes -> bytes) (valid_pk : bytes -> bool),
  (forall m, length (H m) = 32%nat) -> (forall k, valid_pk k = true -> length k = 32%nat) ->
  forall b a, addr_from_bytes H valid_pk b = Ok a <-> (wf_addr valid_pk a /\ b = addr_as_bytes H a).

Check C12_only_canonical_text :
  forall (H : bytes -> bytes) (valid_pk : bytes -> bool),
  (forall m, length (H m) = 32%nat) -> (forall k, valid_pk k = true -> length k = 32%nat) ->
  forall s a, addr_from_str H valid_pk s = Ok a -> addr_to_string H a = Ok s /\ wf_addr valid_pk a.

Check C12_only_canonical_hex :
  forall (H : bytes -> bytes) (valid_pk : bytes -> bool),
  (forall m, length (H m) = 32%nat) -> (forall k, valid_pk k = true -> length k = 32%nat) ->
  forall s a, addr_from_hex H valid_pk s = Ok a ->
    hex_decode (strip_0x s) = Some (addr_as_bytes H a) /\ wf_addr valid_pk a.

Check C12_only_canonical_consensus :
  forall (H : bytes -> bytes) (valid_pk : bytes -> bool),
  (forall m, length (H m) = 32%nat) -> (forall k, valid_pk k = true -> length k = 32%nat) ->
  forall b a, addr_deserialize H valid_pk b = Ok a -> addr_consensus_encode H a = b /\ wf_addr valid_pk a.

Check C12_corruption :
  forall (H : bytes -> bytes) (valid_pk : bytes -> bool),
  (forall m, length (H m) = 32%nat) -> (forall k, valid_pk k = true -> length k = 32%nat) ->
  forall b a a', wf_addr valid_pk a -> b <> addr_as_bytes H a ->
    addr_from_bytes H valid_pk b = Ok a' -> a' <> a /\ addr_as_bytes H a' = b /\ wf_addr valid_pk a'.

Check C12_rejects_trailing_and_truncated :
  forall (H : bytes -> bytes) (valid_pk : bytes -> bool),
  (forall m, length (H m) = 32%nat) -> (forall k, valid_pk k = true -> length k = 32%nat) ->
  (forall a x r a', wf_addr valid_pk a -> addr_from_bytes H valid_pk (addr_as_bytes H a ++ x :: r) <> Ok a') /\
  (forall a k a', wf_addr valid_pk a -> (k < length (addr_as_bytes H a))%nat ->
     addr_from_bytes H valid_pk (firstn k (addr_as_bytes H a)) <> Ok a') /\
  (forall b, length b <> 69%nat -> length b <> 77%nat -> exists e, addr_from_bytes H valid_pk b = Err e) /\
  (forall b0 r, net_from_u8 (b2n b0) = None -> exists e, addr_from_bytes H valid_pk (b0 :: r) = Err e).

Check C12_never_panics :
  forall (H : bytes -> bytes) (valid_pk : bytes -> bool),
  (forall m, length (H m) = 32%nat) -> (forall k, valid_pk k = true -> length k = 32%nat) ->
  (forall b, addr_from_bytes H valid_pk b <> Panic) /\ (forall s, addr_from_str H valid_pk s <> Panic) /\
  (forall s, addr_from_hex H valid_pk s <> Panic) /\ (forall b, addr_deserialize H valid_pk b <> Panic).

Check C12_instances :
  (forall m, length (keccak256 m) = 32%nat) /\ (forall k, pk_valid k = true -> length k = 32%nat).

Check C12_keccak_ed25519 :
  (forall a, wf_addr pk_valid a -> addr_from_bytes keccak256 pk_valid (addr_as_bytes keccak256 a) = Ok a) /\
  (forall b a, addr_from_bytes keccak256 pk_valid b = Ok a <-> (wf_addr pk_valid a /\ b = addr_as_bytes keccak256 a)) /\
  (forall a, wf_addr pk_valid a ->
     exists s, addr_to_string keccak256 a = Ok s /\ addr_from_str keccak256 pk_valid s = Ok a) /\
  (forall s a, addr_from_str keccak256 pk_valid s = Ok a -> addr_to_string keccak256 a = Ok s /\ wf_addr pk_valid a).


Print Assumptions C12_b58_alphabet.
Print Assumptions C12_b58_alphabet_injective.
Print Assumptions C12_b58_block_digits.
Print Assumptions C12_b58_block_dec_enc.
Print Assumptions C12_b58_block_enc_dec.
Print Assumptions C12_b58_block_codec.
Print Assumptions C12_b58_encode_is_blockwise.
Print Assumptions C12_b58_dec_enc.
Print Assumptions C12_b58_enc_dec.
Print Assumptions C12_b58_accepts_exactly.
Print Assumptions C12_b58_never_panics.
Print Assumptions C12_b58_text_length.
Print Assumptions C12_layout.
Print Assumptions C12_length.
Print Assumptions C12_text_length.
Print Assumptions C12_roundtrip_bytes.
Print Assumptions C12_roundtrip_text.
Print Assumptions C12_roundtrip_hex.
Print Assumptions C12_roundtrip_consensus.
Print Assumptions C12_only_canonical.
Print Assumptions C12_accepts_exactly.
Print Assumptions C12_only_canonical_text.
Print Assumptions C12_only_canonical_hex.
Print Assumptions C12_only_canonical_consensus.
Print Assumptions C12_corruption.
Print Assumptions C12_rejects_trailing_and_truncated.
Print Assumptions C12_never_panics.
Print Assumptions C12_instances.
Print Assumptions C12_keccak_ed25519.

(* ==== added by the model-mutation audit (notes/MODEL_MUTANTS_B.md, Proofs/AuditC12.v) ============================= *)
From MRS Require Import Proofs.AuditC12.

(* C12_only_canonical_hex is stated through the model's hex decoder.  This pins the decoder itself: it returns b EXACTLY for the case variants of
   the canonical lower-case text of b (hex_lower c := c + 32 for 'A'..'Z', c otherwise; Proofs/AuditC12.v) - no blanks, no other letters,
   no odd length; in particular 'A'..'F' have the values of 'a'..'f' *)
Theorem C12_hex_accepts_exactly_case_variants : forall t b, hex_decode t = Some b <-> map hex_lower t = hex_encode b.
Proof. exact hex_decode_iff12. Qed.

(* hence an accepted hex text is Address::as_hex of the returned address, after the optional "0x" and up to the case of the letters a-f *)
Theorem C12_only_canonical_hex_text :
  forall (H : bytes -> bytes) (valid_pk : bytes -> bool),
  (forall m, length (H m) = 32%nat) -> (forall k, valid_pk k = true -> length k = 32%nat) ->
  forall s a, addr_from_hex H valid_pk s = Ok a -> map hex_lower (strip_0x s) = addr_as_hex H a.
Proof.
  intros H valid_pk Hl Hv. exact (from_hex_text_canonical H valid_pk Hl Hv).
Qed.

Check C12_hex_accepts_exactly_case_variants : forall t b, hex_decode t = Some b <-> map hex_lower t = hex_encode b.
Check C12_only_canonical_hex_text :
  forall (H : bytes -> bytes) (valid_pk : bytes -> bool),
  (forall m, length (H m) = 32%nat) -> (forall k, valid_pk k = true -> length k = 32%nat) ->
  forall s a, addr_from_hex H valid_pk s = Ok a -> map hex_lower (strip_0x s) = addr_as_hex H a.

Print Assumptions C12_hex_accepts_exactly_case_variants.
Print Assumptions C12_only_canonical_hex_text.
