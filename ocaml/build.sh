#!/bin/sh
# builds evaluator B from the compiled Coq model (coq/ must be built first)
set -e
cd "$(dirname "$0")"; mkdir -p gen
if [ ! -f gen/driver ] || [ -n "$(find ../coq/Model ../coq/Spec Extract.v driver.ml -newer gen/driver 2>/dev/null | head -1)" ]; then
  (cd gen && coqc -Q ../../coq MRS ../Extract.v >/dev/null && cp ../driver.ml . && \
   ocamlfind ocamlopt -O2 -package zarith -linkpkg -w -a mrs.mli mrs.ml driver.ml -o driver 2>/dev/null || \
   ocamlfind ocamlopt -package zarith -linkpkg -w -a mrs.mli mrs.ml driver.ml -o driver)
fi
