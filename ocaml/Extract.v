(* Extract.v — evaluator B: the same Gallina entry point, extracted to OCaml.
   Directives in the trusted base: ExtrOcamlBasic, ExtrOcamlString (ascii/byte -> char, string -> char list),
   ExtrOcamlZBigInt (positive/N/Z -> zarith), plus the three bitwise constants below. *)
From Coq Require Extraction.
From Coq Require Import ExtrOcamlBasic ExtrOcamlString ExtrOcamlZBigInt.
From MRS Require Import Model.Dispatch.
From Coq Require Import NArith.
Extract Constant N.lxor => "Big_int_Z.xor_big_int".
Extract Constant N.land => "Big_int_Z.and_big_int".
Extract Constant N.lor => "Big_int_Z.or_big_int".
Extraction "mrs.ml" run_line.
