(* driver.ml — evaluator B glue: one protocol line in, one result line out.
   Everything except line I/O and string<->char list conversion is extracted Gallina. *)
let explode s = List.init (String.length s) (String.get s)
let implode l = let b = Buffer.create 64 in List.iter (Buffer.add_char b) l; Buffer.contents b
let () =
  try
    while true do
      let line = input_line stdin in
      let r = try implode (Mrs.run_line (explode line)) with Stack_overflow -> "DRIVER-STACK-OVERFLOW" in
      print_string r; print_char '\n'
    done
  with End_of_file -> ()
