#!/usr/bin/env python3
# Regenerates the op registrations (coq/Model/Dispatch.v import + all_ops, harness/src/main.rs mod + dispatch)
# from the Ops*.v / ops_*.rs files that exist.  Run after adding an ops module or merging branches.
import os, re, glob
HERE = os.path.dirname(os.path.dirname(os.path.abspath(__file__)))


def main():
    mods = sorted(os.path.basename(f)[:-2] for f in glob.glob(os.path.join(HERE, "coq/Model/Ops*.v")))
    names = []
    for m in mods:
        src = open(os.path.join(HERE, "coq/Model", m + ".v")).read()
        found = re.findall(r"^Definition\s+(ops_[a-z0-9_]+)\s*\(op : string\)", src, flags=re.M)
        main_name = "ops_" + m[3:].lower()
        names += [main_name] if main_name in found else found
    p = os.path.join(HERE, "coq/Model/Dispatch.v")
    s = open(p).read()
    s = re.sub(r"From MRS Require Import Model\.Base[^\n]*\n", "From MRS Require Import Model.Base %s.\n" %
               " ".join("Model." + m for m in mods), s, count=1)
    s = re.sub(r"Definition all_ops : list \(string -> list string -> option string\) :=[^.]*\.",
               "Definition all_ops : list (string -> list string -> option string) :=\n  [ %s ]." % ";\n    ".join(names), s, count=1)
    open(p, "w").write(s)
    rs = sorted(os.path.basename(f)[:-3] for f in glob.glob(os.path.join(HERE, "harness/src/ops_*.rs")))
    p = os.path.join(HERE, "harness/src/main.rs")
    s = open(p).read()
    s = re.sub(r"(?:mod ops_[a-z0-9_]+;\n)+", "".join("mod %s;\n" % m for m in rs), s, count=1)
    body = "".join("    if let Some(r) = %s::run(op, &args) {\n        return r;\n    }\n" % m for m in rs)
    s = re.sub(r"(?:    if let Some\(r\) = ops_[a-z0-9_]+::run\(op, &args\) \{\n        return r;\n    \}\n)+", body, s, count=1)
    open(p, "w").write(s)
    print("ops modules:", mods, names, rs)


if __name__ == "__main__":
    main()
