# gen_codec.py — generator of well-formed codec descriptions in the token form of coq/Model/Show.v,
# plus byte-level mutations.  Every random choice comes from the rng passed in.
import os

HERE = os.path.dirname(os.path.dirname(os.path.abspath(__file__)))
RCT = {0: "Null", 1: "Full", 2: "Simple", 3: "Bulletproof", 4: "Bulletproof2", 5: "Clsag", 6: "BulletproofPlus"}


def hexb(rng, n):
    if n == 0:
        return "-"
    return bytes(rng.getrandbits(8) for _ in range(n)).hex()


def interesting_u64(rng):
    c = rng.random()
    if c < 0.35:
        k = rng.randint(1, 9)
        return rng.choice([2 ** (7 * k) - 1, 2 ** (7 * k), 2 ** (7 * k) + 1])
    if c < 0.5:
        return rng.choice([0, 1, 2, 2 ** 64 - 1, 2 ** 63, 2 ** 32, 2 ** 32 - 1])
    if c < 0.8:
        return rng.getrandbits(rng.choice([7, 8, 14, 16, 21, 32, 40, 56, 63, 64]))
    return rng.randint(0, 300)


def key(rng):
    return hexb(rng, 32)


def lst(items):
    """items: list of token lists"""
    out = [str(len(items))]
    for i in items:
        out.extend(i)
    return out


def txin(rng, kind, ring):
    if kind == "gen":
        return ["gen", str(interesting_u64(rng))]
    return ["key", str(interesting_u64(rng))] + lst([[str(interesting_u64(rng))] for _ in range(ring)]) + [key(rng)]


def txout(rng, tagged):
    if tagged:
        return [str(interesting_u64(rng)), "tt", key(rng), str(rng.randint(0, 255))]
    return [str(interesting_u64(rng)), "tk", key(rng)]


def signature(rng):
    return [key(rng), key(rng)]


def bulletproof(rng, nl, nr):
    return [key(rng) for _ in range(6)] + lst([[key(rng)] for _ in range(nl)]) + lst([[key(rng)] for _ in range(nr)]) + \
        [key(rng) for _ in range(3)]


def bpplus(rng, nl, nr):
    return [key(rng) for _ in range(6)] + lst([[key(rng)] for _ in range(nl)]) + lst([[key(rng)] for _ in range(nr)])


def rangesig(rng):
    return [hexb(rng, 2048), hexb(rng, 2048), key(rng), hexb(rng, 2048)]


def tx_desc(rng, version, in_kinds, ring, out_tagged, rct_type, n_proofs=1, extra_len=None, lr=(0, 0), rings=None, prefix_rng=None):
    """in_kinds: list of 'gen'/'key'; ring: ring size of every key input (rings: one size per input instead; the RingCT parts
    follow the FIRST input, as the format prescribes); out_tagged: list of bools.
    Returns the token list of a WELL-FORMED transaction of that shape."""
    n_in, n_out = len(in_kinds), len(out_tagged)
    rr = list(rings) if rings else [ring] * n_in
    if rr:
        ring = rr[0]
    prng = prefix_rng or rng         # prefix_rng: two calls with equal prefix_rng seeds give transactions with the SAME prefix
    ins = [txin(prng, k, r) for k, r in zip(in_kinds, rr)]
    outs = [txout(prng, t) for t in out_tagged]
    if prng.random() < 0.08:
        # repeated elements are legal on the wire: the same input twice (equal key image and offsets), the same output twice
        if n_in >= 2 and in_kinds[0] == in_kinds[-1] and rr[0] == rr[-1]:
            ins[-1] = ins[0]
        if n_out >= 2 and out_tagged[0] == out_tagged[-1]:
            outs[-1] = outs[0]
    if extra_len is None:
        extra_len = prng.choice([0, 1, 33, 44, 127, 128, 200, 255, 256, 16383, 16384] if prng.random() < 0.15 else [0, 1, 33, 44, 127, 128, 200])
    prefix = [str(version), str(interesting_u64(prng))] + lst(ins) + lst(outs) + [hexb(prng, extra_len)]
    if version == 1:
        rows = [lst([signature(rng) for _ in range(r)]) for k, r in zip(in_kinds, rr) if k == "key"]
        return prefix + lst(rows) + ["none"]
    if n_in == 0:
        return prefix + ["0", "none"]
    t = rct_type
    if t == 0:
        return prefix + ["0", "base", "0", "0", "0", "0", "0", "pnone"]
    mixin = (ring - 1) if in_kinds[0] == "key" else 0
    pseudo_b = lst([[key(rng)] for _ in range(n_in)]) if t == 2 else ["0"]
    if t in (1, 2, 3):
        ecdh = lst([["es", key(rng), key(rng)] for _ in range(n_out)])
    else:
        ecdh = lst([["eb", hexb(rng, 8)] for _ in range(n_out)])
    base = [str(t), str(interesting_u64(rng))] + pseudo_b + ecdh + lst([[key(rng)] for _ in range(n_out)])
    rs = lst([rangesig(rng) for _ in range(n_out)]) if t in (1, 2) else ["0"]
    bps = lst([bulletproof(rng, *lr) for _ in range(n_proofs)]) if t in (3, 4, 5) else ["0"]
    bpp = lst([bpplus(rng, *lr) for _ in range(n_proofs)]) if t == 6 else ["0"]
    if t in (5, 6):
        mgs = ["0"]
        cls = lst([lst([[key(rng)] for _ in range(mixin + 1)]) + [key(rng), key(rng)] for _ in range(n_in)])
    else:
        n_mg, cols = (n_in, 2) if t in (2, 3, 4) else (1, n_in + 1)
        mgs = lst([lst([lst([[key(rng)] for _ in range(cols)]) for _ in range(mixin + 1)]) + [key(rng)]
                   for _ in range(n_mg)])
        cls = ["0"]
    pseudo_p = lst([[key(rng)] for _ in range(n_in)]) if t in (3, 4, 5, 6) else ["0"]
    return prefix + ["0", "base"] + base + ["p"] + rs + bps + bpp + mgs + cls + pseudo_p


def random_shape(rng, small=True):
    version = rng.choice([1, 2, 2, 2, 0, 3, 1, 2, 2, 2, 0, 3, 4, 127, 128, 2 ** 32, 2 ** 64 - 1])
    sizes = [0, 1, 1, 2, 2, 3] if small else [0, 1, 2, 3, 16, 17]
    n_in = rng.choice(sizes)
    n_out = rng.choice(sizes)
    ring = rng.choice([1, 1, 2, 3, 11, 16] if small else [1, 2, 11, 16, 127, 128, 129])
    kinds = [rng.choice(["key", "key", "gen"]) for _ in range(n_in)]
    if rng.random() < 0.15:
        kinds = ["gen"] * n_in
    t = rng.randint(0, 6)
    if t in (1, 2):
        n_out = min(n_out, 2)           # range signatures are 6 KiB each
    tagged = [rng.random() < 0.5 for _ in range(n_out)]
    n_proofs = rng.choice([0, 1, 1, 2, 3])
    lr = (rng.choice([0, 1, 6, 7, 10, 11, 16, 65]), rng.choice([0, 1, 6, 7, 10, 11, 16, 65])) if rng.random() < 0.25 else \
        (rng.choice([0, 1, 6, 7]), rng.choice([0, 1, 6, 7]))
    sh = dict(version=version, in_kinds=kinds, ring=ring, out_tagged=tagged, rct_type=t, n_proofs=n_proofs, lr=lr)
    if n_in >= 2 and rng.random() < 0.3:
        # inputs with different ring sizes (never an empty first ring: see shape_is_wf)
        sh["rings"] = [ring] + [rng.choice([0, 1, 2, 3, 5, 11]) for _ in range(n_in - 1)]
    return sh


def grid_shapes():
    """all seven RingCT types x ring sizes x input/output counts (C03 grid)"""
    out = []
    for t in range(7):
        for ring in (1, 2, 11, 16):
            for n_in, n_out in ((1, 1), (1, 2), (2, 1), (2, 2), (3, 3), (1, 0), (2, 17 if t not in (1, 2) else 2)):
                for kinds in (["key"] * n_in, ["gen"] + ["key"] * (n_in - 1)):
                    out.append(dict(version=2, in_kinds=kinds, ring=ring, out_tagged=[i % 2 == 1 for i in range(n_out)],
                                    rct_type=t, n_proofs=1, lr=(6, 6)))
    # "wide base" shapes: few inputs, many outputs, tiny ring, short proofs, so that the serialised RingCT base is LONGER
    # than the prunable part (real transactions are the other way round)
    for t in (3, 4, 5, 6):
        for n_proofs, lr in ((0, (0, 0)), (1, (0, 0)), (1, (1, 1))):
            for n_out in (16, 17, 40):
                out.append(dict(version=2, in_kinds=["key"], ring=1, out_tagged=[i % 2 == 0 for i in range(n_out)],
                                rct_type=t, n_proofs=n_proofs, lr=lr))
    for ring in (1, 2, 11):
        for n_in in (0, 1, 2, 3):
            for n_out in (0, 1, 3):
                out.append(dict(version=1, in_kinds=["key"] * n_in, ring=ring, out_tagged=[False] * n_out, rct_type=0))
                out.append(dict(version=1, in_kinds=(["gen"] + ["key"] * (n_in - 1)) if n_in else [], ring=ring,
                                out_tagged=[True] * n_out, rct_type=0))
    return out + mixed_ring_shapes()


def mixed_ring_shapes():
    """inputs whose rings differ in size: version 1 carries one signature row per key input, as long as that input's ring;
    later versions size every ring signature after the FIRST input only"""
    out = []
    for rings in ([2, 3], [3, 2], [1, 2], [2, 1], [1, 2, 3], [3, 1, 2], [1, 1, 2], [2, 0], [0, 2], [11, 2, 16]):
        out.append(dict(version=1, in_kinds=["key"] * len(rings), ring=rings[0], rings=rings, out_tagged=[False, True], rct_type=0))
        out.append(dict(version=1, in_kinds=["gen"] + ["key"] * len(rings), ring=1, rings=[1] + rings, out_tagged=[True], rct_type=0))
    for t in range(1, 7):
        for rings in ([2, 3], [3, 2], [1, 2, 3], [11, 2]):
            n_out = 2
            out.append(dict(version=2, in_kinds=["key"] * len(rings), ring=rings[0], rings=rings,
                            out_tagged=[i % 2 == 0 for i in range(n_out)], rct_type=t, n_proofs=1, lr=(1, 1)))
        out.append(dict(version=2, in_kinds=["gen", "key", "key"], ring=1, rings=[1, 2, 3], out_tagged=[True], rct_type=t,
                        n_proofs=1, lr=(1, 1)))
    return out


def shape_is_wf(sh):
    """does tx_desc(sh) describe a value the decoder accepts back?  (a version>=2, non-Null transaction whose FIRST input is a key
    input with an empty ring is refused: "Input has no ring members")"""
    if sh["version"] == 1 or not sh["in_kinds"] or sh["rct_type"] == 0:
        return True
    return not (sh["in_kinds"][0] == "key" and sh["ring"] == 0)


def ring0_shapes():
    """key inputs with EMPTY rings: legal for version 1, for RingCT type Null, and behind a coinbase first input; refused otherwise"""
    out = []
    for t in range(7):
        for kinds in (["key"], ["key", "key"], ["gen", "key"], ["key", "gen"]):
            out.append(dict(version=2, in_kinds=kinds, ring=0, out_tagged=[False, True], rct_type=t, n_proofs=1, lr=(1, 1)))
    for kinds in (["key"], ["gen", "key"], ["key", "key", "key"]):
        out.append(dict(version=1, in_kinds=kinds, ring=0, out_tagged=[True], rct_type=0))
        out.append(dict(version=0, in_kinds=kinds, ring=0, out_tagged=[True], rct_type=5, n_proofs=1, lr=(0, 0)))
    return out


def big_count_shapes():
    """counts at the two-byte / three-byte varint boundaries in every length position that can take them cheaply"""
    out = []
    for ring in (16383, 16384, 16385):
        out.append(dict(version=2, in_kinds=["key"], ring=ring, out_tagged=[False], rct_type=5, n_proofs=1, lr=(0, 0)))
        out.append(dict(version=1, in_kinds=["key"], ring=ring, out_tagged=[True], rct_type=0))
    for n_out in (127, 128, 129, 255, 256, 257):
        out.append(dict(version=2, in_kinds=["key"], ring=1, out_tagged=[i % 3 == 0 for i in range(n_out)], rct_type=6,
                        n_proofs=1, lr=(0, 0)))
        out.append(dict(version=1, in_kinds=["gen"], ring=1, out_tagged=[False] * n_out, rct_type=0))
    for n_in in (127, 128, 129):
        out.append(dict(version=2, in_kinds=["key"] * n_in, ring=1, out_tagged=[True], rct_type=5, n_proofs=1, lr=(0, 0)))
        out.append(dict(version=2, in_kinds=["gen"] * n_in, ring=1, out_tagged=[True], rct_type=0))
    for lr in ((127, 128), (128, 127), (16384, 1)):
        out.append(dict(version=2, in_kinds=["key"], ring=1, out_tagged=[False], rct_type=4, n_proofs=2, lr=lr))
        out.append(dict(version=2, in_kinds=["key"], ring=1, out_tagged=[False], rct_type=6, n_proofs=1, lr=lr))
    return out


def header_desc(rng):
    return [str(interesting_u64(rng)), str(interesting_u64(rng)), str(interesting_u64(rng)), key(rng),
            str(rng.choice([0, 1, 2 ** 32 - 1, rng.getrandbits(32)]))]


def block_desc(rng, n_hashes, miner=None):
    if miner is None:
        miner = tx_desc(rng, 2, ["gen"], 1, [False], 0)
    hs = [[key(rng)] for _ in range(n_hashes)]
    if 2 <= n_hashes <= 2000 and rng.random() < 0.3:
        # listed hashes are data: the same hash twice (adjacent, apart, everywhere), the all-zero and the all-ones hash
        style = rng.randrange(5)
        i, j = rng.sample(range(n_hashes), 2)
        if style == 0:
            hs[j] = hs[i]
        elif style == 1:
            hs[min(i + 1, n_hashes - 1)] = hs[i]
        elif style == 2:
            hs = [hs[0]] * n_hashes
        elif style == 3:
            hs[i] = ["00" * 32]
        else:
            hs[i], hs[j] = ["00" * 32], ["ff" * 32]
    return header_desc(rng) + miner + lst(hs)


def corpus_hex():
    p = os.path.join(HERE, "corpus", "hex_literals.txt")
    return [l.strip() for l in open(p) if l.strip()]


# ---------------------------------------------------------------------------- byte-level mutation
def mutations_at_every_offset(b, rng, max_len=4096, stride=1):
    """single-site mutations of a valid encoding (list of bytes objects)"""
    out = []
    n = len(b)
    if n > max_len:
        stride = max(stride, n // max_len + 1)
    for i in range(0, n, stride):
        x = b[i]
        for v in {0x00, 0x01, 0x7f, 0x80, 0xff, x ^ 0x80, (x + 1) & 0xff}:
            if v != x:
                out.append(b[:i] + bytes([v]) + b[i + 1:])
        if x < 0x80:
            out.append(b[:i] + bytes([x | 0x80, 0x00]) + b[i + 1:])                 # non-minimal varint
            out.append(b[:i] + bytes([x | 0x80] + [0x80] * 8 + [0x02]) + b[i + 1:])  # overflowing varint
        out.append(b[:i] + b[i + 1:])            # delete
        out.append(b[:i] + bytes([x]) + b[i:])   # duplicate
        out.append(b[:i])                        # truncate
    return out


def multi_mutation(b, rng, k):
    b = bytearray(b)
    for _ in range(k):
        if not b:
            break
        i = rng.randrange(len(b))
        c = rng.random()
        if c < 0.6:
            b[i] = rng.choice([0, 1, 0x7f, 0x80, 0xff, rng.getrandbits(8)])
        elif c < 0.8:
            del b[i]
        else:
            b.insert(i, rng.getrandbits(8))
    return bytes(b)
