# framework.py — orchestrator shared by all property checks.
#   proofs (make + audit)  ->  build evaluators  ->  generate cases  ->  implementation vs model
#   -> direct oracle -> verdict, replay, evidence.
import fcntl, hashlib, json, os, random, re, resource, subprocess, sys, time
from concurrent.futures import ThreadPoolExecutor

VERIF = os.path.dirname(os.path.dirname(os.path.abspath(__file__)))
COQ = os.path.join(VERIF, "coq")
BUILD = os.path.join(VERIF, "build")
CARGO_TARGET = os.path.join(BUILD, "cargo")
REPO = os.environ.get("VERIF_REPO", "/repo")      # default: the repository itself; override only for experiments on a scratch copy
NCPU = os.cpu_count() or 4

FORBIDDEN = re.compile(r"\b(Admitted|admit|Axiom|Axioms|Parameter|Parameters|Conjecture|Admit Obligations|"
                       r"Unset Guard Checking|bypass_check|type-in-type|impredicative-set|Unset Universe Checking|"
                       r"Unset Positivity Checking)\b")
# axioms of Coq's own standard library that a theorem may depend on (none needed so far)
AXIOM_ALLOWLIST = set()

TRUSTED_BASE = [
    "Coq 8.16.1 kernel (coqc, vm_compute used inside proofs and by evaluator A; no native_compute)",
    "hand-written Gallina model under coq/Model tied to /repo by the correspondence check of this run",
    "extraction for evaluator B: ExtrOcamlBasic, ExtrOcamlString, ExtrOcamlZBigInt + Extract Constant "
    "N.lxor/N.land/N.lor => Big_int_Z.xor_big_int/and_big_int/or_big_int; OCaml 4.13.1 + zarith 1.12; "
    "cross-checked against evaluator A (coqc vm_compute) on a sample every run",
    "glue: ocaml/driver.ml (line I/O), harness/ (Rust, public API of the crate only), lib/*.py",
    "dependencies of the crate are exercised, not modelled: curve25519-dalek, tiny-keccak, base58-monero, hex, std",
]


class Infra(Exception):
    pass


def log(*a):
    print(*a, file=sys.stderr, flush=True)


def sh(cmd, timeout, cwd=None, env=None, inp=None, unlimited_stack=False):
    def pre():
        if unlimited_stack:
            try:
                resource.setrlimit(resource.RLIMIT_STACK, (resource.RLIM_INFINITY, resource.RLIM_INFINITY))
            except Exception:
                pass
    e = dict(os.environ)
    e["CARGO_NET_OFFLINE"] = "true"
    if env:
        e.update(env)
    try:
        p = subprocess.run(cmd, cwd=cwd, env=e, input=inp, stdout=subprocess.PIPE, stderr=subprocess.STDOUT,
                           timeout=timeout, preexec_fn=pre, text=True, errors="replace")
        return p.returncode, p.stdout
    except subprocess.TimeoutExpired as ex:
        out = ex.stdout if isinstance(ex.stdout, str) else (ex.stdout or b"").decode(errors="replace")
        return -9, out + "\n[timeout]"


class Lock:
    def __init__(self, name):
        os.makedirs(BUILD, exist_ok=True)
        self.path = os.path.join(BUILD, name + ".lock")

    def __enter__(self):
        self.f = open(self.path, "w")
        fcntl.flock(self.f, fcntl.LOCK_EX)

    def __exit__(self, *a):
        fcntl.flock(self.f, fcntl.LOCK_UN)
        self.f.close()


# ------------------------------------------------------------------ proofs
def build_coq(targets, timeout=3000):
    with Lock("coq"):
        rc, out = sh(["sh", "gen_project.sh"], 120, cwd=COQ)
        if rc != 0:
            return rc, out
        return sh(["make", "-j%d" % NCPU] + targets, timeout, cwd=COQ)


def theorem_names(props_file):
    src = open(props_file).read()
    src_nc = re.sub(r"\(\*.*?\*\)", "", src, flags=re.S)
    return re.findall(r"^\s*Theorem\s+([A-Za-z0-9_']+)", src_nc, flags=re.M), src_nc


def audit_sources():
    """no Admitted/Axiom/... anywhere in the development (comments stripped)"""
    bad = []
    for root, _, files in os.walk(COQ):
        for f in files:
            if f.endswith(".v") and not f.startswith("tmpgoal_"):
                p = os.path.join(root, f)
                s = re.sub(r"\(\*.*?\*\)", "", open(p).read(), flags=re.S)
                for i, line in enumerate(s.splitlines(), 1):
                    if FORBIDDEN.search(line) and "Print Assumptions" not in line:
                        bad.append("%s:%d: %s" % (os.path.relpath(p, VERIF), i, line.strip()[:100]))
    p = os.path.join(VERIF, "ocaml", "Extract.v")
    if os.path.exists(p):
        s = re.sub(r"\(\*.*?\*\)", "", open(p).read(), flags=re.S)
        for i, line in enumerate(s.splitlines(), 1):
            if FORBIDDEN.search(line):
                bad.append("ocaml/Extract.v:%d: %s" % (i, line.strip()[:100]))
    return bad


def check_proofs(pid, thorough=False):
    """returns dict(obligations, discharged, failures[list of str], checker_cmd, axioms)"""
    props = os.path.join(COQ, "Props", pid + ".v")
    names, src = theorem_names(props)
    res = {"obligations": len(names), "discharged": 0, "failures": [], "axioms": [],
           "checker_cmd": "cd coq && sh gen_project.sh && make -j%d Props/%s.vo Model/Dispatch.vo "
                          "(full .vo build; Print Assumptions audit%s)" % (NCPU, pid, "; coqchk -o" if thorough else "")}
    if not names:
        res["failures"].append("no Theorem in Props/%s.v" % pid)
        return res
    # force re-check of the property file itself so that Print Assumptions output is from this run
    with Lock("coq-props-" + pid):
        for ext in (".vo", ".vok", ".vos", ".glob"):
            try:
                os.unlink(props[:-2] + ext)
            except OSError:
                pass
        rc, out = build_coq(["Props/%s.vo" % pid, "Model/Dispatch.vo"])
    os.makedirs(os.path.join(BUILD, "coq-logs"), exist_ok=True)
    open(os.path.join(BUILD, "coq-logs", pid + ".log"), "w").write(out)
    if rc != 0:
        m = re.search(r'File "([^"]+)", line (\d+).*?\n(Error:.*?)(?:\n\n|\Z)', out, flags=re.S)
        where = ("%s:%s %s" % (m.group(1), m.group(2), " ".join(m.group(3).split())[:300])) if m else out[-400:]
        res["failures"].append("coq build failed: " + where)
        return res
    bad = audit_sources()
    if bad:
        res["failures"].append("forbidden constructs: " + "; ".join(bad[:5]))
        return res
    # each theorem pinned and audited
    for n in names:
        if not re.search(r"^\s*Check\s+%s\s*:" % re.escape(n), src, flags=re.M):
            res["failures"].append("theorem %s is not pinned by a Check" % n)
        if not re.search(r"^\s*Print Assumptions\s+%s\s*\." % re.escape(n), src, flags=re.M):
            res["failures"].append("theorem %s has no Print Assumptions" % n)
    closed = len(re.findall(r"Closed under the global context", out))
    ax_sections = re.findall(r"Axioms:\n((?:.+\n?)+?)(?=\n|\Z|Closed|COQC)", out)
    axioms = set()
    for sec in ax_sections:
        for m in re.finditer(r"^([A-Za-z0-9_.']+)\s*:", sec, flags=re.M):
            axioms.add(m.group(1))
    res["axioms"] = sorted(axioms)
    notallowed = [a for a in axioms if a not in AXIOM_ALLOWLIST]
    if notallowed:
        res["failures"].append("theorems depend on axioms: " + ", ".join(notallowed))
    n_print = len(re.findall(r"^\s*Print Assumptions", src, flags=re.M))
    if closed + len(ax_sections) < n_print:
        res["failures"].append("Print Assumptions output incomplete (%d of %d)" % (closed + len(ax_sections), n_print))
    if thorough and not res["failures"]:
        # coqchk re-checks the compiled files with the independent checker.  It does not use the kernel VM: the closed curve
        # computations of Proofs/EdKAT.v, EdInstLaws.v and the H lemma of ScanTotal.v (seconds under coqc's vm_compute) do not
        # finish in it.  Where the property file depends on one of those, coqchk is run on every OTHER module the property file
        # imports (recursively), and the evidence says which files were left to coqc's kernel alone.  A run that does not finish
        # is a note, never a verdict.
        targets = ["MRS.Props." + pid]
        heavy = [h for h in COQCHK_HEAVY if re.search(r"\b%s\b" % re.escape(h.split(".")[-1]), src)]
        if heavy:
            mods = re.findall(r"\b(?:Proofs|Spec|Model)\.[A-Za-z0-9_]+", " ".join(re.findall(r"Require\s+(?:Import|Export)?([^.]*(?:\.[A-Za-z][^.]*)*)\.\s", src)))
            targets = sorted(set("MRS." + m for m in mods if "MRS." + m not in COQCHK_HEAVY))
            res["coqchk_note"] = ("coqchk run on %s; not re-checked by coqchk (closed kernel computations that need the VM): %s and "
                                  "Props/%s.v itself" % (", ".join(targets), ", ".join(heavy), pid))
        rc, out2 = sh(["coqchk", "-silent", "-o", "-Q", ".", "MRS"] + targets, 1500, cwd=COQ)
        open(os.path.join(BUILD, "coq-logs", pid + ".coqchk.log"), "w").write(out2)
        if rc == -9 or out2.rstrip().endswith("[timeout]"):
            res["coqchk_note"] = (res.get("coqchk_note", "") + " coqchk did not finish within 1500 s; the coqc kernel check stands").strip()
        elif rc != 0:
            res["failures"].append("coqchk failed: " + out2[-300:])
        else:
            m = re.search(r"\* Axioms:\s*(.*?)(?:\n\s*\*|\Z)", out2, flags=re.S)
            ax = (m.group(1).strip() if m else "")
            res["coqchk_axioms"] = ax
            if ax and "<none>" not in ax:
                res["failures"].append("coqchk reports axioms: " + ax[:200])
    if not res["failures"]:
        res["discharged"] = len(names)
    return res


# ------------------------------------------------------------------ evaluators
def build_model_driver():
    with Lock("ocaml"):
        rc, out = sh(["sh", os.path.join(VERIF, "ocaml", "build.sh")], 1200)
    if rc != 0:
        raise Infra("evaluator B build failed: " + out[-800:])
    return os.path.join(VERIF, "ocaml", "gen", "driver")


def harness_dir():
    """the harness crate path-depends on /repo; for experiments on a scratch copy of the repository (VERIF_REPO) a copy of
    the crate with the path rewritten is used, with its own target directory"""
    if REPO == "/repo":
        return os.path.join(VERIF, "harness"), CARGO_TARGET
    tag = hashlib.sha256(REPO.encode()).hexdigest()[:10]
    d = os.path.join(BUILD, "harness-alt-" + tag)
    os.makedirs(os.path.join(d, "src"), exist_ok=True)
    src = os.path.join(VERIF, "harness")
    for f in os.listdir(os.path.join(src, "src")):
        a, b = os.path.join(src, "src", f), os.path.join(d, "src", f)
        if not os.path.exists(b) or open(a).read() != open(b).read():
            open(b, "w").write(open(a).read())
    toml = open(os.path.join(src, "Cargo.toml")).read().replace('path = "/repo"', 'path = "%s"' % REPO)
    if not os.path.exists(os.path.join(d, "Cargo.toml")) or open(os.path.join(d, "Cargo.toml")).read() != toml:
        open(os.path.join(d, "Cargo.toml"), "w").write(toml)
    return d, os.path.join(BUILD, "cargo-alt-" + tag)


def build_harness(profile="release"):
    hdir, target = harness_dir()
    lock = os.path.join(hdir, "Cargo.lock")
    with Lock("cargo"):
        if not os.path.exists(lock):
            # the lock file is the repository's own (offline resolution of the same crate versions)
            for cand in (os.path.join(REPO, "Cargo.lock"), "/repo/Cargo.lock"):
                if os.path.exists(cand):
                    open(lock, "w").write(open(cand).read())
                    break
        cmd = ["cargo", "build", "--offline", "--quiet"] + (["--release"] if profile == "release" else [])
        rc, out = sh(cmd, 3000, cwd=hdir,
                     env={"CARGO_TARGET_DIR": target, "RUSTFLAGS": "--cfg monero_rs_verif -Awarnings"})
    if rc != 0:
        return None, out
    return os.path.join(target, "release" if profile == "release" else "debug", "mrs-harness"), out


def _run_batch(binary, lines, timeout, extra=(), unlimited_stack=False):
    inp = "\n".join(lines) + "\n"
    rc, out = sh([binary] + list(extra), timeout, inp=inp, unlimited_stack=unlimited_stack)
    res = out.split("\n")
    if res and res[-1] == "":
        res.pop()
    if rc == 0 and len(res) == len(lines):
        return res
    if len(lines) == 1:
        return ["TIMEOUT" if rc == -9 else "ABORT"]
    mid = len(lines) // 2
    return _run_batch(binary, lines[:mid], timeout, extra, unlimited_stack) + \
        _run_batch(binary, lines[mid:], timeout, extra, unlimited_stack)


def run_parallel(binary, lines, timeout=600, extra=(), shard=2000, unlimited_stack=False):
    if not lines:
        return []
    shards = [lines[i:i + shard] for i in range(0, len(lines), shard)]
    with ThreadPoolExecutor(max_workers=NCPU) as ex:
        outs = list(ex.map(lambda s: _run_batch(binary, s, timeout, extra, unlimited_stack), shards))
    return [r for o in outs for r in o]


def run_impl(binary, lines, peak=False, timeout=600, shard=2000):
    shard = max(1, min(shard, len(lines) // NCPU + 1))
    return run_parallel(binary, lines, timeout, extra=(["--peak"] if peak else []), shard=shard)


def run_model(driver, lines, timeout=1200, shard=1000):
    # spread over all cores even when there are few (expensive) cases
    shard = max(1, min(shard, len(lines) // NCPU + 1))
    return run_parallel(driver, lines, timeout, shard=shard, unlimited_stack=True)


def coq_string(s):
    return '"' + s.replace('"', '""') + '"'


def run_evalA(pairs, tag, shard=400, timeout=1200):
    """pairs: list of (line, expected).  Evaluates the model inside coqc (vm_compute) and returns the
    list of indices where the kernel-evaluated model disagrees with `expected`."""
    if not pairs:
        return []
    d = os.path.join(BUILD, "evalA", tag)
    os.makedirs(d, exist_ok=True)
    for f in os.listdir(d):
        os.unlink(os.path.join(d, f))
    files = []
    for k in range(0, len(pairs), shard):
        chunk = pairs[k:k + shard]
        name = "cases_%d" % (k // shard)
        body = ";\n ".join("(%s, %s)" % (coq_string(l), coq_string(e)) for l, e in chunk)
        src = ("From Coq Require Import String List NArith.\nFrom MRS Require Import Model.Dispatch.\n"
               "Import ListNotations.\nOpen Scope string_scope.\n"
               "Definition cases : list (string * string) :=\n [%s].\n"
               "Eval vm_compute in (mismatches 0%%N cases).\n" % body)
        open(os.path.join(d, name + ".v"), "w").write(src)
        files.append((k, name))

    def one(kn):
        k, name = kn
        rc, out = sh(["coqc", "-noglob", "-Q", COQ, "MRS", "-Q", d, "EvalA", name + ".v"], timeout, cwd=d,
                     unlimited_stack=True)
        if rc != 0:
            raise Infra("evaluator A failed on %s: %s" % (name, out[-500:]))
        m = re.search(r"=\s*\[(.*?)\]\s*:\s*list N", out, flags=re.S)
        if not m:
            raise Infra("evaluator A output not understood: " + out[-300:])
        body = m.group(1).strip()
        idx = [int(x.replace("%N", "").strip()) for x in body.split(";")] if body else []
        return [k + i for i in idx]

    with ThreadPoolExecutor(max_workers=NCPU) as ex:
        outs = list(ex.map(one, files))
    return sorted(i for o in outs for i in o)


# ------------------------------------------------------------------ known findings
def known_findings(pid):
    p = os.path.join(VERIF, "known_findings.json")
    if not os.path.exists(p):
        return []
    return [e for e in json.load(open(p)) if e.get("property") == pid and e.get("status") == "finding"]


# ------------------------------------------------------------------ the generic check
class Case:
    __slots__ = ("line", "cls", "nontrivial")

    def __init__(self, line, cls="", nontrivial=True):
        self.line, self.cls, self.nontrivial = line, cls, nontrivial


class Check:
    """One property check.  Subclasses provide:
         pid, level_note, rule
         gen(tier, rng) -> list[Case]                      (corpus first)
         oracle(case, impl_result, ctx) -> None | str      (direct statement of the property on the implementation;
                                                             ctx.model(line) evaluates a model/spec op on demand)
         neighbours(case, rng) -> list[Case]               (search neighbourhood of a disagreeing case)
         compare(impl_result, model_result) -> bool        (default: string equality)
         known(case, impl_result) -> finding-id | None     (classifier for recorded findings)
    """
    pid = "C00"
    rule = ""
    profiles = ("release",)
    evalA_sample = 300
    order_check = True       # re-run the stream in a shuffled order and demand identical per-case results
    twin_check = True        # near copies of a sample of the cases, run right after the case (see run_check 4c)
    twin_sample = 600
    twin_diff = False        # also compare the near copy with the model (only where every case line is in the model's domain
                             # whatever its arguments are; several operations take derived arguments as given)
    twin_maxlen = 8000
    peak = False
    impl_timeout = 600
    model_shard = 1000

    def gen(self, tier, rng):
        raise NotImplementedError

    def oracle(self, case, impl, ctx):
        return None

    def oracle_queries(self, case, impl):
        """model/spec lines the oracle will ask for (prefetched in one batch)"""
        return []

    def neighbours(self, case, rng):
        return []

    def compare(self, impl, model):
        return impl == model

    def known(self, case, impl):
        return None

    def twin_args(self, words):
        """argument positions of a case line that may be varied on their own (None = all); positions whose value is
        derived from another argument (a digest of it, a count) are left alone - the model takes them as given"""
        return None

    def evalA_ok(self, line):
        """may this line be re-evaluated by coqc vm_compute (cheap enough)?"""
        return True

    def extra_coverage(self, cases, impl, model):
        return {}


class Ctx:
    def __init__(self, driver, shard=1000):
        self.driver = driver
        self.shard = shard
        self.cache = {}

    def model_many(self, lines):
        todo = [l for l in dict.fromkeys(lines) if l not in self.cache]
        if todo:
            res = run_model(self.driver, todo, shard=self.shard)
            for l, r in zip(todo, res):
                self.cache[l] = r
        return [self.cache[l] for l in lines]

    def model(self, line):
        return self.model_many([line])[0]


SELF_VERDICTS = ("ROUTE-MISMATCH", "WRITER-MISMATCH", "READER-MISMATCH", "LENGTH-MISMATCH", "SERIALIZE-MISMATCH",
                 "SERIALIZE-HEX-MISMATCH")
COQCHK_HEAVY = ("MRS.Proofs.EdKAT", "MRS.Proofs.EdInstLaws", "MRS.Proofs.ScanTotal")
HEXRE = re.compile(r"^(?:[0-9a-f]{2})+$")
HEXRUN = re.compile(r"[0-9a-f]{8,}")


def _vary(a, kind, rng):
    """a near copy of the hex string `a` (even length): one digit flipped, or two aligned chunks swapped"""
    if kind in ("flip", "flip-late", "flip-early"):
        if kind == "flip":
            pos = rng.randrange(len(a))
        elif kind == "flip-late":
            pos = rng.randrange(max(0, len(a) - 16), len(a))
        else:
            pos = rng.randrange(0, min(16, len(a)))
        ch = rng.choice([x for x in "0123456789abcdef" if x != a[pos]])
        return a[:pos] + ch + a[pos + 1:]
    n = 64 if kind == "swap32" else 16
    off = rng.choice(range(0, min(n, len(a) - 2 * n + 2), 2)) if len(a) > 2 * n else 0
    k = (len(a) - off) // n
    if k < 2:
        return a
    x, y = rng.sample(range(k), 2)
    ch = [a[off + t * n: off + (t + 1) * n] for t in range(k)]
    ch[x], ch[y] = ch[y], ch[x]
    return a[:off] + "".join(ch) + a[off + k * n:]


def make_twins(cases, rng, want, maxlen, allowed=None):
    """[(case index, near-copy line, kind)] - stratified over (operation, class); for a chosen case every argument that can be
    varied gets a near copy of its own (so that a case with several fields is varied in each of them); every choice comes
    from `rng`"""
    groups = {}
    for i, c in enumerate(cases):
        if len(c.line) <= maxlen and " " in c.line:
            groups.setdefault((c.line.split(" ", 1)[0], c.cls), []).append(i)
    by_op = {}
    for (op, _), idx in groups.items():
        by_op.setdefault(op, []).extend(idx)
    keys = sorted(groups)
    rng.shuffle(keys)
    out, seen, rounds = [], set(), 0
    while len(out) < want and rounds < 40:
        rounds += 1
        progressed = False
        for key in keys:
            if len(out) >= want:
                break
            i = rng.choice(groups[key])
            w = cases[i].line.split(" ")
            js = [j for j in range(1, len(w)) if HEXRUN.search(w[j]) or (w[j].isdigit() and len(w[j]) < 25)]
            if allowed is not None:
                ok = allowed(w)
                if ok is not None:
                    js = [j for j in js if j in ok]
            rng.shuffle(js)
            for j in js[:6]:
                a = w[j]
                runs = [m for m in HEXRUN.finditer(a) if (m.end() - m.start()) % 2 == 0 or True]
                kinds = ["cross"]
                if a.isdigit() and len(a) < 25:
                    # numbers move by one only: a number taken from another case can turn a count, a range bound or a size into
                    # a request for billions of table rows
                    kinds = ["step"]
                if runs and not (a.isdigit() and len(a) < 25):
                    kinds += ["flip", "flip-late", "flip-early", "flip"]
                    if any(m.end() - m.start() >= 128 for m in runs):
                        kinds += ["swap32", "swap32"]
                    if any(m.end() - m.start() >= 32 for m in runs):
                        kinds.append("swap8")
                kind = rng.choice(kinds)
                b = a
                if kind == "step":
                    v = int(a)
                    b = str(v + 1 if (v == 0 or rng.random() < 0.5) else v - 1)
                elif kind == "cross":
                    o = cases[rng.choice(by_op[key[0]])].line.split(" ")
                    if len(o) == len(w):
                        b = o[j]
                else:
                    need = 128 if kind == "swap32" else 32 if kind == "swap8" else 0
                    m = rng.choice([m for m in runs if m.end() - m.start() >= need])
                    run = a[m.start():m.end()]
                    if len(run) % 2:
                        run = run[:-1]
                    b = a[:m.start()] + _vary(run, kind, rng) + a[m.start() + len(run):]
                if b == a:
                    continue
                tl = " ".join(w[:j] + [b] + w[j + 1:])
                if (i, tl) in seen or len(tl) > maxlen:
                    continue
                seen.add((i, tl))
                out.append((i, tl, "%s in argument %d" % (kind, j)))
                progressed = True
        if not progressed:
            break
    return out[:want]


def write_replay(pid, seed, n, obj):
    obj = dict(obj, seed=seed, tier=os.environ.get("VERIF_TIER_EFFECTIVE", "quick"),
               replay_cmd="./check %s --replay <this file>" % pid)
    d = os.path.join(VERIF, "replays", pid)
    os.makedirs(d, exist_ok=True)
    p = os.path.join(d, "%d-%d.json" % (seed, n))
    json.dump(obj, open(p, "w"), indent=1)
    return p


def run_check(chk, tier, replay=None):
    t0 = time.time()
    pid = chk.pid
    seed = int(os.environ.get("VERIF_SEED", "1") or "1")
    if replay:
        try:
            seed = int(json.load(open(replay)).get("seed", seed))
            tier = json.load(open(replay)).get("tier", tier)
        except Exception:
            pass
    chk.replaying = bool(replay)
    rng = random.Random(seed * 1000003 + int(hashlib.sha256(pid.encode()).hexdigest()[:8], 16))
    thorough = tier == "thorough"
    os.environ["VERIF_TIER_EFFECTIVE"] = tier
    violations = []       # (replay path, suffix)
    known_lines = []
    notes = []

    # 1. proofs
    pr = check_proofs(pid, thorough)
    proofs_ok = not pr["failures"]
    for f in pr["failures"]:
        log("[%s] proof obligation problem: %s" % (pid, f))

    # 2. evaluators
    driver = build_model_driver() if proofs_ok or os.path.exists(os.path.join(COQ, "Model", "Dispatch.vo")) else None
    if driver is None:
        raise Infra("model does not build")
    ctx = Ctx(driver, chk.model_shard)
    bins = {}
    for prof in chk.profiles:
        b, out = build_harness(prof)
        if b is None:
            # the harness only uses public API; if it no longer builds the tie to the code is broken
            p = write_replay(pid, seed, 0, {"property": pid, "broken": "harness does not build against /repo",
                                            "detail": out[-2000:]})
            print("VIOLATION property=%s replay=%s no-failing-input-found" % (pid, p))
            write_evidence(chk, tier, seed, pr, [], [], [], {}, 1, time.time() - t0, notes)
            return 1
        bins[prof] = b

    # 3. cases
    chk.ctx = ctx
    chk.impl_query = lambda ls: run_impl(bins[chk.profiles[0]], ls, timeout=chk.impl_timeout)
    if replay:
        # re-run exactly the recorded input(s): the generator is run with the recorded seed so that checks whose oracle
        # carries per-case expectations have them, then the stream is cut down to the recorded line(s)
        obj = json.load(open(replay))
        wanted = [l for l in obj.get("lines", [obj.get("line")]) if l]
        try:
            allc = chk.gen(tier, rng)
        except Exception:
            allc = []
        cases = [c for c in allc if c.line in set(wanted)]
        have = set(c.line for c in cases)
        cases += [Case(l) for l in wanted if l not in have]
    else:
        cases = chk.gen(tier, rng)
    lines = [c.line for c in cases]
    if os.environ.get("VERIF_DUMP_CASES"):
        # dev aid (lib/coverage.sh): keep the case lines so that an instrumented harness can replay them
        os.makedirs(os.path.join(BUILD, "cases"), exist_ok=True)
        open(os.path.join(BUILD, "cases", pid + ".lines"), "w").write("\n".join(lines) + "\n")
    impl = {prof: run_impl(bins[prof], lines, peak=chk.peak, timeout=chk.impl_timeout) for prof in chk.profiles}
    model = ctx.model_many(lines)
    for l, r in zip(lines, model):
        if r in ("BADCASE", "DRIVER-STACK-OVERFLOW"):
            raise Infra("model cannot run case %r: %s" % (l[:200], r))

    # evaluator A cross-check of evaluator B on a sample (kernel-evaluated model)
    idx = list(range(len(cases)))
    rng.shuffle(idx)
    sample = sorted(idx[:chk.evalA_sample if not thorough else chk.evalA_sample * 3])
    sample = [i for i in sample if len(lines[i]) < 4000 and chk.evalA_ok(lines[i])]
    bad = run_evalA([(lines[i], model[i]) for i in sample], pid)
    if bad:
        raise Infra("evaluators A and B disagree on %r" % lines[sample[bad[0]]][:300])

    # 4. diff + oracle
    q = []
    for prof in chk.profiles:
        for i, c in enumerate(cases):
            q.extend(chk.oracle_queries(c, impl[prof][i]))
    if q:
        ctx.model_many(q)
    fails = []           # (case index, profile, reason, kind)
    for prof in chk.profiles:
        for i, c in enumerate(cases):
            ir = impl[prof][i]
            core = ir.split(" peak=")[0] if chk.peak else ir
            if core == "BADCASE":
                raise Infra("harness cannot run case %r" % c.line[:200])
            why = chk.oracle(c, ir, ctx)
            if not why and core.split(" ")[0] in SELF_VERDICTS and not chk.compare(core, model[i]):
                # the harness ran two public routes of the implementation side by side and they disagree on this input: a
                # concrete failing input of its own, whatever the model says
                why = "two public routes of the implementation answer this input differently (%s)" % core[:60]
            if why:
                fails.append((i, prof, why, "oracle"))
            elif not chk.compare(core, model[i]):
                fails.append((i, prof, "model says %s, implementation says %s" % (model[i][:200], core[:200]), "diff"))

    # 4b. order independence: the same cases once more in a shuffled order (first profile); every result must be the same as
    # in the generated order - a library function whose answer depends on what was called before on the same thread keeps
    # state it must not keep (all properties are about functions of their arguments)
    order_checked = 0
    if chk.order_check and not replay and len(cases) > 1:
        prof = chk.profiles[0]
        perm = list(range(len(cases)))
        random.Random(seed * 7919 + 13).shuffle(perm)
        impl2 = run_impl(bins[prof], [lines[i] for i in perm], peak=False, timeout=chk.impl_timeout)
        flagged = set(f[0] for f in fails)
        for pos, i in enumerate(perm):
            a = impl[prof][i].split(" peak=")[0] if chk.peak else impl[prof][i]
            order_checked += 1
            if impl2[pos] != a and i not in flagged:
                prev = lines[perm[pos - 1]] if pos else "(first)"
                fails.append((i, prof, "result depends on what ran before it on the same thread: %s in generated order, %s after `%s`"
                              % (a[:160], impl2[pos][:160], prev[:160]), "oracle"))

    # 4c. twins: for a stratified sample of the cases, a NEAR COPY of the case (one hex digit flipped, two aligned chunks of an
    # argument swapped, one argument taken from another case of the same operation, a number moved by one) is run right after
    # the case itself and the case once more after that.  The implementation must (a) answer the case the same all three
    # times and (b) answer the near copy the same as it does in another process where it comes first; with `twin_diff` it must
    # (c) also agree with the model on the near copy.  (a)/(b) failing means an answer depends on what ran before (a result
    # remembered under too small a key - a prefix, a length, a folded digest, a subset of the arguments); they compare the
    # implementation with itself and need no model.
    twins_checked = 0
    if chk.twin_check and not replay and len(cases) > 1:
        prof = chk.profiles[0]
        tw = make_twins(cases, random.Random(seed * 104729 + 7), chk.twin_sample * (3 if thorough else 1), chk.twin_maxlen, chk.twin_args)
        if tw:
            seq = []
            for i, tl, kind in tw:
                seq += [lines[i], tl, lines[i]]
            r1 = run_impl(bins[prof], seq, peak=False, timeout=chk.impl_timeout, shard=1998)
            alone = [tl for _, tl, _ in tw][::-1]
            r2 = run_impl(bins[prof], alone, peak=False, timeout=chk.impl_timeout)[::-1]
            mt = ctx.model_many([tl for _, tl, _ in tw]) if chk.twin_diff else ["-"] * len(tw)
            flagged = set(f[0] for f in fails)
            for k, (i, tl, kind) in enumerate(tw):
                a0 = impl[prof][i].split(" peak=")[0] if chk.peak else impl[prof][i]
                a1, t1, a2 = r1[3 * k], r1[3 * k + 1], r1[3 * k + 2]
                if "BADCASE" in (t1, r2[k], mt[k]) or mt[k] == "DRIVER-STACK-OVERFLOW":
                    continue
                twins_checked += 1
                if i in flagged:
                    continue
                if a1 != a0 or a2 != a0:
                    cases.append(Case(lines[i], "twin")); impl[prof].append(a2 if a2 != a0 else a1); model.append(model[i])
                    for p2 in chk.profiles[1:]:
                        impl[p2].append(impl[p2][i])
                    fails.append((len(cases) - 1, prof, "result depends on what ran before it on the same thread: %s in generated order, "
                                  "%s right after the near copy `%s` (%s)" % (a0[:160], (a2 if a2 != a0 else a1)[:160], tl[:200], kind), "oracle"))
                elif t1 != r2[k]:
                    cases.append(Case(tl, "twin")); impl[prof].append(t1); model.append(mt[k])
                    for p2 in chk.profiles[1:]:
                        impl[p2].append(t1)
                    fails.append((len(cases) - 1, prof, "result depends on what ran before it on the same thread: %s right after its near copy `%s` "
                                  "(%s), %s when it comes first in a fresh process" % (t1[:160], lines[i][:200], kind, r2[k][:160]), "oracle"))
                elif chk.twin_diff and not chk.compare(t1, mt[k]):
                    tc = Case(tl, "twin")
                    try:
                        why = chk.oracle(tc, t1, ctx)
                    except Exception:
                        why = None      # an oracle that carries per-case expectations may not know this line
                    cases.append(tc); impl[prof].append(t1); model.append(mt[k])
                    for p2 in chk.profiles[1:]:
                        impl[p2].append(t1)
                    if why:
                        fails.append((len(cases) - 1, prof, why, "oracle"))
                    else:
                        fails.append((len(cases) - 1, prof, "model says %s, implementation says %s" % (mt[k][:200], t1[:200]), "diff"))
            lines = [c.line for c in cases]

    # 5. classify
    oracle_fails = [f for f in fails if f[3] == "oracle"]
    diffs = [f for f in fails if f[3] == "diff"]
    seen_known = {}
    new_fail = []
    for f in oracle_fails:
        k = chk.known(cases[f[0]], impl[f[1]][f[0]])
        if k:
            seen_known.setdefault(k, f)
        else:
            new_fail.append(f)
    for e in known_findings(pid):
        if e["id"] in seen_known:
            known_lines.append("KNOWN-FINDING: property=%s %s" % (pid, e["what"]))
        else:
            notes.append("known finding %s not reproduced by this run" % e["id"])
    n = 0
    if new_fail:
        f = min(new_fail, key=lambda f: len(cases[f[0]].line))
        n += 1
        p = write_replay(pid, seed, n, {"property": pid, "line": cases[f[0]].line, "profile": f[1],
                                        "implementation": impl[f[1]][f[0]][:4000], "model": model[f[0]][:4000],
                                        "why": f[2], "other_failures": len(new_fail) - 1})
        violations.append((p, ""))
    elif diffs or not proofs_ok:
        # correspondence or proof broke: search the neighbourhood for an input on which the property itself fails
        found = None
        seeds_ = [cases[f[0]] for f in diffs[:50]]
        pool = []
        for c in seeds_:
            pool.extend(chk.neighbours(c, rng))
        if pool:
            pl = [c.line for c in pool]
            for prof in chk.profiles:
                ir = run_impl(bins[prof], pl, peak=chk.peak, timeout=chk.impl_timeout)
                for c, r in zip(pool, ir):
                    why = chk.oracle(c, r, ctx)
                    if why and not chk.known(c, r):
                        found = (c, prof, r, why)
                        break
                if found:
                    break
        n += 1
        if found:
            c, prof, r, why = found
            p = write_replay(pid, seed, n, {"property": pid, "line": c.line, "profile": prof,
                                            "implementation": r[:4000], "why": why})
            violations.append((p, ""))
        else:
            what = {"property": pid, "no_failing_input_found": True}
            if not proofs_ok:
                what["broken_theorems"] = ["MRS.Props.%s: %s" % (pid, x) for x in pr["failures"]]
            if diffs:
                f = min(diffs, key=lambda f: len(cases[f[0]].line))
                what["broken_correspondence"] = {"line": cases[f[0]].line, "profile": f[1], "why": f[2],
                                                 "disagreements": len(diffs)}
                what["line"] = cases[f[0]].line
            p = write_replay(pid, seed, n, what)
            violations.append((p, " no-failing-input-found"))

    for l in known_lines:
        print(l)
    for p, suffix in violations:
        print("VIOLATION property=%s replay=%s%s" % (pid, p, suffix))
    write_evidence(chk, tier, seed, pr, cases, impl, model, chk.extra_coverage(cases, impl, model),
                   len(violations), time.time() - t0, notes, evalA=len(sample), diffs=len(diffs),
                   oracle_fails=len(oracle_fails), known=sorted(seen_known), order_checked=order_checked, twins=twins_checked)
    return 1 if violations else 0


def write_evidence(chk, tier, seed, pr, cases, impl, model, extra, nviol, wall, notes, evalA=0, diffs=0,
                   oracle_fails=0, known=(), order_checked=0, twins=0):
    distinct = {}
    classes = {}
    outcome = {}
    for i, c in enumerate(cases):
        classes[c.cls] = classes.get(c.cls, 0) + 1
        if c.nontrivial:
            distinct[c.line] = 1
        if model:
            o = model[i].split(" ")[0]
            outcome[o] = outcome.get(o, 0) + 1
    rnd = random.Random(seed)
    samples = [c.line[:300] for c in (rnd.sample(cases, min(6, len(cases))) if cases else [])]
    samples += ["theorem MRS.Props.%s.%s" % (chk.pid, n) for n in
                theorem_names(os.path.join(COQ, "Props", chk.pid + ".v"))[0][:40]]
    cov = {
        "obligations": pr["obligations"], "discharged": pr["discharged"], "checker_cmd": pr["checker_cmd"],
        "trusted_base": TRUSTED_BASE + ["axioms reported by Print Assumptions: " + (", ".join(pr["axioms"]) or "none (closed under the global context)")],
        "evaluations": len(cases) * max(1, len(chk.profiles)),
        "distinct_nontrivial": len(distinct),
        "rule": chk.rule,
        "samples": samples,
        "input_classes": classes,
        "model_outcomes": outcome,
        "profiles": list(chk.profiles),
        "evaluatorA_cases_crosschecked": evalA,
        "model_impl_disagreements": diffs,
        "cases_rerun_in_shuffled_order": order_checked,
        "near_copies_run_after_their_case": twins,
        "oracle_failures": oracle_fails,
        "known_findings_reproduced": list(known),
        "proof_failures": pr["failures"],
        "notes": notes,
    }
    if "coqchk_axioms" in pr:
        cov["coqchk_axioms"] = pr["coqchk_axioms"]
    if "coqchk_note" in pr:
        cov["coqchk_note"] = pr["coqchk_note"]
    cov.update(extra)
    if "exhaustive" in cov and not isinstance(cov["exhaustive"], bool):
        cov["exhaustive_note"] = str(cov.pop("exhaustive"))
    ev = {"property_id": chk.pid, "tier": tier, "seed": seed, "level": "proof", "coverage": cov,
          "assumptions": [chk.level_note] if getattr(chk, "level_note", None) else [],
          "wall_s": round(wall, 2), "violations": nviol}
    # evidence of record comes only from runs against /repo itself; experiments on a scratch copy write elsewhere
    evdir = os.path.join(VERIF, "evidence") if REPO == "/repo" else os.path.join(BUILD, "evidence-alt")
    if getattr(chk, "replaying", False):
        evdir = os.path.join(BUILD, "evidence-replay")      # a replay is not a run of record
    os.makedirs(evdir, exist_ok=True)
    json.dump(ev, open(os.path.join(evdir, chk.pid + ".json"), "w"), indent=1)
