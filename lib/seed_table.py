#!/usr/bin/env python3
# prints the markdown table of seeded changes and which check reported them (from seeded/*/meta.json + detection.json)
import json, os, glob
HERE = os.path.dirname(os.path.dirname(os.path.abspath(__file__)))
rows = []
for d in sorted(glob.glob(os.path.join(HERE, "seeded", "*"))):
    m = json.load(open(os.path.join(d, "meta.json")))
    det = json.load(open(os.path.join(d, "detection.json"))) if os.path.exists(os.path.join(d, "detection.json")) else {}
    caught = ", ".join("%s %s" % (p, "VIOLATION" + (" (no-failing-input-found)" if any("no-failing-input-found" in l for l in r.get("reported", [])) else "")
                                   if r.get("detected") else "%s missed" % p) for p, r in det.items()) or "not run"
    rows.append("| %s | %s | %s | %s | %s |" % (os.path.basename(d), m["property"], m.get("summary", "").replace("|", "/")[:220],
                                                m.get("needs", "").replace("|", "/")[:200], caught))
print("| seed | property | change | needs | result of `./check <property> quick` |\n|---|---|---|---|---|")
print("\n".join(rows))
