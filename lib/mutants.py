#!/usr/bin/env python3
# mutants.py — DEV AID (not part of any registered check): which mechanical mutants of /repo/src change NO answer on the
# correspondence streams?  Every survivor is either an equivalent mutant, outside every property, or a gap in a generator.
#
#   lib/mutants.py sample [N]          take up to N evenly spaced case lines per property from build/cases/*.lines
#                                      (written by `VERIF_DUMP_CASES=1 ./check Cxx quick`) and record the answers of /repo
#   lib/mutants.py run K [jobs] [seed] try K randomly chosen mutation sites, `jobs` scratch worktrees of /repo under /tmp
#                                      (removed at the end); results in build/mutants/results.jsonl
#   lib/mutants.py report              survivors first
#
# A mutant is "killed" when the harness built against it answers any sampled line differently from /repo (that is exactly
# what the correspondence stage of the checks would see, since the model's answers equal /repo's on every line).
# Survivors are then put through the crate's own test suite, to see whether they are changes the suite lets through.
import glob, hashlib, json, os, random, re, shutil, subprocess, sys
from concurrent.futures import ThreadPoolExecutor
HERE = os.path.dirname(os.path.dirname(os.path.abspath(__file__)))
B = os.path.join(HERE, "build", "mutants")
FILES = ["network.rs", "blockdata/block.rs", "blockdata/transaction.rs", "consensus/encode.rs", "consensus/endian.rs",
         "cryptonote/hash.rs", "cryptonote/onetime_key.rs", "cryptonote/subaddress.rs", "util/address.rs", "util/amount.rs",
         "util/key.rs", "util/ringct.rs"]
RULES = [(r" < ", " <= "), (r" <= ", " < "), (r" > ", " >= "), (r" >= ", " > "), (r" == ", " != "), (r" != ", " == "),
         (r" && ", " || "), (r" \|\| ", " && "), (r" \+ ", " - "), (r" - ", " + "), (r" \* ", " + "), (r" / ", " * "), (r" % ", " / "),
         (r" << ", " >> "), (r" >> ", " << "), (r" \| ", " & "), (r" & ", " | "), (r" \^ ", " | "),
         (r"\btrue\b", "false"), (r"\bfalse\b", "true"), (r"\.\.=", ".."), (r"(?<=[\w)])\.\.(?=[\w(])", "..="),
         (r"\bif !", "if "), (r"checked_add", "wrapping_add"), (r"checked_sub", "wrapping_sub"), (r"checked_mul", "wrapping_mul"),
         (r"\.is_some\(\)", ".is_none()"), (r"\.is_none\(\)", ".is_some()"), (r"\.is_empty\(\)", ".len() == 1"),
         (r"\.first\(\)", ".last()"), (r"\.min\(", ".max("), (r"\.max\(", ".min("), (r"\bas u8\b", "as u16 as u8"),
         (r"\.rev\(\)", ""), (r"\.skip\(1\)", ""), (r"\.cycle\(\)", ""), (r"\?;", ".ok();")]
NUM = re.compile(r"(?<![\w.])(0x[0-9a-fA-F_]+|\d[\d_]*)(?![\w.]*\w)(?!\.\d)")


def sites():
    out = []
    for f in FILES:
        src = open(os.path.join("/repo/src", f)).read().split("\n")
        end = len(src)
        for i, l in enumerate(src):
            if l.strip() == "#[cfg(test)]" and i + 1 < len(src) and src[i + 1].startswith("mod "):
                end = i
                break
        depth_fuzz = False
        for i in range(end):
            l = src[i]
            code = l.split("//")[0]
            s = code.strip()
            if not s or s.startswith(("#", "use ", "pub use ", "///", "//!", "impl_", "macro_rules")):
                continue
            if "cfg(feature = \"fuzzing\")" in l or "experimental" in l:
                continue
            for pat, rep in RULES:
                for m in re.finditer(pat, code):
                    if pat in (r" < ", r" > ") and re.search(r"(impl|fn|struct|enum|type|where|::)\s*<|<[A-Z&']", code):
                        continue
                    out.append((f, i, m.start(), m.end(), rep, pat))
            if '"' in code and "b\"" not in code and "[" not in code:
                continue
            for m in NUM.finditer(code):
                t = m.group(1)
                try:
                    v = int(t.replace("_", ""), 0)
                except ValueError:
                    continue
                pre = code[:m.start()]
                if re.search(r"(u|i)$", pre) or pre.endswith(("[u8; ", "; ")) and False:
                    continue
                out.append((f, i, m.start(), m.end(), (hex(v + 1) if t.startswith("0x") else str(v + 1)), "num+1"))
                if v > 0:
                    out.append((f, i, m.start(), m.end(), (hex(v - 1) if t.startswith("0x") else str(v - 1)), "num-1"))
    return out


def sh(cmd, timeout, cwd=None, env=None, inp=None):
    try:
        p = subprocess.run(cmd, cwd=cwd, env=dict(os.environ, **(env or {})), input=inp, capture_output=True, text=True, timeout=timeout)
        return p.returncode, p.stdout, p.stderr
    except subprocess.TimeoutExpired:
        return -9, "", "timeout"


def harness_for(repo, tag):
    d = "/tmp/mut-h-" + tag
    os.makedirs(os.path.join(d, "src"), exist_ok=True)
    for f in os.listdir(os.path.join(HERE, "harness", "src")):
        shutil.copy(os.path.join(HERE, "harness", "src", f), os.path.join(d, "src", f))
    open(os.path.join(d, "Cargo.toml"), "w").write(open(os.path.join(HERE, "harness", "Cargo.toml")).read().replace('path = "/repo"', 'path = "%s"' % repo))
    shutil.copy("/repo/Cargo.lock", os.path.join(d, "Cargo.lock")) if not os.path.exists(os.path.join(d, "Cargo.lock")) else None
    if os.path.exists(os.path.join(HERE, "harness", "Cargo.lock")):
        shutil.copy(os.path.join(HERE, "harness", "Cargo.lock"), os.path.join(d, "Cargo.lock"))
    return d


def build(hd, target):
    return sh(["nice", "-n", "15", "cargo", "build", "--offline", "--quiet", "--release"], 1500, cwd=hd,
              env={"CARGO_TARGET_DIR": target, "RUSTFLAGS": "--cfg monero_rs_verif -Awarnings", "CARGO_NET_OFFLINE": "true",
                   "CARGO_BUILD_JOBS": "4"})


def answers(binary, pid):
    inp = open(os.path.join(B, "sample", pid + ".lines")).read()
    rc, out, err = sh(["nice", "-n", "15", binary], 300, inp=inp)
    return "rc=%s\n" % rc + out


def cmd_sample(n):
    os.makedirs(os.path.join(B, "sample"), exist_ok=True)
    for f in sorted(glob.glob(os.path.join(HERE, "build", "cases", "*.lines"))):
        pid = os.path.basename(f)[:-6]
        lines = open(f).read().split("\n")
        lines = [l for l in lines if l]
        small = [l for l in lines if len(l) < 200000]
        step = -(-len(small) // n)                     # ceil: evenly spaced over the WHOLE stream (order kept)
        pick = small[::step]
        open(os.path.join(B, "sample", pid + ".lines"), "w").write("\n".join(pick) + "\n")
        print(pid, len(lines), "->", len(pick))
    hd = harness_for("/repo", "base")
    rc, out, err = build(hd, "/tmp/mut-t-base")
    assert rc == 0, err[-2000:]
    for f in sorted(glob.glob(os.path.join(B, "sample", "*.lines"))):
        pid = os.path.basename(f)[:-6]
        a = answers("/tmp/mut-t-base/release/mrs-harness", pid)
        open(os.path.join(B, "sample", pid + ".out"), "w").write(a)
        a2 = answers("/tmp/mut-t-base/release/mrs-harness", pid)
        print(pid, "baseline", hashlib.sha256(a.encode()).hexdigest()[:12], "stable" if a == a2 else "UNSTABLE")
    shutil.rmtree("/tmp/mut-h-base", ignore_errors=True)
    shutil.rmtree("/tmp/mut-t-base", ignore_errors=True)


RESULTS = "results.jsonl"


def worker(k, todo, done_ids, suite=True):
    wt, target = "/tmp/mut-w%d" % k, "/tmp/mut-t%d" % k
    subprocess.run(["git", "-C", "/repo", "worktree", "remove", "--force", wt], capture_output=True)
    subprocess.check_call(["git", "-C", "/repo", "worktree", "add", "-q", "--detach", wt, "HEAD"])
    hd = harness_for(wt, "w%d" % k)
    pids = sorted(os.path.basename(f)[:-6] for f in glob.glob(os.path.join(B, "sample", "*.lines")))
    base = {p: open(os.path.join(B, "sample", p + ".out")).read() for p in pids}
    try:
        for mid, (f, i, a, b, rep, rule) in todo:
            if mid in done_ids:
                continue
            path = os.path.join(wt, "src", f)
            subprocess.check_call(["git", "-C", wt, "checkout", "-q", "--", "."])
            src = open(path).read().split("\n")
            old = src[i]
            src[i] = old[:a] + rep + old[b:]
            open(path, "w").write("\n".join(src))
            rec = {"id": mid, "file": f, "line": i + 1, "rule": rule, "old": old.strip(), "new": src[i].strip()}
            rc, out, err = build(hd, target)
            if rc != 0:
                rec["compile"] = False
            else:
                rec["compile"] = True
                killed = []
                for p in pids:
                    if answers(os.path.join(target, "release", "mrs-harness"), p) != base[p]:
                        killed.append(p)
                rec["killed_by"] = killed
                if not killed and suite:
                    rc, out, err = sh(["nice", "-n", "15", "cargo", "test", "--offline", "--quiet"], 1800, cwd=wt,
                                      env={"CARGO_TARGET_DIR": target + "-suite", "CARGO_NET_OFFLINE": "true", "CARGO_BUILD_JOBS": "4", "RUSTFLAGS": "-Awarnings"})
                    rec["suite_passes"] = (rc == 0)
            with open(os.path.join(B, RESULTS), "a") as fh:
                fh.write(json.dumps(rec) + "\n")
    finally:
        subprocess.run(["git", "-C", "/repo", "worktree", "remove", "--force", wt], capture_output=True)
        for d in (target, target + "-suite", "/tmp/mut-h-w%d" % k):
            shutil.rmtree(d, ignore_errors=True)


def cmd_run(k, jobs, seed):
    allsites = sites()
    rng = random.Random(seed)
    idx = list(range(len(allsites)))
    rng.shuffle(idx)
    todo = [("%s:%d:%d:%s" % (allsites[j][0], allsites[j][1] + 1, allsites[j][2], allsites[j][4]), allsites[j]) for j in idx[:k]]
    done = set()
    if os.path.exists(os.path.join(B, "results.jsonl")):
        done = {json.loads(l)["id"] for l in open(os.path.join(B, "results.jsonl"))}
    print(len(allsites), "sites;", len(todo), "chosen;", len(done), "already done")
    with ThreadPoolExecutor(max_workers=jobs) as ex:
        list(ex.map(lambda kk: worker(kk, todo[kk::jobs], done), range(jobs)))


def cmd_confirm(jobs):
    """second pass over the survivors of results.jsonl with the CURRENT sample (take a larger one first): results2.jsonl"""
    rs = [json.loads(l) for l in open(os.path.join(B, "results.jsonl"))]
    surv = [r for r in rs if r["compile"] and not r["killed_by"] and r.get("suite_passes")]
    by_id = {}
    for (f, i, a, b, rep, rule) in sites():
        by_id["%s:%d:%d:%s" % (f, i + 1, a, rep)] = (f, i, a, b, rep, rule)
    todo = [(r["id"], by_id[r["id"]]) for r in surv if r["id"] in by_id]
    done = set()
    global RESULTS
    RESULTS = "results2.jsonl"
    if os.path.exists(os.path.join(B, RESULTS)):
        done = {json.loads(l)["id"] for l in open(os.path.join(B, RESULTS))}
    print(len(surv), "survivors;", len(todo), "to re-run;", len(done), "already done")
    with ThreadPoolExecutor(max_workers=jobs) as ex:
        list(ex.map(lambda kk: worker(kk, todo[kk::jobs], done, suite=False), range(jobs)))


def cmd_report():
    if os.path.exists(os.path.join(B, "results2.jsonl")) and "first" not in sys.argv:
        rs2 = {json.loads(l)["id"]: json.loads(l) for l in open(os.path.join(B, "results2.jsonl"))}
        rs = []
        for l in open(os.path.join(B, "results.jsonl")):
            r = json.loads(l)
            if r["id"] in rs2 and rs2[r["id"]].get("compile"):
                r["killed_by"] = rs2[r["id"]]["killed_by"]
            rs.append(r)
    else:
        rs = [json.loads(l) for l in open(os.path.join(B, "results.jsonl"))]
    comp = [r for r in rs if r["compile"]]
    surv = [r for r in comp if not r["killed_by"]]
    print("%d tried, %d compiled, %d killed by the streams, %d survived (%d of them also pass the crate's suite)" %
          (len(rs), len(comp), len(comp) - len(surv), len(surv), sum(1 for r in surv if r.get("suite_passes"))))
    for r in sorted(surv, key=lambda r: (not r.get("suite_passes"), r["file"], r["line"])):
        print("%s %s:%d [%s]\n    - %s\n    + %s" % ("SUITE-PASSES" if r.get("suite_passes") else "suite-kills ", r["file"], r["line"], r["rule"], r["old"], r["new"]))


if __name__ == "__main__":
    c = sys.argv[1]
    if c == "sites":
        s = sites()
        print(len(s))
    elif c == "sample":
        cmd_sample(int(sys.argv[2]) if len(sys.argv) > 2 else 4000)
    elif c == "run":
        cmd_run(int(sys.argv[2]), int(sys.argv[3]) if len(sys.argv) > 3 else 3, int(sys.argv[4]) if len(sys.argv) > 4 else 1)
    elif c == "confirm":
        cmd_confirm(int(sys.argv[2]) if len(sys.argv) > 2 else 4)
    elif c == "report":
        cmd_report()
