#!/usr/bin/env python3
# regenerates MANIFEST.json from the table below (kept in one place so it stays valid)
import json, os
HERE = os.path.dirname(os.path.dirname(os.path.abspath(__file__)))
CLAIMED = {
    "C14": ("Coq theorems (Props/C14.v): enc = textbook LEB128 for every n, length formula, decode(encode n ++ r) = (n, r), "
            "decode sound (accepted => minimal encoding of a u64 + unread rest), accepted-iff, rejection of overflow / truncation / "
            "superfluous zero groups, never panics; all for unbounded inputs. Correspondence with the real VarInt codec is exhaustive "
            "on every <=2-byte string plus boundary patterns and random u64.",
            "model Model/Varint.v is hand-written; tie = correspondence check (evaluator B extracted OCaml, cross-checked with coqc vm_compute)",
            "Coq proof + model/implementation correspondence", "4 C14"),
    "C20": ("Coq theorems (Props/C20.v): table literal, bijection, exact rejection for every number, address-type lookup for blobs of any "
            "length, never panics. Correspondence exhaustive (3x3, 256 bytes, 3x256x81 blobs) so the model is the code on that domain.",
            "model Model/Network.v hand-written; exhaustive correspondence",
            "Coq proof + exhaustive correspondence", "4 C20"),
    "C01": ("Coq theorems (Props/C01.v), for every byte string and every size_of table: whatever dec_T accepts re-serialises to exactly the "
            "consumed bytes (s = enc x ++ rest) for Transaction, Block, TransactionPrefix, BlockHeader and every component (TxIn, TxOut, targets, "
            "hashes, raw extra, VarInt, Signature, RctType, EcdhInfo, RangeSig/BoroSig, Bulletproof(+), CLSAG, MLSAG, RctSigBase, RctSigPrunable, "
            "Vec<T>/sized vectors for any exact element decoder); consumed = length of the re-serialisation; no two byte strings parse to the "
            "same value. Correspondence: parse-then-serialise on ~1.5*10^5 inputs per quick run (test-suite literals, model-encoded generated "
            "transactions of all versions / RingCT types, each mutated at every offset), dumps compared structurally.",
            "model Model/Codec.v hand-written (mirrors the Rust decoders line by line); tie = correspondence check; oracle serialize(parse(b)) == b[..n] runs on the implementation alone",
            "Coq proof + model/implementation correspondence", "4 C01"),
    "C12": ("Coq proof, for every byte string / text and for every hash with 32-byte output and every key test implying length 32 (instances "
            "Keccak-256 and Ed25519 decompress-recompress proved to qualify): Monero base58 (model of base58-monero 2.1.0) is a bijection between "
            "byte strings and accepted texts (block digits unique, overflow and illegal lengths refused); Address blob = tag, keys, payment id, "
            "4-byte checksum; blob/text/hex/consensus forms round-trip; from_bytes accepts exactly canonical blobs of well-formed addresses, "
            "from_str exactly their canonical texts; trailing, truncated, wrong-length, unknown-tag inputs refused; no parser panics. 29 theorems.",
            "theorems are about Model/Base58.v and Model/Address.v; tie to src/util/address.rs and base58-monero 2.1.0 is the correspondence check "
            "(~4*10^4 cases per quick run, all four forms, every single-byte corruption, all tags, all lengths) plus an independent python oracle",
            "Coq proof + model/implementation correspondence", "4 C12"),
    "C15": ("Coq theorems (Props/C15.v), for ALL byte strings and ALL amounts: from_str_in returns q iff the text is a well-formed decimal "
            "(optional '-', digits, optional point, at most `decimals d` decimals, 1..50 bytes) denoting exactly q piconero within range - never "
            "rounded, truncated, wrapped or mis-scaled, never a panic; FromStr accepts exactly `text SP name` over the 12-entry alias table; "
            "formatting is the unique canonical fixed-point expansion for every u64/i64 (incl. MIN); parse(format a) = a up to 2^63-1, plain, "
            "with suffix and through Display. Correspondence: every string over {0,1,9,.,-,x,space} up to length 5 x 5 denominations x both "
            "types, boundary magnitudes, 48-52-byte paddings, non-ASCII, random; oracle = python Fraction arithmetic.",
            "model Model/Amount.v works on the UTF-8 bytes of the text; std integer Display / zero padding / splitn are modelled; tie = correspondence check",
            "Coq proof + model/implementation correspondence", "4 C15"),
    "C18": ("Coq theorems (Props/C18.v): for ALL u64/i64 operands the five checked operations of Amount and SignedAmount equal exact Z arithmetic "
            "(truncating division) when representable with non-zero divisor and None otherwise (MIN % -1 = 0, MIN / -1 refuses); operator and "
            "assigning forms return that result and panic iff the checked form is None; to_signed / to_unsigned / positive_sub characterised "
            "exactly. Correspondence on ~3*10^5 operand pairs in BOTH release and dev (overflow-checking) profiles; oracle = python big integers.",
            "model Model/Amount.v hand-written; std checked_*/wrapping_rem/as-cast behaviour modelled; tie = correspondence check in both profiles",
            "Coq proof + model/implementation correspondence", "4 C18"),
    "C02": ("Coq theorems (Props/C02.v), for every size_of table: wf x -> dec_T (enc_T x ++ r) = (Ok x, r) for Transaction, Block, "
            "TransactionPrefix, BlockHeader and every component (all seven RingCT types with their dependent vector shapes), integers at every "
            "width, Vec<T> for any round-tripping element; strict parse of the serialisation succeeds and fails with any non-empty trailer; "
            "partial parse consumes exactly |enc x|; the typed transaction extra and each of its sub-fields round-trip through the consensus codec (C02_extra, C02_extra_subfield); the usize every encoder returns (Model/CodecLen.v mirrors the Rust sums) equals the bytes "
            "written. wf states the implicit-length relations, integer ranges, fixed array lengths and the decoder's 32 MiB allocation cap. "
            "Correspondence: serialise/parse/strict/trailing on ~7*10^3 generated well-formed descriptions incl. the full RingCT-type x shape grid.",
            "model Model/Codec.v + Model/CodecLen.v hand-written; String/UTF-8 is checked by correspondence only; Address and PublicKey codecs are the subject of C12, C13",
            "Coq proof + model/implementation correspondence", "4 C02"),
    "C17": ("Coq theorems (Props/C17.v): the Gallina hash equals, on bit strings, the FIPS 202 sponge SPONGE[Keccak-p[1600,24], pad10*1, 1088](M,256) "
            "with no domain-separation suffix (original Keccak-256, provably different padding from SHA3-256), with Keccak-p specified at bit level "
            "(theta, rho, pi, chi, iota with generated offsets and round constants); digest length; byte-level shape and minimality of the padding; "
            "every block absorbed (fuel never exhausted); hash-to-scalar = little-endian digest mod l with canonical 32-byte output. Correspondence "
            "with src/cryptonote/hash.rs: every length 0..300 and around every multiple of 136 up to 1100, boundary digests; oracle = independent python Keccak.",
            "model Model/Keccak.v hand-written; tiny-keccak is exercised, not modelled; tie = correspondence check",
            "Coq proof (refinement to bit-level FIPS 202 spec) + correspondence", "4 C17"),
    "C06": ("Coq theorems (Props/C06.v): for every two-to-one hash and every leaf count up to the 2^28 limit the in-place tree hash of the model "
            "equals the recursive CryptoNote definition (and panics by assert above the limit); tree_hash_cnt is the largest power of two strictly "
            "below n on 3..2^28; PoW blob = header || root || LEB128(1+n); id = H(LEB128(|blob|) || blob) with the single 202612 substitution. "
            "Correspondence: tree_hash for every n in 1..260 and around powers of two, tx_root / serialize_hashable / id on built blocks and block 202612; "
            "oracle = independent recursive python implementation.",
            "model Model/TreeHash.v hand-written over an abstract hash; the miner-transaction hash is an input of the block ops (C05 covers it); tie = correspondence check",
            "Coq proof (refinement to recursive spec) + correspondence", "4 C06"),
    "C13": ("Coq theorems (Props/C13.v, 23): secret key accepted iff 32 bytes encoding an integer < l; accepted keys give back the same bytes in "
            "binary/hex/consensus form; parsers accept only canonical input (unconditional). Public key accepted iff it is compress P of a valid "
            "point; operators are the group operations on the encoded points; pub(a+b)=pub a+pub b, a(bG)=(ab)G, (P+Q)-Q=P; panic iff a stored key "
            "does not decompress - proved for EVERY group satisfying the EdLaws record (_partial). On the executable Ed25519 model accepted keys have "
            "y<p and no negative zero, and 13 of the 22 EdLaws fields are proved for it unconditionally (C13_instance_laws_proved: closure of O, G, negation, torsion points; commutativity, P+O=P, 0P, 1P, (-a)P, lG=O, 8T=O, compress length, equality test), the other 9 (needing field inverses, i.e. primality of 2^255-19, and the Edwards addition law) are listed as the exact hypotheses of C13_instance_laws_remaining. Correspondence: 9.5k cases incl. all 38 non-canonical y, negative zeros, small-order points; model = library = "
            "independent python Ed25519.",
            "PARTIAL: group laws of the curve are hypotheses (EdLaws, shown satisfiable); for the executable model 13 of the 22 are proved, the remaining 9 (closure under +, associativity, P-P=O, distributivity, order of G, decompress/compress) "
            "are validated by KATs and computation on every case, not proved (no elliptic-curve or primality library available)",
            "Coq proof over an abstract group (partial) + correspondence", "4 C13"),
    "C10": ("Coq theorems (Props/C10.v, 13): derivation(a,B) = 8(aB) = (8a)B for every valid point / accepted key; a small-order component is "
            "cleared (B'+T -> (8a mod l)B'); sender derivation = receiver derivation; one-time key = Hs(D||varint i)G + S, recognised by the receiver - "
            "for EVERY group satisfying EdLaws (_partial) and every Hs. Correspondence: all eight torsion offsets x boundary scalars; model = library "
            "= independent python.",
            "PARTIAL: group laws are hypotheses (EdLaws); model hand-written from onetime_key.rs after fix 91c3fdb",
            "Coq proof over an abstract group (partial) + correspondence", "4 C10"),
    "C11": ("Coq theorems (Props/C11.v, 13): m = Hs(\"SubAddr\\0\"||v||le32 i||le32 j) with the exact 48-byte layout; s' = s+m, v' = v s' (mod l); "
            "index (0,0) returns the primary keys on all paths and is the only special case; preimage injective in (v,i,j); address record = "
            "(net or Mainnet, SubAddress, S', V') - unconditional. S' = S+mG, V' = vS', s'G = S', v'G = V', distinct scalars mod l => distinct spend "
            "keys - for EVERY group satisfying EdLaws (_partial). Correspondence: 81 boundary index pairs x wallets x networks; model = library = python.",
            "PARTIAL: group laws are hypotheses (EdLaws; distinctness uses that G has order exactly l); no collision resistance assumed; address text is C12",
            "Coq proof over an abstract group (partial) + correspondence", "4 C11"),
    "C16": ("Coq theorems (Props/C16.v, 22), for an arbitrary key-validity predicate and ALL inputs: ExtraField::try_parse is total on every byte "
            "string (fuel never exhausted, no panic, padding counter never overflows; each iteration consumes >= 1 byte); for every sub-field "
            "sequence with constructible sub-fields, padding of fewer than 255 bytes only in last position (255 anywhere) and serialised length "
            "<= 32 MiB, RawExtraField::from(ExtraField) is the concatenation of the sub-field encodings and try_parse returns Ok of the same "
            "sequence; strict parse of each sub-field alone returns it; try_parse is Ok iff the input decodes with no failed sub-field, and then "
            "re-serialise + re-parse is the identity on sub-fields; accessors return the first TxPublicKey / AdditionalPublickKey; the prefix "
            "decoder takes any extra bytes verbatim. Correspondence on ~1.4*10^5 inputs in BOTH profiles (all strings <= 2 bytes, all padding "
            "sizes in every position, boundaries, every-offset mutations); oracle = independent python grammar + Ed25519 validity.",
            "model Model/Extra.v hand-written; PublicKey::from_slice acceptance abstract in the theorems (Ed25519.pk_valid in the executable instance); "
            "the 32 MiB cap is part of the round-trip side condition (RawExtraField::from panics beyond it: DESIGN section 6, observation)",
            "Coq proof + model/implementation correspondence", "4 C16"),
    "C03": ("Coq theorems (Props/C03.v): Spec/Wire.v lists the fields of the Monero reference serialisers (prefix, v1 signatures, rctSigBase, "
            "rctSigPrunable incl. the varint BulletproofPlus count, header, block) rendered with textbook LEB128 and format-prescribed array "
            "counts; for every well-formed description enc_T d = spec_T d and dec_T (spec_T d ++ r) = (Ok d, r), for transactions, blocks, "
            "prefixes and each component; the spec reproduces 17 real transactions and 2 real blocks of the test-suite byte for byte by kernel "
            "computation (Proofs/WireKAT.v). Correspondence: library bytes vs spec bytes and library parse of spec bytes vs description on the "
            "7 types x ring x shape grid, proof counts 0..256, random shapes, blocks.",
            "spec hand-written from the reference layout (cryptonote_basic.h, rctTypes.h as recalled; pinned by mainnet objects, all of which have one proof); tie = correspondence",
            "Coq proof (refinement to field-list spec) + correspondence", "4 C03"),
    "C05": ("Coq theorems (Props/C05.v), for ANY hash H and every size table: if bytes b parse completely as transaction t then the hash the "
            "library model computes from the parsed object equals Monero's identifier computed from the BYTES and the format boundaries "
            "(v1: H(b); v>=2: H(H(prefix bytes) || H(base bytes) || H(prunable bytes) or null hash for type Null; zero-input transactions hashed "
            "as type Null), and the prefix hash is H of the first p bytes; the id is a function of the bytes alone. Correspondence: ids of "
            "test-suite transactions, the type x shape grid, random shapes, zero-input v2, parsable mutations; oracle = python three-hash "
            "definition with own Keccak and boundaries from the library's own parsers.",
            "model Model/TxId.v hand-written after fix a7d4e8d; uses C01 (exactness) to turn 'serialisation of the parsed part' into 'slice of b'; Keccak instance is C17's",
            "Coq proof + model/implementation correspondence", "4 C05"),
    "C19": ("proof, partial (serde data model is modelled). Coq theorems (Props/C19.v, 37) about Model/Json.v (JSON value type, serde_json's compact "
            "printer, one writer and one reader per type after serde's derive conventions): of_json_T(to_json_T x) = Some x for hash, key, Key64, "
            "index, header, txin, target, txout, prefix, signature, ecdh, rangesig, mgsig, clsag, bulletproof(+), RctSigBase, RctSigPrunable, "
            "RctSig, transaction, block; addresses with valid keys (by C12): JSON is the C12 text, a string is accepted iff from_str accepts it; "
            "amounts: as_pico for every u64/i64, as_xmr for |a| <= 2^63-1 (by C15), plain, opt and slice/vec; beyond the limit the string is written "
            "but refused. Correspondence: serde_json::to_string equals the model's printed text byte for byte and python's independent construction; "
            "from_str(to_string x) = x; re-ordered / extended / mutated JSON accepted or refused identically by serde and the model.",
            "PARTIAL: serde, serde_derive, serde_json, serde-big-array and the serde impls of fixed-hash / curve25519-dalek are modelled, not verified; "
            "JSON text parsing is not modelled (python's json module reads the text); ExtraField/SubField/PublicKey derives not covered",
            "Coq proof over a modelled serde data model (partial) + correspondence", "4 C19"),
    "C07": ("Coq theorems (Props/C07.v, 15): soundness of every reported (position, index, key) - position in range, index in the scanned ranges, "
            "key = first TxPublicKey or the additional key at that position (only if the main key did not match), view tag passed, "
            "P = Hs(8vK||varint pos)G + S_idx; positions strictly increasing; not-reported when no key matches; completeness w.r.t. an independent "
            "sender specification (Spec/Sender.v: primary and subaddress destinations, main or additional key, tagged or untagged) with exact "
            "(index, key) under explicit no-other-match hypotheses; reported <-> matches for EVERY transaction (not only sender-built ones) when the spend key is an accepted key, with a refutation witness showing that hypothesis is needed; SubKeyChecker::check is check_key of the scan, sound and complete in the same sense; the look-up is last-insert-wins; extra-field keys are accepted exactly when PublicKey::from_slice accepts them; the three entry points agree - for EVERY group satisfying EdLaws (_partial) "
            "and every hash. Correspondence: model sender builds the bytes; library = model = independent python sender + scanner on "
            "n in {1,2,3,130,260} (thorough 2000, 20000), all RingCT types, all output classes.",
            "PARTIAL: group laws are hypotheses (EdLaws); HashMap modelled as last-insert-wins association list; completeness relative to "
            "Spec/Sender.v and conditional on the scan returning Ok; no collision resistance assumed",
            "Coq proof over an abstract group (partial) + correspondence", "4 C07"),
    "C08": ("Coq theorems (Props/C08.v, 12): every opening returned for ANY input satisfies C = C_t and C = yG + aH; a successful scan of a RingCT "
            "transaction gives every owned output an opening of its own out_pk entry, otherwise clear amounts (0 -> None); failures are exactly "
            "MissingEcdhInfo / MissingCommitment / InvalidCommitment; the decoder inverts the sender (Spec/Sender.v) in the compact encoding for "
            "all a < 2^64 and in the legacy encoding for all a < 2^64, masks < l and ALL shared secrets; END TO END: a successful scan of a transaction whose output k was built by the sender model reports it with exactly the sender's amount, mask and commitment, and the opening step of such an output never errs (C08_sender_amount_recovered_partial, C08_sender_step_ok_partial) - for EVERY group satisfying EdLaws "
            "(_partial). Correspondence: sender-encoded and corrupted fields at every byte position, all RingCT types, truncated vectors; "
            "library = model = python, and yG + aH = C re-checked independently on every returned opening.",
            "PARTIAL: group laws are hypotheses (EdLaws); legacy exactness needs Hs in [0,l) (true of Keccak mod l); model hand-written from ringct.rs after fix a645281",
            "Coq proof over an abstract group (partial) + correspondence", "4 C08"),
    "C09": ("Coq theorems (Props/C09.v, 4): recover = Hs(8vK||varint n) + s (+ subaddress scalar) mod l; its public key is the one-time key of "
            "that address and position; every output reported by a scan with (v, sG) is recovered without panic to x with xG = the output's key; for a sender-built output x*G is the sender's one-time key "
            "- for EVERY group satisfying EdLaws (_partial). Correspondence: KeyRecoverer on boundary positions / indices and "
            "OwnedTxOut::recover_key on every owned output of sender-built transactions; library = model = python.",
            "PARTIAL: group laws are hypotheses (EdLaws); model hand-written from onetime_key.rs / transaction.rs",
            "Coq proof over an abstract group (partial) + correspondence", "4 C09"),
    "C04": ("proof, partial. Coq theorems (Props/C04.v, 79), for all inputs and size tables: no consensus decoder of the model returns Panic or "
            "runs out of fuel (the codec has no fuel); loop bounds (a completed rep has n <= |input|, iterations <= |input|+1 also on the error "
            "path; zero-column MLSAG rows are the only non-consuming element and are unreachable from dec_tx); every allocation request <= 32 MiB "
            "and the TOTAL of kept allocations of a successful transaction / block parse is <= A + B*|input| (C04_alloc_kept_total); the PEAK of live reservations of every run of the transaction / block decoder - successful or failing, e.g. truncated after huge declared lengths - is <= 2*32 MiB + 1316 B + 33*|input| for the real size tables (C04_alloc_peak_tx / _block / _all_tables, over an instrumented copy of the decoders proved equal to the model by erasure; with_capacity reservations, amortised doubling of pushed vectors, nesting depth 2 attained by an 11-byte witness); tree-hash assert / block-id unwrap / ring checked_sub "
            "unreachable on parsed objects; all text parsers total; output scanning (all entry points, any table, any ranges, any key bytes), SubKeyChecker::check, check_view_tag at any position and OwnedTxOut::recover_key never panic in the model for every EdLaws group in which the constant H decodes (true of the executable instance by computation, shown necessary by a counter-instance). Runtime behaviour (unwinding, aborts, hangs, heap peak <= 129 MiB + 96*|input|) "
            "observed on ~1.3*10^5 adversarial evaluations in release and overflow-checking builds incl. operations on parsed objects and scanning "
            "with empty / reversed / extreme index ranges.",
            "PARTIAL: the allocation events of the instrumented decoders are read off std (exact with_capacity, doubling from capacity 4, from_iter with size hint 0) and off the ~10 allocation sites of the crate by inspection; allocator overhead, the ExtraField parser and operations on parsed objects are not instrumented; hashing / formatting of parsed "
            "objects and everything inside dependencies (dalek, tiny-keccak, base58-monero, hex, std), stack depth, wall clock and the real "
            "allocator are observed, not modelled",
            "Coq proof of the logic (partial) + runtime observation on the real crate in both profiles", "4 C04"),
}
NOT_YET = {}
ALL = ["C%02d" % i for i in range(1, 21)]


def main():
    checks = []
    for pid in ALL:
        if pid in CLAIMED:
            text, note, tech, ref = CLAIMED[pid]
            checks.append({
                "property_id": pid,
                "quick_cmd": "./check %s quick" % pid,
                "thorough_cmd": "./check %s thorough" % pid,
                "evidence_file": "/verif/evidence/%s.json" % pid,
                "replay_cmd_template": "./check %s --replay {path}" % pid,
                "engine": "coq-model+correspondence",
                "level_claimed": {"category": "proof", "text": text, "design_ref": "DESIGN.md section " + ref},
                "level_note": note,
                "technique": tech,
            })
    na = [{"property_id": p, "reason": NOT_YET.get(p, "model and theorems for this property are not built yet in this revision; "
                                                   "nothing is claimed (see DESIGN.md section 9 staging rule)")}
          for p in ALL if p not in CLAIMED]
    m = {
        "version": 1,
        "setup_cmd": "./check setup",
        "hooks": {"guard": "monero_rs_verif", "enable": "RUSTFLAGS=--cfg monero_rs_verif (guards nothing: every property is observable "
                  "through the crate's public API)", "baseline_off_cmd": "cd /repo && cargo test --workspace --no-fail-fast --offline",
                  "source_commits": [], "add_only": True},
        "engines": [{"name": "coq-model+correspondence", "path": "/verif/check",
                     "serves_properties": sorted(CLAIMED), "kind_free_text":
                     "Coq 8.16 theorems about a hand-written Gallina model (coq/), tied to /repo on every run by running the model "
                     "(extracted OCaml + coqc vm_compute cross-check) and the real library (harness/) on the same inputs"}],
        "checks": checks,
        "not_applicable": na,
        "notes": "See DESIGN.md. known_findings.json lists recorded/fixed defects.",
    }
    json.dump(m, open(os.path.join(HERE, "MANIFEST.json"), "w"), indent=1)


if __name__ == "__main__":
    main()
