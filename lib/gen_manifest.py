#!/usr/bin/env python3
# regenerates MANIFEST.json from the table below (kept in one place so it stays valid)
import json, os
HERE = os.path.dirname(os.path.dirname(os.path.abspath(__file__)))
CLAIMED = {
    "C14": ("Coq theorems (Props/C14.v): enc = textbook LEB128 for every n, length formula, decode(encode n ++ r) = (n, r), "
            "decode sound (accepted => minimal encoding of a u64 + unread rest), accepted-iff, rejection of overflow / truncation / "
            "superfluous zero groups, never panics; all for unbounded inputs. Correspondence with the real VarInt codec is exhaustive "
            "on every <=2-byte string plus boundary patterns and random u64.",
            "model Model/Varint.v is hand-written; tie = correspondence check (evaluator B extracted OCaml, cross-checked with coqc vm_compute)",
            "Coq proof + model/implementation correspondence", "4 C14"),
    "C20": ("Coq theorems (Props/C20.v): table literal, bijection, exact rejection for every number, address-type lookup for blobs of any "
            "length, never panics. Correspondence exhaustive (3x3, 256 bytes, 3x256x81 blobs) so the model is the code on that domain.",
            "model Model/Network.v hand-written; exhaustive correspondence",
            "Coq proof + exhaustive correspondence", "4 C20"),
}
NOT_YET = {}
ALL = ["C%02d" % i for i in range(1, 21)]


def main():
    checks = []
    for pid in ALL:
        if pid in CLAIMED:
            text, note, tech, ref = CLAIMED[pid]
            checks.append({
                "property_id": pid,
                "quick_cmd": "./check %s quick" % pid,
                "thorough_cmd": "./check %s thorough" % pid,
                "evidence_file": "/verif/evidence/%s.json" % pid,
                "replay_cmd_template": "./check %s --replay {path}" % pid,
                "engine": "coq-model+correspondence",
                "level_claimed": {"category": "proof", "text": text, "design_ref": "DESIGN.md section " + ref},
                "level_note": note,
                "technique": tech,
            })
    na = [{"property_id": p, "reason": NOT_YET.get(p, "model and theorems for this property are not built yet in this revision; "
                                                   "nothing is claimed (see DESIGN.md section 9 staging rule)")}
          for p in ALL if p not in CLAIMED]
    m = {
        "version": 1,
        "setup_cmd": "./check setup",
        "hooks": {"guard": "monero_rs_verif", "enable": "RUSTFLAGS=--cfg monero_rs_verif (guards nothing: every property is observable "
                  "through the crate's public API)", "baseline_off_cmd": "cd /repo && cargo test --workspace --no-fail-fast --offline",
                  "source_commits": [], "add_only": True},
        "engines": [{"name": "coq-model+correspondence", "path": "/verif/check",
                     "serves_properties": sorted(CLAIMED), "kind_free_text":
                     "Coq 8.16 theorems about a hand-written Gallina model (coq/), tied to /repo on every run by running the model "
                     "(extracted OCaml + coqc vm_compute cross-check) and the real library (harness/) on the same inputs"}],
        "checks": checks,
        "not_applicable": na,
        "notes": "See DESIGN.md. known_findings.json lists recorded/fixed defects.",
    }
    json.dump(m, open(os.path.join(HERE, "MANIFEST.json"), "w"), indent=1)


if __name__ == "__main__":
    main()
