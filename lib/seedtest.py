#!/usr/bin/env python3
# seedtest.py — run checks against a seeded (property-breaking) change WITHOUT touching /repo:
#   a scratch worktree of /repo gets the patch, the check runs with VERIF_REPO pointing at it, the worktree is removed.
# usage: lib/seedtest.py seeded/<name> [check ids...]      (default: the property named in meta.json)
import json, os, subprocess, sys, shutil, hashlib
HERE = os.path.dirname(os.path.dirname(os.path.abspath(__file__)))


def main():
    d = os.path.abspath(sys.argv[1])
    meta = json.load(open(os.path.join(d, "meta.json")))
    pids = sys.argv[2:] or [meta["property"]]
    wt = "/tmp/seedrepo-" + hashlib.sha256(d.encode()).hexdigest()[:8]
    subprocess.run(["git", "-C", "/repo", "worktree", "remove", "--force", wt], capture_output=True)
    subprocess.check_call(["git", "-C", "/repo", "worktree", "add", "-q", "--detach", wt, "HEAD"])
    res = {}
    try:
        subprocess.check_call(["git", "-C", wt, "apply", os.path.join(d, "patch.diff")])
        for pid in pids:
            env = dict(os.environ, VERIF_REPO=wt)
            p = subprocess.run([os.path.join(HERE, "check"), pid, "quick"], env=env, capture_output=True, text=True, cwd=HERE)
            lines = [l for l in p.stdout.splitlines() if l.startswith(("VIOLATION", "KNOWN-FINDING", "INFRASTRUCTURE"))]
            res[pid] = {"exit": p.returncode, "lines": lines}
            for l in lines:
                if l.startswith("VIOLATION") and "replay=" in l:
                    try:
                        rp = json.load(open(l.split("replay=")[1].split(" ")[0]))
                        res[pid]["replay_excerpt"] = {k: (str(v)[:300]) for k, v in rp.items() if k in ("line", "why", "broken_correspondence", "broken_theorems")}
                    except Exception:
                        pass
            print(pid, "exit", p.returncode, *lines, sep="\n  ")
            for l in lines:
                if l.startswith("VIOLATION") and "replay=" in l:
                    rp = l.split("replay=")[1].split(" ")[0]
                    try:
                        print("  replay:", json.dumps(json.load(open(rp)))[:600])
                    except Exception:
                        pass
    finally:
        subprocess.run(["git", "-C", "/repo", "worktree", "remove", "--force", wt], capture_output=True)
        tag = hashlib.sha256(wt.encode()).hexdigest()[:10]
        shutil.rmtree(os.path.join(HERE, "build", "cargo-alt-" + tag), ignore_errors=True)
        shutil.rmtree(os.path.join(HERE, "build", "harness-alt-" + tag), ignore_errors=True)
    # record what the checks said about this seeded change (kept with the seed)
    rf = os.path.join(d, "detection.json")
    old = json.load(open(rf)) if os.path.exists(rf) else {}
    head = subprocess.run(["git", "-C", HERE, "rev-parse", "--short", "HEAD"], capture_output=True, text=True).stdout.strip()
    for pid, r in res.items():
        keep = {k: v for k, v in (old.get(pid) or {}).items() if k in ("history", "first_run")}   # what earlier runs taught stays with the seed
        old[pid] = {"verif_commit": head, "cmd": "lib/seedtest.py %s %s  (= git apply patch.diff on a scratch worktree of /repo HEAD, ./check %s quick with VERIF_REPO)" % (os.path.relpath(d, HERE), pid, pid),
                    "exit": r["exit"], "reported": [l for l in r["lines"]], "detected": r["exit"] == 1 and any(l.startswith("VIOLATION") for l in r["lines"]),
                    "replay_excerpt": r.get("replay_excerpt")}
        old[pid].update(keep)
    json.dump(old, open(rf, "w"), indent=1)
    return res


if __name__ == "__main__":
    main()
