# C16 — transaction extra: well-formed sub-field sequences round-trip; parsing is total.
# Correspondence stream + direct oracle.  The oracle is an independent python re-implementation of the sub-field
# grammar (strict LEB128, allocation cap, Ed25519 point validity with python integers, the 255-byte padding rule)
# and of the best-effort loop; nothing in the oracle asks the model.
from framework import Check, Case, Infra
import gen_codec as G

CAP = 32 * 1024 * 1024
P25519 = 2**255 - 19
D25519 = (-121665 * pow(121666, P25519 - 2, P25519)) % P25519
SQRT_M1 = pow(2, (P25519 - 1) // 4, P25519)


# ---------------------------------------------------------------------------- independent reference
_PK = {}


def pk_valid(b):
    b = bytes(b)
    r = _PK.get(b)
    if r is None:
        r = _PK[b] = _pk_valid(b)
    return r


def _pk_valid(b):
    """RFC 8032 point decoding with canonical y and no 'negative zero' (= PublicKey::from_slice)."""
    if len(b) != 32:
        return False
    n = int.from_bytes(b, "little")
    sign, y = n >> 255, n & (2**255 - 1)
    if y >= P25519:
        return False
    u = (y * y - 1) % P25519
    v = (D25519 * y * y + 1) % P25519
    x2 = u * pow(v, P25519 - 2, P25519) % P25519
    x = pow(x2, (P25519 + 3) // 8, P25519)
    if (x * x - x2) % P25519 != 0:
        x = x * SQRT_M1 % P25519
    if (x * x - x2) % P25519 != 0:
        return False
    if x == 0 and sign == 1:
        return False
    return True


def leb(n):
    out = bytearray()
    while True:
        g = n & 0x7f
        n >>= 7
        if n:
            out.append(g | 0x80)
        else:
            out.append(g)
            return bytes(out)


class Cur:
    """cursor over the raw bytes; every reader returns None on failure and leaves pos where std's Cursor leaves it"""

    def __init__(self, b):
        self.b, self.pos, self.keychecks = b, 0, 0

    def u8(self):
        if self.pos >= len(self.b):
            self.pos = len(self.b)
            return None
        self.pos += 1
        return self.b[self.pos - 1]

    def take(self, n):
        """n element-wise byte reads"""
        if len(self.b) - self.pos < n:
            self.pos = len(self.b)
            return None
        self.pos += n
        return self.b[self.pos - n:self.pos]

    def varint(self):
        """minimal LEB128 of a u64, as the crate reads it: a zero byte anywhere but first is refused at once"""
        groups = []
        while True:
            c = self.u8()
            if c is None:
                return None
            if c == 0 and groups:
                return None
            groups.append(c & 0x7f)
            if c < 0x80:
                break
        v = 0
        for g in reversed(groups):
            v = (v << 7) | g
        if v >= 2**64 or len(groups) > 10:
            return None
        return v

    def key(self):
        k = self.take(32)
        if k is None:
            return None
        self.keychecks += 1
        return k if pk_valid(k) else None

    def blob(self):
        n = self.varint()
        if n is None or n > CAP:
            return None
        return self.take(n)

    def subfield(self):
        t = self.u8()
        if t is None:
            return None
        if t == 0:
            i = 0
            while i < 255:
                c = self.u8()
                if c is None:
                    break
                if c != 0:
                    return None
                i += 1
            return ("pad", i)
        if t == 1:
            k = self.key()
            return None if k is None else ("pk", k)
        if t == 2:
            b = self.blob()
            return None if b is None else ("nonce", b)
        if t == 3:
            if self.u8() is None:
                return None
            d = self.varint()
            if d is None:
                return None
            h = self.take(32)
            return None if h is None else ("mm", d, h)
        if t == 4:
            n = self.varint()
            if n is None or 32 * n > CAP:
                return None
            ks = []
            for _ in range(n):
                k = self.key()
                if k is None:
                    return None
                ks.append(k)
            return ("add", tuple(ks))
        if t == 0xde:
            b = self.blob()
            return None if b is None else ("mg", b)
        return None


def best_effort(raw):
    """(all_ok, fields, number of key validations) — the loop of try_parse"""
    c = Cur(raw)
    ok, fs = True, []
    while c.pos < len(raw):
        f = c.subfield()
        if f is None:
            ok = False
        else:
            fs.append(f)
    return ok, fs, c.keychecks


def strict(raw):
    """fields if the whole string is a sequence of sub-fields, else None (no resynchronisation)"""
    c = Cur(raw)
    fs = []
    while c.pos < len(raw):
        f = c.subfield()
        if f is None:
            return None
        fs.append(f)
    return fs


def enc_field(f):
    k = f[0]
    if k == "pad":
        return b"\x00" + b"\x00" * f[1]
    if k == "pk":
        return b"\x01" + f[1]
    if k == "nonce":
        return b"\x02" + leb(len(f[1])) + f[1]
    if k == "mm":
        return b"\x03" + bytes([32 + len(leb(f[1]))]) + leb(f[1]) + f[2]
    if k == "add":
        return b"\x04" + leb(len(f[1])) + b"".join(f[1])
    if k == "mg":
        return b"\xde" + leb(len(f[1])) + f[1]
    raise ValueError(k)


def hx(b):
    return bytes(b).hex() or "-"


def toks(f):
    k = f[0]
    if k == "pad":
        return ["pad", str(f[1])]
    if k in ("pk", "nonce", "mg"):
        return [k, hx(f[1])]
    if k == "mm":
        return ["mm", str(f[1]), hx(f[2])]
    return ["add", str(len(f[1]))] + [hx(x) for x in f[1]]


def toks_list(fs):
    out = [str(len(fs))]
    for f in fs:
        out += toks(f)
    return out


def accessors(fs):
    pk = next((f[1] for f in fs if f[0] == "pk"), None)
    add = next((f[1] for f in fs if f[0] == "add"), None)
    return ["pk", hx(pk) if pk is not None else "none", "add"] + \
        ([str(len(add))] + [hx(k) for k in add] if add is not None else ["none"])


def well_formed(fs):
    """the side condition of the property"""
    for i, f in enumerate(fs):
        if f[0] == "pad" and not (0 <= f[1] <= 255 and (f[1] == 255 or i == len(fs) - 1)):
            return False
        if f[0] == "pk" and not pk_valid(f[1]):
            return False
        if f[0] == "add" and not all(pk_valid(k) for k in f[1]):
            return False
        if f[0] == "mm" and not (0 <= f[1] < 2**64 and len(f[2]) == 32):
            return False
    return sum(len(enc_field(f)) for f in fs) <= CAP


def expected_parse(raw):
    ok, fs, _ = best_effort(raw)
    return " ".join(["OK" if ok else "PARTIAL"] + toks_list(fs) + accessors(fs) + ["raw=1"])


# ---------------------------------------------------------------------------- generator helpers
class Keys:
    def __init__(self, rng, n=40):
        self.pool = []
        while len(self.pool) < n:
            b = bytes(rng.getrandbits(8) for _ in range(32))
            if pk_valid(b):
                self.pool.append(b)
        # the base point, the identity and a small-order point are valid keys too
        self.pool.append(bytes.fromhex("5866666666666666666666666666666666666666666666666666666666666666"))
        self.pool.append(bytes([1] + [0] * 31))
        self.pool.append(bytes(32))
        self.bad = []
        while len(self.bad) < 6:
            b = bytes(rng.getrandbits(8) for _ in range(32))
            if not pk_valid(b):
                self.bad.append(b)
        self.bad.append(bytes([0xed] + [0xff] * 30 + [0x7f]))       # y = p: non-canonical
        self.bad.append(bytes([1] + [0] * 30 + [0x80]))             # x = 0 with the sign bit: "negative zero"

    def get(self, rng):
        return rng.choice(self.pool)


LENS = [0, 1, 127, 128, 255, 256, 16383, 16384]


def rbytes(rng, n):
    c = rng.random()
    if c < 0.15:
        return bytes(n)
    if c < 0.3:
        return bytes(rng.choice([0, 1, 2, 3, 4, 0xde, 0xff]) for _ in range(n))
    return bytes(rng.getrandbits(8) for _ in range(n))


def depth(rng):
    c = rng.random()
    if c < 0.5:
        k = rng.randint(1, 9)
        return rng.choice([2**(7 * k) - 1, 2**(7 * k), 2**(7 * k) + 1])
    if c < 0.7:
        return rng.choice([0, 1, 2**64 - 1, 2**63, 2**64 - 2])
    return rng.getrandbits(rng.choice([7, 14, 32, 64]))


def field(rng, keys, kind=None, small=True):
    kind = kind or rng.choice(["pk", "nonce", "mm", "add", "mg", "pad255"])
    if kind == "pk":
        return ("pk", keys.get(rng))
    if kind in ("nonce", "mg"):
        n = rng.choice([0, 1, 2, 8, 9, 32, 33, 127, 128, 200] if small else LENS)
        return (kind, rbytes(rng, n))
    if kind == "mm":
        return ("mm", depth(rng), rbytes(rng, 32))
    if kind == "add":
        return ("add", tuple(keys.get(rng) for _ in range(rng.randint(0, 5))))
    if kind == "pad255":
        return ("pad", 255)
    raise ValueError(kind)


KINDS = ["pk", "nonce", "mm", "add", "mg", "pad255"]


def extra_token_of_dump(words, is_block):
    """pull the extra (hex) out of a `dec tx` / `dec block` dump in the token form of Model/Show.v"""
    i = 0
    if is_block:
        i += 5
    i += 2                                   # version, unlock_time
    n = int(words[i]); i += 1
    for _ in range(n):                       # inputs
        if words[i] == "gen":
            i += 2
        else:
            k = int(words[i + 2])
            i += 3 + k + 1
    n = int(words[i]); i += 1
    for _ in range(n):                       # outputs
        i += 3 if words[i + 1] == "tk" else 4
    return words[i]


class C16(Check):
    pid = "C16"
    profiles = ("release", "dev")
    evalA_sample = 400
    rule = ("extra_rt (RawExtraField::from(ExtraField) then ExtraField::try_parse + accessors + RawExtraField::try_parse) on: "
            "EVERY padding size 0..255 alone, last after each other kind, and followed by each other kind (exhaustive); nonce and "
            "MinerGate blob lengths {0,1,127,128,255,256,16383,16384}; 0..5 and 127..300 additional keys; merge-mining depth at every varint "
            "boundary; seeded random well-formed sequences of <= 8 sub-fields and random sequences violating the padding rule; "
            "subfield_rt (serialize + deserialize_partial + deserialize of one SubField) on the same; descriptions with invalid keys; "
            "extra_parse on EVERY byte string of length <= 2, on single-site mutations at every offset (7 substitutions, non-minimal "
            "and overflowing varint, delete, duplicate, truncate) of generated extras and of the extras of the repository's "
            "test-suite transactions/blocks, on tag-biased random strings; subfield_dec/decs on all strings <= 1 byte, mutations, random; "
            "length prefixes at the allocation-cap boundary of key vectors and blobs; extra_from_len at the 32 MiB boundary of RawExtraField::from; both cargo profiles (release, dev = overflow checks on); non-trivial = distinct case line; the oracle is an independent "
            "python implementation of the grammar and of the loop (strict LEB128, cap, Ed25519 validity by python integers)")
    level_note = ("theorems are about the Gallina model Model/Extra.v, with PublicKey::from_slice acceptance an arbitrary predicate "
                  "(instance Ed25519.pk_valid in the evaluators) and std::io::Cursor's position after a short read a modelled std "
                  "behaviour; tie to src/blockdata/transaction.rs and src/util/key.rs by correspondence in release and dev profiles")

    # ------------------------------------------------------------------ cases
    def gen(self, tier, rng):
        thorough = tier == "thorough"
        keys = Keys(rng)
        cs = []

        def rt(fs, cls):
            cs.append(Case("extra_rt " + " ".join(toks_list(fs)), cls))

        def srt(f, cls):
            cs.append(Case("subfield_rt " + " ".join(toks(f)), cls))

        def parse(raw, cls):
            cs.append(Case("extra_parse " + hx(raw), cls))

        seeds = []
        # corpus: extras of the transactions / blocks among the hex literals of the test-suite
        lits = G.corpus_hex()
        sz = self.impl_query(["sizes"])[0].split(" ")[1]
        lines = []
        for h in lits:
            lines += ["dec %s tx %s" % (sz, h), "dec %s block %s" % (sz, h), "dec %s prefix %s" % (sz, h)]
        res = self.ctx.model_many(lines)
        corpus_extras = []
        for l, r in zip(lines, res):
            w = r.split(" ")
            if w[0] == "OK":
                try:
                    e = extra_token_of_dump(w[2:], " block " in l)
                except (IndexError, ValueError):
                    raise Infra("cannot find the extra in the dump of " + l[:80])
                b = b"" if e == "-" else bytes.fromhex(e)
                if b not in corpus_extras:
                    corpus_extras.append(b)
        if len(corpus_extras) < 5:
            raise Infra("corpus extras not found")
        for b in corpus_extras:
            parse(b, "corpus-extra")
            fs = strict(b)
            if fs is not None and len(b) < 3000:
                rt(fs, "corpus-extra-rt")
            seeds.append(b)

        # padding, exhaustive
        others = {k: field(rng, keys, k) for k in KINDS}
        for n in range(256):
            srt(("pad", n), "pad-alone")
            rt([("pad", n)], "pad-alone")
            cs.append(Case("extra_enc 1 pad %d" % n, "pad-enc"))
            for k in KINDS:
                rt([others[k], ("pad", n)], "pad-last")
                rt([("pad", n), others[k]], "pad-then-" + k if n == 255 else "pad-short-then-field")
            rt([("pad", n), ("pad", 7)], "pad-then-pad")
            rt([("pad", 255), ("pad", n)], "pad255-then-pad")
            rt([("pad", 255), ("pad", 255), ("pad", n)], "pad255-then-pad")
        # nonce / blob lengths
        for n in LENS + [2, 254, 257, 16382, 16385]:
            for kind in ("nonce", "mg"):
                for _ in range(2):
                    f = (kind, rbytes(rng, n))
                    srt(f, "len-" + kind)
                    rt([f], "len-" + kind)
                    rt([others["pk"], f, others["mm"]], "len-" + kind)
                    rt([f, ("pad", rng.randint(0, 255))], "len-" + kind)
        # additional keys
        for n in range(0, 6):
            for _ in range(4):
                f = ("add", tuple(keys.get(rng) for _ in range(n)))
                srt(f, "add-n")
                rt([f], "add-n")
                rt([others["pk"], f, ("add", (keys.get(rng),)), ("pk", keys.get(rng))], "add-first-match")
        # many additional keys: the count is a varint (127 / 128 / 129 keys, 255 / 256 / 300 for a one-byte counter)
        for n in (127, 128, 129, 255, 256, 300):
            f = ("add", tuple(keys.get(rng) for _ in range(n)))
            srt(f, "add-many")
            rt([f], "add-many")
            rt([others["pk"], f, others["nonce"]], "add-many")
        for k in keys.pool:
            srt(("pk", k), "pk")
            rt([("pk", k)], "pk")
        # merge mining depth
        ds = set([0, 1, 2**64 - 1, 2**64 - 2, 2**63])
        for k in range(1, 10):
            ds.update([2**(7 * k) - 1, 2**(7 * k), 2**(7 * k) + 1])
        for d in sorted(ds):
            f = ("mm", d, rbytes(rng, 32))
            srt(f, "mm-depth")
            rt([f], "mm-depth")
            rt([f, others["nonce"]], "mm-depth")
            cs.append(Case("extra_enc " + " ".join(toks_list([f])), "mm-enc"))
        # the size byte of a merge-mining tag is read and ignored: every value
        for sb in range(256):
            parse(b"\x03" + bytes([sb]) + leb(300) + bytes(32), "mm-size-byte")
            cs.append(Case("subfield_decs " + hx(b"\x03" + bytes([sb]) + b"\x05" + bytes(32)), "mm-size-byte"))
        # descriptions that cannot be built
        for b in keys.bad:
            rt([("pk", b)], "invalid-key")
            rt([others["nonce"], ("add", (keys.get(rng), b))], "invalid-key")
            srt(("pk", b), "invalid-key")
            parse(b"\x01" + b, "invalid-key-bytes")
            parse(b"\x04\x02" + keys.get(rng) + b + b"\x02\x01\x07", "invalid-key-bytes")
        # allocation-cap boundary of RawExtraField::from (1 tag + 4 length bytes + n <= 32 MiB, else the unwrap panics)
        for n in (CAP - 6, CAP - 5, CAP - 4, CAP - 3, CAP, CAP + 1, 0, 1000):
            cs.append(Case("extra_from_len %d" % n, "from-cap-boundary"))
        # allocation cap inside the sub-field decoders: 32 * n <= 32 MiB for keys, n <= 32 MiB for blobs; beyond it the decoder
        # fails right after the length (and the loop resumes there), within it it runs into the end of the input
        for tag, lim in ((4, CAP // 32), (2, CAP), (0xde, CAP)):
            for n in (lim - 1, lim, lim + 1, lim + 2, 2 * lim, 2**32, 2**63, 2**64 - 1):
                for tail in (b"", b"\x02\x01\x07", keys.get(rng) + b"\x02\x01\x07"):
                    parse(bytes([tag]) + leb(n) + tail, "cap-boundary-bytes")
                cs.append(Case("subfield_dec " + hx(bytes([tag]) + leb(n) + b"\x00"), "cap-boundary-bytes"))
        # random sequences
        for _ in range(2500 if not thorough else 60000):
            n = rng.randint(0, 8)
            fs = [field(rng, keys) for _ in range(n)]
            if rng.random() < 0.4:
                fs.append(("pad", rng.randint(0, 255)))
            rt(fs, "random-wf")
            if len(seeds) < 400:
                seeds.append(b"".join(enc_field(f) for f in fs))
            if rng.random() < 0.3:
                cs.append(Case("extra_enc " + " ".join(toks_list(fs)), "random-enc"))
        for _ in range(30 if not thorough else 300):
            fs = [field(rng, keys, small=False) for _ in range(rng.randint(1, 4))]
            rt(fs, "random-wf-large")
        for _ in range(1200 if not thorough else 30000):
            n = rng.randint(1, 8)
            fs = [field(rng, keys) if rng.random() < 0.6 else ("pad", rng.choice([0, 1, 2, 100, 253, 254, 255, rng.randint(0, 255)]))
                  for _ in range(n)]
            rt(fs, "random-any-padding")
        # arbitrary bytes: everything up to two bytes
        parse(b"", "len0")
        for a in range(256):
            parse(bytes([a]), "len1")
            cs.append(Case("subfield_dec %02x" % a, "sub-len1"))
            cs.append(Case("subfield_decs %02x" % a, "sub-len1"))
        for a in range(256):
            for b in range(256):
                parse(bytes([a, b]), "len2")
        cs.append(Case("subfield_dec -", "sub-len0"))
        for a in (0, 1, 2, 3, 4, 0xde, 5, 0xff):
            for b in range(256):
                cs.append(Case("subfield_dec %02x%02x" % (a, b), "sub-len2"))
                for c in (0, 1, 2, 0x7f, 0x80, 0xff):
                    parse(bytes([a, b, c]), "len3-tagged")
                    parse(bytes([a, b, c, 0]), "len4-tagged")
        # runs of zeros around the 255 limit, followed by something
        for n in list(range(250, 262)) + [509, 510, 511, 512, 513, 767, 768]:
            for tail in (b"", b"\x01", b"\x02\x00", b"\x00", b"\x02\x01\x00", b"\xff"):
                parse(bytes(n) + tail, "zero-run")
            cs.append(Case("subfield_dec " + hx(bytes(n)), "zero-run"))
            cs.append(Case("subfield_decs " + hx(bytes(n)), "zero-run"))
        # mutations of valid extras at every offset
        budget = 60 if not thorough else 600
        for k, b in enumerate(seeds):
            if len(b) > 3000:
                continue
            muts = G.mutations_at_every_offset(b, rng)
            lim = 1500 if b in corpus_extras else budget
            if len(muts) > lim:
                muts = rng.sample(muts, lim)
            for m in muts:
                parse(m, "mut1")
            for _ in range(3):
                parse(G.multi_mutation(b, rng, rng.randint(2, 5)), "mutN")
            if k % 5 == 0:
                for m in rng.sample(muts, min(len(muts), 20)):
                    cs.append(Case("subfield_dec " + hx(m), "sub-mut"))
                    cs.append(Case("subfield_decs " + hx(m), "sub-mut"))
        # random strings, biased to the tags
        for _ in range(6000 if not thorough else 300000):
            n = rng.choice([3, 4, 5, 8, 12, 33, 34, 36, 40, 70, 100])
            b = bytes(rng.choice([0, 0, 1, 2, 3, 4, 0xde, 0x20, 0x21, 0x7f, 0x80, 0xff, rng.getrandbits(8), rng.getrandbits(8)])
                      for _ in range(n))
            if rng.random() < 0.3:
                b = b[:rng.randint(0, 3)] + bytes([rng.choice([1, 4])]) + (b"\x01" if rng.random() < 0.5 else b"") + \
                    keys.get(rng) + b[3:]
            parse(b, "random-bytes")
            if rng.random() < 0.2:
                cs.append(Case("subfield_dec " + hx(b), "sub-random"))
                cs.append(Case("subfield_decs " + hx(b), "sub-random"))
        seen = set()
        out = []
        for c in cs:
            if c.line not in seen:
                seen.add(c.line)
                out.append(c)
        return out

    # ------------------------------------------------------------------ evaluator A budget
    def evalA_ok(self, line):
        """key validation costs ~10 s per key under coqc vm_compute: only lines that validate no key"""
        a = line.split(" ")
        if a[0] == "extra_from_len":
            return True
        if a[0] in ("extra_parse", "subfield_dec", "subfield_decs"):
            raw = b"" if a[1] == "-" else bytes.fromhex(a[1])
            return best_effort(raw)[2] == 0 and len(raw) < 600
        if " pk " in line or " add " in line:
            return False
        fs = self._desc(a[1:] if a[0] == "subfield_rt" else a[2:])
        if fs is None:
            return False
        raw = b"".join(enc_field(f) for f in fs)
        return best_effort(raw)[2] == 0 and len(raw) < 600

    # ------------------------------------------------------------------ oracle
    @staticmethod
    def _desc(w):
        """token list -> fields (None if not understood)"""
        fs, i = [], 0
        try:
            while i < len(w):
                k = w[i]
                if k == "pad":
                    fs.append(("pad", int(w[i + 1]))); i += 2
                elif k in ("pk", "nonce", "mg"):
                    fs.append((k, b"" if w[i + 1] == "-" else bytes.fromhex(w[i + 1]))); i += 2
                elif k == "mm":
                    fs.append(("mm", int(w[i + 1]), bytes.fromhex(w[i + 2]))); i += 3
                elif k == "add":
                    n = int(w[i + 1])
                    fs.append(("add", tuple(bytes.fromhex(x) for x in w[i + 2:i + 2 + n]))); i += 2 + n
                else:
                    return None
        except (IndexError, ValueError):
            return None
        return fs

    def oracle(self, case, impl, ctx):
        w = impl.split(" ")
        a = case.line.split(" ")
        op = a[0]
        if op == "extra_from_len":
            # outside the property's side condition (serialised sub-fields beyond the 32 MiB cap) the conversion is
            # known to panic (theorem C16_from_panics_over_cap); inside it must return the concatenation
            n = int(a[1])
            total = 1 + len(leb(n)) + n
            exp = ("OK %d" % total) if total <= CAP else "PANIC"
            return None if impl == exp else "RawExtraField::from on a %d-byte nonce gave %s, expected %s" % (n, impl[:60], exp)
        if w[0] in ("PANIC", "ABORT", "TIMEOUT", "FUEL") or "PANIC" in impl:
            return "implementation did not return a value: " + w[0]
        if op == "extra_parse":
            raw = b"" if a[1] == "-" else bytes.fromhex(a[1])
            exp = expected_parse(raw)
            if impl != exp:
                s = strict(raw)
                if (w[0] == "OK") != (s is not None):
                    return ("try_parse reports %s but the bytes %s a sequence of sub-fields" %
                            (w[0], "are" if s is not None else "are not"))
                return "try_parse returned %s, the grammar gives %s" % (impl[:300], exp[:300])
            return None
        if op in ("extra_rt", "extra_enc"):
            fs = self._desc(a[2:])
            if fs is None:
                raise Infra("oracle cannot read " + case.line[:100])
            buildable = all((f[0] != "pk" or pk_valid(f[1])) and (f[0] != "add" or all(pk_valid(k) for k in f[1])) for f in fs)
            if not buildable:
                return None if impl == "ERR-BUILD" else "a description with an invalid key was built: " + impl[:100]
            raw = b"".join(enc_field(f) for f in fs)
            if op == "extra_enc":
                exp = "OK %s %d" % (hx(raw), len(leb(len(raw))) + len(raw))
                return None if impl == exp else "RawExtraField::from gave %s, expected %s" % (impl[:200], exp[:200])
            if w[0] != "OK" or w[1] != hx(raw):
                return "RawExtraField::from(ExtraField) gave %s, the sub-fields serialise to %s" % (impl[:200], hx(raw)[:200])
            got = " ".join(w[2:])
            if well_formed(fs):
                exp = " ".join(["OK"] + toks_list(fs) + accessors(fs) + ["raw=1"])
                if got != exp:
                    return "well-formed sequence does not round-trip: parsed back as %s" % got[:300]
            exp = expected_parse(raw)
            if got != exp:
                return "try_parse(raw) returned %s, the grammar gives %s" % (got[:300], exp[:300])
            return None
        if op == "subfield_rt":
            fs = self._desc(a[1:])
            if fs is None or len(fs) != 1:
                raise Infra("oracle cannot read " + case.line[:100])
            f = fs[0]
            if (f[0] == "pk" and not pk_valid(f[1])) or (f[0] == "add" and not all(pk_valid(k) for k in f[1])):
                return None if impl == "ERR-BUILD" else "a description with an invalid key was built: " + impl[:100]
            b = enc_field(f)
            exp = "OK %s %d 1 %d 1" % (hx(b), len(b), len(b))
            return None if impl == exp else "sub-field alone does not round-trip strictly: %s, expected %s" % (impl[:200], exp[:200])
        if op in ("subfield_dec", "subfield_decs"):
            raw = b"" if a[1] == "-" else bytes.fromhex(a[1])
            c = Cur(raw)
            f = c.subfield()
            if f is None or (op == "subfield_decs" and c.pos != len(raw)):
                exp = "ERR"
            elif op == "subfield_dec":
                exp = " ".join(["OK", str(c.pos)] + toks(f))
            else:
                exp = " ".join(["OK"] + toks(f))
            return None if impl == exp else "%s returned %s, the grammar gives %s" % (op, impl[:200], exp[:200])
        return None

    def neighbours(self, case, rng):
        a = case.line.split(" ")
        if a[0] == "extra_from_len":
            return []
        if a[0] in ("extra_parse", "subfield_dec", "subfield_decs"):
            raw = b"" if a[1] == "-" else bytes.fromhex(a[1])
        else:
            fs = self._desc(a[1:] if a[0] == "subfield_rt" else a[2:])
            if fs is None:
                return []
            raw = b"".join(enc_field(f) for f in fs)
        ms = G.mutations_at_every_offset(raw, rng)
        if len(ms) > 3000:
            ms = rng.sample(ms, 3000)
        return [Case("extra_parse " + hx(m)) for m in ms]

    def extra_coverage(self, cases, impl, model):
        n_ok = sum(1 for c, r in zip(cases, model) if c.line.startswith("extra_parse") and r.startswith("OK"))
        n_partial = sum(1 for c, r in zip(cases, model) if c.line.startswith("extra_parse") and r.startswith("PARTIAL"))
        return {"exhaustive": "padding sizes 0..255 alone / last after each kind / followed by each kind; every byte string of "
                              "length <= 2 through extra_parse; every merge-mining size byte",
                "extra_parse_fully_parsable": n_ok, "extra_parse_partial": n_partial}


CHECK = C16()
