# C09 — the recovered one-time secret key x satisfies x*G = the output's one-time public key and equals
# Hs(8*v*K || position) + s (+ subaddress scalar).  Cases: `recover` (KeyRecoverer) on random (wallet, tx key, position, index)
# with boundary positions / indices, and `scan_recover` (OwnedTxOut::recover_key on EVERY owned output) on sender-built
# transactions of the C07 scenario generator.  Oracle: independent python reference (props/edref.py + scan_common.py):
# the scalar from the definition, and x*G compared with the one-time key the python SENDER built for that address and position.
from framework import Case
import framework as fw
from props import edref as ed
from props import scan_common as sc
from props.scan_common import ScanCheck, L
from props.c07 import C07

POS = [0, 1, 127, 128, 129, 255, 256, 257, 16383, 16384, 16385, 2**32, 2**64 - 1]
IDX = [0, 1, 2, 0xff, 0x100, 0xffff, 2**32 - 1]


class C09(ScanCheck):
    pid = "C09"
    profiles = ("release", "dev")      # dev = overflow checks and debug assertions on (index / position arithmetic)
    rule = ("recover: random wallets (plus scalars 1, l-1) x tx keys (r*G, and r*S_sub as the sender publishes for subaddresses) x positions "
            "{0,1,127,128,129,255,256,257,16383,16384,16385,2^32,2^64-1,random} x indices {0,1,2,0xff,0x100,0xffff,2^32-1}^2 (zero "
            "components included); scan_recover: every owned output of sender-built transactions (C07 scenario generator, n in "
            "{1,2,3,130,260}); oracle: reference scalar Hs(8vK||n)+s(+m) mod l and x*G = the one-time key the python sender built; "
            "non-trivial = distinct case line")
    level_note = ("theorems are about the Gallina model (Model/Scan.v recover / owned_recover_key) and hold for EVERY group satisfying "
                  "the EdLaws record and every hash-to-scalar (_partial); the executable instance / curve25519-dalek being such a group is "
                  "checked by computation only (model = implementation = independent python reference on every case). Evaluator A "
                  "(coqc vm_compute) is not sampled uniformly (>= 25 s per curve operation); one recover case is re-evaluated in the thorough tier")
    evalA_lines = ()

    def gen_cases(self, tier, rng):
        q = tier == "quick"
        cases = []
        self.exp = {}
        wallets = [(sc.rscalar(rng), sc.rscalar(rng)) for _ in range(3 if q else 12)] + [(1, 1), (L - 1, L - 1), (sc.rscalar(rng), 0), (0, sc.rscalar(rng)), (0, 0)]
        for (v, s) in wallets:
            Spt = sc.gmul(s)
            for rep in range(2 if q else 6):
                r = sc.rscalar(rng)
                didx = (rng.choice(IDX), rng.choice(IDX))
                Sd, Vd, is_sub = sc.address(v, Spt, *didx)
                Kpt = sc.fmul(r, Sd) if is_sub else sc.gmul(r)
                K = sc.cp(Kpt)
                Dv = sc.cp(sc.fmul(8, sc.fmul(v, Kpt)))
                combos = [(p, didx) for p in POS + [rng.getrandbits(rng.choice([7, 14, 21, 40]))]]
                combos += [(p, (0, 0)) for p in POS[:8]]
                combos += [(rng.choice(POS), (i, j)) for i in IDX for j in IDX if rng.random() < (0.25 if q else 1.0)]
                for pos, idx in combos:
                    l = "recover %s %s %s %d %d %d" % (sc.sc(v).hex(), sc.sc(s).hex(), K.hex(), pos, idx[0], idx[1])
                    h = sc.hs(Dv + sc.vi(pos))
                    m = 0 if idx == (0, 0) else sc.sub_scalar(v, *idx)
                    x = (h + s + m) % L
                    # the one-time key a sender derives for address idx at this position from the same derivation
                    Pk = sc.padd(sc.gmul(h), sc.address(v, Spt, *idx)[0])
                    self.exp[l] = "OK %s %s" % (sc.sc(x).hex(), sc.cp(Pk).hex())
                    cases.append(Case(l, "recover:" + ("primary" if idx == (0, 0) else "one-zero" if 0 in idx else "sub")))
        # consecutive calls that share all arguments but one (a result remembered under too small a key shows here): same view
        # key / index / position / transaction key with ANOTHER spend key, another view key, another transaction key, another index
        def rec(v, s, Kpt, pos, idx, cls):
            Spt_ = sc.gmul(s)
            K_ = sc.cp(Kpt)
            Dv_ = sc.cp(sc.fmul(8, sc.fmul(v, Kpt)))
            l_ = "recover %s %s %s %d %d %d" % (sc.sc(v).hex(), sc.sc(s).hex(), K_.hex(), pos, idx[0], idx[1])
            h_ = sc.hs(Dv_ + sc.vi(pos))
            m_ = 0 if idx == (0, 0) else sc.sub_scalar(v, *idx)
            Pk_ = sc.padd(sc.gmul(h_), sc.address(v, Spt_, *idx)[0])
            self.exp[l_] = "OK %s %s" % (sc.sc((h_ + s + m_) % L).hex(), sc.cp(Pk_).hex())
            cases.append(Case(l_, cls))
        for _ in range(6 if q else 40):
            v, s, s2, v2 = sc.rscalar(rng), sc.rscalar(rng), sc.rscalar(rng), sc.rscalar(rng)
            Kpt, Kpt2 = sc.gmul(sc.rscalar(rng)), sc.gmul(sc.rscalar(rng))
            idx = rng.choice([(0, 1), (1, 0), (2, 3), (0, 0)])
            pos = rng.choice([0, 1, 2, 200])
            rec(v, s, Kpt, pos, idx, "recover:shared-args")
            rec(v, s2, Kpt, pos, idx, "recover:shared-args/other-spend-key")
            rec(v, s, Kpt, pos, idx, "recover:shared-args")
            rec(v2, s, Kpt, pos, idx, "recover:shared-args/other-view-key")
            rec(v, s, Kpt, pos, idx, "recover:shared-args")
            rec(v, s, Kpt2, pos, idx, "recover:shared-args/other-tx-key")
            rec(v, s, Kpt, pos, idx, "recover:shared-args")
            rec(v, s, Kpt, pos + 1, idx, "recover:shared-args/other-position")
            rec(v, s, Kpt, pos, (idx[0], idx[1] + 1), "recover:shared-args/other-index")
            rec(v, s, Kpt, pos, idx, "recover:shared-args")
        # transaction keys with a small-order component: K = r*G + T for each non-trivial torsion point T.  The derivation is
        # 8*(v*K), so the recovered key must be the one for the torsion-free key r*G (C10); a recoverer that folds the cofactor
        # into the scalar disagrees with the scanner here
        for (v, s) in wallets[:3]:
            Spt = sc.gmul(s)
            r = sc.rscalar(rng)
            for T in ed.torsion_points()[1:]:
                Kpt = sc.padd(sc.gmul(r), T)
                K = sc.cp(Kpt)
                Dv = sc.cp(sc.fmul(8, sc.fmul(v, Kpt)))
                for pos, idx in ((0, (0, 0)), (1, (0, 1)), (128, (2, 0))):
                    l = "recover %s %s %s %d %d %d" % (sc.sc(v).hex(), sc.sc(s).hex(), K.hex(), pos, idx[0], idx[1])
                    h = sc.hs(Dv + sc.vi(pos))
                    m = 0 if idx == (0, 0) else sc.sub_scalar(v, *idx)
                    x = (h + s + m) % L
                    Pk = sc.padd(sc.gmul(h), sc.address(v, Spt, *idx)[0])
                    self.exp[l] = "OK %s %s" % (sc.sc(x).hex(), sc.cp(Pk).hex())
                    cases.append(Case(l, "recover:torsion-shifted-tx-key"))
        if not q:
            self.evalA_lines_thorough = (cases[0].line,)
        # rejected operands
        l = "recover %s %s %s 0 0 0" % (sc.sc(L).hex(), sc.sc(1).hex(), sc.cp(ed.B).hex())
        self.exp[l] = "ERR"
        cases.append(Case(l, "rejected"))
        # every owned output of sender-built transactions
        gen = C07()
        scen = []
        plan = [(1, 20), (2, 20), (3, 50), (130, 3), (260, 3)] if q else [(1, 60), (2, 60), (3, 150), (130, 12), (260, 12)]
        for n, k in plan:
            for _ in range(k):
                s_, rk, feats = gen.scenario(rng, n, big=n > 3)
                scen.append((s_, rk[:1]))
        scen += [(s_, rk[:1]) for s_, rk, _ in gen.boundary_scenarios(rng, 8 if q else 40)]
        real = self.realise(rng, scen)
        self.n_owned = 0
        for (s_, snt, txhex, rows) in real:
            (r, keep, line, owned, gt) = rows[0]
            l = "scan_recover %s %s %d %d %d %d %s" % (sc.sc(s_["v"]).hex(), sc.sc(s_["s"]).hex(), r[0], r[1], r[2], r[3], txhex)
            if line.startswith("ERR"):
                self.exp[l] = line
            else:
                out = ["OK", str(len(owned))]
                for (i, idx, K, h) in owned:
                    m = 0 if idx == (0, 0) else sc.sub_scalar(s_["v"], *idx)
                    x = (h + s_["s"] + m) % L
                    # x*G must be the one-time key the SENDER put into the transaction at that position
                    out += [str(i), str(idx[0]), str(idx[1]), K.hex(), sc.sc(x).hex(), snt["outs"][i]["P"].hex()]
                    if sc.cp(sc.gmul(x)) != snt["outs"][i]["P"]:
                        raise fw.Infra("python reference inconsistent: x*G != P")
                self.n_owned += len(owned)
                self.exp[l] = " ".join(out)
            cases.append(Case(l, "scan_recover n=%d %s" % (len(s_["outs"]), "owned" if owned else "none")))
        return cases

    def oracle(self, case, impl, ctx):
        r = impl.split(" ")
        if r[0] in ("PANIC", "ABORT", "TIMEOUT"):
            return "implementation did not return: " + r[0]
        want = self.exp.get(case.line)
        if want is not None and impl != want:
            return "recovered key: reference demands %s, implementation returned %s" % (want[:300], impl[:300])
        return None

    def neighbours(self, case, rng):
        w = case.line.split(" ")
        if w[0] != "recover":
            return []
        return [Case(" ".join(w[:4] + [str(p)] + w[5:])) for p in POS[:8]]

    def extra_coverage(self, cases, impl, model):
        cov = super().extra_coverage(cases, impl, model)
        cov["owned_outputs_recovered"] = self.n_owned
        return cov


CHECK = C09()
