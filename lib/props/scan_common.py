# scan_common.py — shared by the C07 / C08 / C09 checks.
#   * fast Ed25519 (extended coordinates, python big ints), validated against the textbook affine reference props/edref.py
#   * an independent python SENDER (Monero reference procedure: tx keys, derivation, one-time keys, view tags, ecdhEncode,
#     Pedersen commitments) and an independent python SCANNER (wallet side: derivation with the view key, view tag,
#     P - Hs(D||i)G looked up among the wallet's spend keys, ecdhDecode, commitment check)
#   * scenario descriptions -> `build_scan` lines for the MODEL's sender (coq/Spec/Sender.v through Model/OpsScan.v);
#     the model only GENERATES the transaction bytes; its ground truth is cross-checked against the python sender, and the
#     verdict on the implementation comes from python alone.
import os, random
from concurrent.futures import ProcessPoolExecutor
import framework as fw
from framework import Case
import gen_codec as gc
from props import edref as ed
from props.curve_common import CurveCheck, hx, le

P, L, D = ed.P, ed.L, ed.D
D2 = 2 * D % P
H_BYTES = bytes.fromhex("8b655970153799af2aeadc9ff1add0ea6c7251d54154cfa92c173a0dd39c1f94")


# ------------------------------------------------------------------ fast curve arithmetic (extended coordinates)
def _ext(pt):
    x, y = pt
    return (x, y, 1, x * y % P)


def _add(p, q):
    X1, Y1, Z1, T1 = p
    X2, Y2, Z2, T2 = q
    A = (Y1 - X1) * (Y2 - X2) % P
    B = (Y1 + X1) * (Y2 + X2) % P
    C = T1 * D2 % P * T2 % P
    Dd = 2 * Z1 * Z2 % P
    E, F, G_, H = B - A, Dd - C, Dd + C, B + A
    return (E * F % P, G_ * H % P, F * G_ % P, E * H % P)


_O = (0, 1, 1, 0)


def _aff(p):
    X, Y, Z, _ = p
    zi = ed.inv(Z)
    return (X * zi % P, Y * zi % P)


def fmul(k, pt):
    """k * pt for an affine point pt and k >= 0 (not reduced: torsion matters); returns an affine point"""
    r, q = _O, _ext(pt)
    while k:
        if k & 1:
            r = _add(r, q)
        q = _add(q, q)
        k >>= 1
    return _aff(r)


_GT = []


def _gtable():
    if not _GT:
        q = _ext(ed.B)
        for _ in range(256):
            _GT.append(q)
            q = _add(q, q)
    return _GT


def gmul_ext(k):
    k %= L
    t = _gtable()
    r = _O
    i = 0
    while k:
        if k & 1:
            r = _add(r, t[i])
        k >>= 1
        i += 1
    return r


def gmul(k):
    return _aff(gmul_ext(k))


def padd(p, q):
    return _aff(_add(_ext(p), _ext(q)))


def psub(p, q):
    return padd(p, ed.neg(q))


HPT = ed.decompress_strict(H_BYTES)
assert HPT is not None


def _selftest():
    rnd = random.Random(7)
    for _ in range(2):
        k, j = rnd.randrange(L), rnd.randrange(L)
        a = ed.mul(k, ed.B)
        assert gmul(k) == a and fmul(k, ed.B) == a
        b = fmul(j, a)
        assert b == ed.mul(j, a) and padd(a, b) == ed.add(a, b)


_selftest()

cp = ed.compress
hs = ed.hash_to_scalar
keccak = ed.keccak256
vi = ed.varint


def sc(n):
    return n.to_bytes(32, "little")


# ------------------------------------------------------------------ the wallet
def sub_scalar(v, maj, mnr):
    return hs(b"SubAddr\x00" + sc(v) + maj.to_bytes(4, "little") + mnr.to_bytes(4, "little"))


def address(v, Spt, maj, mnr):
    """(spend point, view point, is_subaddress) of address (maj, mnr) of the wallet with view secret v, spend point Spt"""
    if (maj, mnr) == (0, 0):
        return (Spt, gmul(v), False)
    S1 = padd(Spt, gmul(sub_scalar(v, maj, mnr)))
    return (S1, fmul(v, S1), True)


# ------------------------------------------------------------------ python sender
ENC_NONE, ENC_LEGACY, ENC_COMPACT = 0, 1, 2


def enc_of(version, in_kind, rct_type):
    if version == 1 or in_kind == "none" or rct_type == 0:
        return ENC_NONE
    return ENC_LEGACY if rct_type in (1, 2, 3) else ENC_COMPACT


def xor_bytes(a, m):
    return bytes(x ^ (m[i] if i < len(m) else 0) for i, x in enumerate(a))


def send_output(sc_, i, o):
    """what the sender publishes for output o at position i: dict(P, K, tag, shared, ecdh, commit, add, target_tag)"""
    enc = sc_["enc"]
    if o["kind"] == "raw":
        return dict(P=o["key"], K=None, tag=o["tag"], tagged=o["tag"] is not None, shared=None,
                    ecdh=None if enc == 0 else bytes(64 if enc == 1 else 8),
                    commit=None if enc == 0 else cp(ed.B), add=cp(gmul(o["ri"])), clear=o["clear"])
    Sd, Vd, is_sub = address(o["fv"], gmul(o["fs"]), o["maj"], o["min"])
    rr = sc_["r"] if o["usemain"] else o["ri"]
    K = cp(fmul(rr, Sd) if is_sub else gmul(rr))
    Dv = cp(fmul(8, fmul(rr, Vd)))
    h = hs(Dv + vi(i))
    Pk = cp(padd(gmul(h), Sd))
    tb = keccak(b"view_tag" + Dv + vi(i))[0]
    tag = None if o["tag"] == "n" else tb if o["tag"] == "y" else (tb + 1) % 256
    ecdh = commit = None
    if enc == ENC_LEGACY:
        s1 = hs(sc(h))
        s2 = hs(sc(s1))
        ecdh = xor_bytes(sc((o["mask"] + s1) % L) + sc((o["amount"] + s2) % L), o["exor"])
        commit = cp(padd(gmul(o["mask"]), fmul(o["amount"], HPT)))
    elif enc == ENC_COMPACT:
        k8 = keccak(b"amount" + sc(h))[:8]
        ecdh = xor_bytes((o["amount"] ^ int.from_bytes(k8, "little")).to_bytes(8, "little"), o["exor"])
        y = hs(b"commitment_mask" + sc(h))
        commit = cp(padd(gmul(y), fmul(o["amount"], HPT)))
    if commit is not None and o["cov"]:
        commit = o["cov"]
    return dict(P=Pk, K=K, tag=tb, tagged=tag is not None, ttag=tag, shared=h, ecdh=ecdh, commit=commit,
                add=cp(gmul(o["ri"])) if o["usemain"] else K, clear=o["clear"])


def main_key(sc_):
    if sc_["mb"] is None:
        return cp(gmul(sc_["r"]))
    Sd, _, is_sub = address(sc_["v"], gmul(sc_["s"]), *sc_["mb"])
    return cp(fmul(sc_["r"], Sd) if is_sub else gmul(sc_["r"]))


def sender(sc_):
    outs = [send_output(sc_, i, o) for i, o in enumerate(sc_["outs"])]
    return dict(main=main_key(sc_), outs=outs)


# ------------------------------------------------------------------ python scanner (wallet side) on the PUBLISHED data
def published(sc_, snt):
    """what the transaction carries: first tx public key (or None), additional keys, targets, ecdh, commitments"""
    adds = [] if sc_["nadd"] is None else [o["add"] for o in snt["outs"]][:sc_["nadd"]]
    main = None if sc_["xstyle"] == 2 else snt["main"]
    tgts = []
    for o in snt["outs"]:
        if o["K"] is None:
            tgts.append((o["P"], o["tag"]))
        else:
            tgts.append((o["P"], o["ttag"] if o["tagged"] else None))
    return dict(main=main, adds=adds, targets=tgts, ecdh=[o["ecdh"] for o in snt["outs"]],
                commit=[o["commit"] for o in snt["outs"]], clear=[o["clear"] for o in snt["outs"]])


def wallet_table(v, Spt, rng_):
    a, b, c, d = rng_
    t = {}
    for maj in range(a, b):
        for mnr in range(c, d):
            t[cp(address(v, Spt, maj, mnr)[0])] = (maj, mnr)       # later insert wins
    return t


def decode_amount(enc, ecdh, shared, commit):
    """ecdhDecode + commitment check: (amount, mask, commitment bytes) or None"""
    if enc == ENC_LEGACY:
        s1 = hs(sc(shared))
        s2 = hs(sc(s1))
        y = (int.from_bytes(ecdh[:32], "little") - s1) % L
        a = ((int.from_bytes(ecdh[32:], "little") - s2) % L) & (2**64 - 1)
    else:
        a = int.from_bytes(ecdh, "little") ^ int.from_bytes(keccak(b"amount" + sc(shared))[:8], "little")
        y = hs(b"commitment_mask" + sc(shared))
    C = ed.decompress_lenient(commit)
    Cx = padd(gmul(y), fmul(a, HPT))
    if C is None or Cx != C:
        return None
    return (a, y, cp(Cx))


def scan_reference(sc_, pub, rng_, keep=None, table=None):
    """the wallet-side procedure; returns the expected result line of the `scan` op"""
    v, Spt = sc_["v"], gmul(sc_["s"])
    if pub["main"] is None:
        return "ERR NoTxPublicKey", []
    if table is None:
        table = wallet_table(v, Spt, rng_)
    enc = sc_["enc"]
    n = len(pub["targets"])
    ecdhs, commits = pub["ecdh"], pub["commit"]
    if keep is not None and enc != 0:
        ecdhs, commits = ecdhs[:keep[0]], commits[:keep[1]]
    dmain = None
    rows, owned = [], []
    for i, (Pb, tag) in enumerate(pub["targets"]):
        Ppt = ed.decompress_strict(Pb)
        if Ppt is None:
            continue
        hit = None
        for which in (0, 1):
            if which == 0:
                K = pub["main"]
                if dmain is None:
                    dmain = cp(fmul(8, fmul(v, ed.decompress_strict(K))))
                Dv = dmain
            else:
                if i >= len(pub["adds"]):
                    break
                K = pub["adds"][i]
                Dv = cp(fmul(8, fmul(v, ed.decompress_strict(K))))
            if tag is not None and keccak(b"view_tag" + Dv + vi(i))[0] != tag:
                continue
            h = hs(Dv + vi(i))
            cand = cp(psub(Ppt, gmul(h)))
            if cand in table:
                hit = (table[cand], K, h)
                break
        if hit is None:
            continue
        idx, K, h = hit
        am = mk = cm = "-"
        if enc == 0:
            if pub["clear"][i] != 0:
                am = str(pub["clear"][i])
        else:
            if i >= len(ecdhs):
                return "ERR MissingEcdhInfo", owned
            if i >= len(commits):
                return "ERR MissingCommitment", owned
            r = decode_amount(enc, ecdhs[i], h, commits[i])
            if r is None:
                return "ERR InvalidCommitment", owned
            am, mk, cm = str(r[0]), sc(r[1]).hex(), r[2].hex()
        rows.append("%d %d %d %s %s %s %s" % (i, idx[0], idx[1], K.hex(), am, mk, cm))
        owned.append((i, idx, K, h))
    return " ".join(["OK", str(len(rows))] + rows), owned


def ground_truth(sc_, snt, rng_):
    """which outputs the SENDER addressed to the scanning wallet inside the ranges, with a usable key and tag:
    list of (position, (maj, min), key bytes) — no scanning involved"""
    a, b, c, d = rng_
    out = []
    if sc_["xstyle"] == 2:
        return None
    for i, o in enumerate(sc_["outs"]):
        if o["kind"] != "w" or (o["fv"], o["fs"]) != (sc_["v"], sc_["s"]):
            continue
        if not (a <= o["maj"] < b and c <= o["min"] < d) or o["tag"] == "x":
            continue
        if o["usemain"]:
            base = None if (o["maj"], o["min"]) == (0, 0) else (o["maj"], o["min"])
            mb = None if sc_["mb"] in (None, (0, 0)) else sc_["mb"]
            if base != mb:
                continue
            out.append((i, (o["maj"], o["min"]), snt["main"]))
        else:
            if sc_["nadd"] is None or i >= sc_["nadd"]:
                continue
            out.append((i, (o["maj"], o["min"]), snt["outs"][i]["K"]))
    return out


# ------------------------------------------------------------------ scenario -> build_scan line
def template(rng, sc_):
    n = len(sc_["outs"])
    ver, t, ik = sc_["version"], sc_["rct_type"], sc_["in_kind"]
    kinds = [] if ik == "none" else [ik]
    return gc.tx_desc(rng, ver, kinds, 1, [False] * n, t if ver != 1 else 0, n_proofs=1, extra_len=0, lr=(1, 1))


def build_line(rng, sc_):
    w = ["build_scan", sc(sc_["v"]).hex(), sc(sc_["s"]).hex(), sc(sc_["r"]).hex()]
    mb = sc_["mb"]
    w += ["0", "0", "0"] if mb is None else ["1", str(mb[0]), str(mb[1])]
    w += [str(sc_["xstyle"]), "1" if sc_["decoy"] else "0", hx(sc_["nonce"]),
          "none" if sc_["nadd"] is None else str(sc_["nadd"]), str(len(sc_["outs"]))]
    for o in sc_["outs"]:
        if o["kind"] == "raw":
            w += ["raw", o["key"].hex(), "n" if o["tag"] is None else str(o["tag"]), str(o["clear"]), sc(o["ri"]).hex()]
        else:
            w += ["w", sc(o["fv"]).hex(), sc(o["fs"]).hex(), str(o["maj"]), str(o["min"]), "1" if o["usemain"] else "0",
                  sc(o["ri"]).hex(), o["tag"], str(o["clear"]), str(o["amount"]), sc(o["mask"]).hex(),
                  hx(o["exor"]), hx(o["cov"])]
    return " ".join(w + template(rng, sc_))


def parse_built(res, n):
    """OK <tx hex> <main key> <n> (<P> <key|-> <tag> <shared|-> <ecdh|-> <commit|->)^n"""
    w = res.split(" ")
    if w[0] != "OK" or int(w[3]) != n or len(w) != 4 + 6 * n:
        raise fw.Infra("build_scan failed: " + res[:200])
    rows = [w[4 + 6 * k: 10 + 6 * k] for k in range(n)]
    return w[1], w[2], rows


def check_built(sc_, snt, res):
    """cross-check of the model sender's ground truth against the python sender; returns the tx hex"""
    txhex, main, rows = parse_built(res, len(sc_["outs"]))
    if main != snt["main"].hex():
        raise fw.Infra("model sender and python sender disagree on the main key")
    for i, (row, o) in enumerate(zip(rows, snt["outs"])):
        want = [o["P"].hex(), "-" if o["K"] is None else o["K"].hex(),
                str(o["tag"] if o["K"] is not None else (o["tag"] or 0)),
                "-" if o["shared"] is None else sc(o["shared"]).hex(),
                "-" if o["ecdh"] is None else o["ecdh"].hex(), "-" if o["commit"] is None else o["commit"].hex()]
        if row != want:
            raise fw.Infra("model sender and python sender disagree on output %d: %r vs %r" % (i, row, want))
    return txhex


# ------------------------------------------------------------------ random material
def rscalar(rng):
    return rng.randrange(1, L)


def garbage_key(rng):
    while True:
        b = bytes(rng.getrandbits(8) for _ in range(32))
        if ed.decompress_strict(b) is None:
            return b


def noncanonical_key(rng):
    """an encoding dalek's decompress accepts but PublicKey::from_slice rejects: y >= p, or x = 0 with the sign bit set"""
    c = rng.randrange(3)
    if c == 0:
        return (1 | (1 << 255)).to_bytes(32, "little")            # (0, 1) with sign bit: "negative zero"
    if c == 1:
        return (P + 1).to_bytes(32, "little")                      # y = 1 encoded as p + 1
    for y in range(P, P + 19):
        if ed.recover_x(y % P, 0) not in (None, "negzero"):
            return y.to_bytes(32, "little")
    return (P + 1).to_bytes(32, "little")


AMOUNTS = [0, 1, 2**32, 2**63, 2**64 - 1]


def mk_out_wallet(rng, fv, fs, maj, mnr, usemain, tag, amount=None, mask=None, clear=0, exor=b"", cov=b""):
    return dict(kind="w", fv=fv, fs=fs, maj=maj, min=mnr, usemain=usemain, ri=rscalar(rng), tag=tag,
                clear=clear, amount=rng.choice(AMOUNTS + [rng.getrandbits(64)]) if amount is None else amount,
                mask=rscalar(rng) if mask is None else mask, exor=exor, cov=cov)


def mk_out_raw(rng, key, tag=None, clear=0):
    return dict(kind="raw", key=key, tag=tag, clear=clear, ri=rscalar(rng))


def mk_scenario(rng, v, s, outs, version=2, rct_type=5, in_kind="key", mb=None, xstyle=0, decoy=False, nonce=b"",
                nadd=None, r=None):
    sc_ = dict(v=v, s=s, r=rscalar(rng) if r is None else r, mb=mb, xstyle=xstyle, decoy=decoy, nonce=nonce, nadd=nadd,
               outs=outs, version=version, rct_type=rct_type, in_kind=in_kind)
    sc_["enc"] = enc_of(version, in_kind, rct_type)
    return sc_


# ------------------------------------------------------------------ pool helpers
def _work(job):
    sc_, ranges_keeps = job
    snt = sender(sc_)
    pub = published(sc_, snt)
    res = []
    tables = {}
    for rng_, keep in ranges_keeps:
        if rng_ not in tables:
            tables[rng_] = wallet_table(sc_["v"], gmul(sc_["s"]), rng_)
        line, owned = scan_reference(sc_, pub, rng_, keep, tables[rng_])
        res.append((line, owned, ground_truth(sc_, snt, rng_)))
    return snt, res


def run_jobs(jobs):
    if len(jobs) < 4:
        return [_work(j) for j in jobs]
    with ProcessPoolExecutor(max_workers=min(fw.NCPU, 16)) as ex:
        return list(ex.map(_work, jobs, chunksize=max(1, len(jobs) // (4 * fw.NCPU))))


class ScanCheck(CurveCheck):
    """common driver: scenarios -> python sender/scanner (pool) -> model `build_scan` (bytes) -> cases"""
    evalA_sample = 0
    impl_timeout = 900

    def realise(self, rng, scenarios):
        """scenarios: list of (scenario, [(ranges, keep)]) -> list of (scenario, snt, txhex, [(ranges, keep, expected line,
        owned, ground truth)])"""
        jobs = [(s, rk) for s, rk in scenarios]
        results = run_jobs(jobs)
        lines = [build_line(rng, s) for s, _ in scenarios]
        built = self.ctx.model_many(lines)
        out = []
        for (s, rk), (snt, res), b in zip(scenarios, results, built):
            txhex = check_built(s, snt, b)
            out.append((s, snt, txhex, [(r, k, line, owned, gt) for (r, k), (line, owned, gt) in zip(rk, res)]))
        return out
