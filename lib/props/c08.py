# C08 — recovered amounts are the sender's and always open the on-chain commitment.
# `open` (EcdhInfo::open_commitment) on sender-encoded (ecdh, commitment) pairs for amounts {0,1,2^32,2^63,2^64-1,random},
# random masks, both encodings, and on corrupted fields (every byte position of the ecdh data and of the commitment, invalid
# points); `scan` on sender-built transactions (model sender = generator only) with hidden amounts for all RingCT types,
# corrupted fields of an owned output, truncated ecdh_info / out_pk vectors (the three error kinds), v1 / coinbase / Null
# clear amounts.  DIRECT oracles in python: (1) whatever is returned as an opening satisfies y*G + a*H = the commitment
# (checked with the independent curve arithmetic, for EVERY result); (2) the expected result from the python sender /
# python ecdhDecode.
from framework import Case
import framework as fw
from props import edref as ed
from props import scan_common as sc
from props.scan_common import ScanCheck, L, AMOUNTS
from props.c07 import pick_ranges, in_range_index


def flips(rng, n, thorough):
    """single-byte corruptions: every byte position with one of several masks"""
    out = []
    for i in range(n):
        for m in ([rng.choice([0x01, 0x80, 0xff])] if not thorough else [0x01, 0x80, 0xff, rng.randrange(1, 256)]):
            out.append(bytes(i) + bytes([m]))
    return out


class C08(ScanCheck):
    pid = "C08"
    rule = ("open: wallets x tx keys x positions {0,1,127,128,16384,random} x amounts {0,1,2^32,2^63,2^64-1,random} x random masks "
            "(plus 0, 1, l-1) x {legacy 64-byte, compact 8-byte}: sender-encoded pairs, then every byte position of the ecdh data and of "
            "the commitment corrupted, invalid / small-order / other valid points as commitment, swapped position; scan: sender-built "
            "transactions (every RingCT type, v1, coinbase-like gen input, no inputs, Null type) with all-owned and mixed outputs, "
            "corruption of one owned output's ecdh / out_pk, truncation of ecdh_info / out_pk (MissingEcdhInfo, MissingCommitment, "
            "InvalidCommitment), clear amounts 0 / >0; oracle: y*G + a*H = C on every returned opening (independent arithmetic) and "
            "expected value from the python sender / decoder; non-trivial = distinct case line")
    level_note = ("theorems are about the Gallina model (Model/Ecdh.v, Model/Scan.v): soundness of every returned opening is unconditional "
                  "given the point-equality law; exactness w.r.t. Spec/Sender.v holds for EVERY group satisfying EdLaws and hashes with "
                  "Hs in [0,l) (_partial). The executable instance / curve25519-dalek being such a group is checked by computation only "
                  "(model = implementation = independent python reference on every case). Evaluator A (coqc vm_compute): no uniform "
                  "sample (>= 25 s per curve operation); one NOPOINT open case per run")
    evalA_lines = ()

    # ---------------------------------------------------------------- open
    def open_cases(self, rng, q):
        cases = []
        wallets = [(sc.rscalar(rng), sc.rscalar(rng)) for _ in range(2 if q else 8)]
        for wi, (v, s) in enumerate(wallets):
            Spt = sc.gmul(s)
            S = sc.cp(Spt).hex()
            tors = ed.torsion_points()
            for kk in range(3 if q else 7):
                r = sc.rscalar(rng)
                Kpt = sc.gmul(r)
                if kk == 2 or kk >= 5:
                    # a transaction key with a small-order component (r*G + T), or a pure small-order key: the shared secret
                    # 8*v*K is the one of r*G (resp. the neutral element) on every route
                    Kpt = ed.add(Kpt, tors[1 + (wi + kk) % 7]) if kk != 6 else tors[(wi % 7) + 1]
                K = sc.cp(Kpt).hex()
                Dv = sc.cp(sc.fmul(8, sc.fmul(v, Kpt)))
                first = True
                for pos in [0, 1, 127, 128, 16384, rng.getrandbits(20)]:
                    h = sc.hs(Dv + sc.vi(pos))
                    head = "open %s %s %s %d" % (sc.sc(v).hex(), S, K, pos)
                    amounts = AMOUNTS + [rng.getrandbits(64), rng.getrandbits(40)]
                    # amounts and masks whose ENCRYPTED form is a special pattern: the compact amount equal to its own key stream
                    # (eight zero bytes on the wire), its complement (eight 0xff), one off; the legacy mask -Hs(shared) (32 zero
                    # bytes).  Legal sender output, indistinguishable from a placeholder by inspection
                    k8 = int.from_bytes(sc.keccak(b"amount" + sc.sc(h))[:8], "little")
                    s1_ = sc.hs(sc.sc(h))
                    special = [(k8, None), (k8 ^ (2**64 - 1), None), (k8 ^ 1, None), (0, (-s1_) % L), (k8, (1 - s1_) % L)] \
                        if pos in (0, 128) else []
                    for a in amounts + special:
                        y = rng.choice([0, 1, L - 1, sc.rscalar(rng), sc.rscalar(rng), sc.rscalar(rng)])
                        if isinstance(a, tuple):
                            a, y0 = a
                            y = y if y0 is None else y0
                        for enc in (sc.ENC_LEGACY, sc.ENC_COMPACT):
                            ecdh, commit, yy = self.encode(enc, a, y, h)
                            self.add_open(cases, head, enc, ecdh, commit, h, "open:sender " + ("legacy" if enc == 1 else "compact"),
                                          sender=(a, yy))
                            if first or (not q and rng.random() < 0.03):
                                # corruptions, once per (wallet, key) in quick
                                for f in flips(rng, len(ecdh), not q):
                                    self.add_open(cases, head, enc, sc.xor_bytes(ecdh, f), commit, h, "open:ecdh-corrupted")
                                for f in flips(rng, 32, not q):
                                    self.add_open(cases, head, enc, ecdh, sc.xor_bytes(commit, f), h, "open:commitment-corrupted")
                                for c in [sc.garbage_key(rng), sc.noncanonical_key(rng), sc.cp(ed.O), sc.cp(ed.B), sc.cp(sc.HPT),
                                          sc.cp(ed.neg(ed.decompress_strict(commit)))] + [sc.cp(t) for t in ed.torsion_points()[1:3]]:
                                    self.add_open(cases, head, enc, ecdh, c, h, "open:other-commitment")
                                # the sender's commitment shifted by each non-trivial small-order point: a different point that
                                # only a comparison "up to the cofactor" would accept
                                cp0 = ed.decompress_strict(commit)
                                for t in ed.torsion_points()[1:]:
                                    self.add_open(cases, head, enc, ecdh, sc.cp(ed.add(cp0, t)), h, "open:commitment-plus-torsion")
                                # the same data at another position
                                h2 = sc.hs(Dv + sc.vi(pos + 1))
                                self.add_open(cases, "open %s %s %s %d" % (sc.sc(v).hex(), S, K, pos + 1), enc, ecdh, commit, h2,
                                              "open:wrong-position")
                        first = False
        # evaluator-A line: a commitment that does not decompress (three key validations, no scalar multiplication)
        return cases

    @staticmethod
    def encode(enc, a, y, h):
        if enc == sc.ENC_LEGACY:
            s1 = sc.hs(sc.sc(h))
            s2 = sc.hs(sc.sc(s1))
            ecdh = sc.sc((y + s1) % L) + sc.sc((a + s2) % L)
            yy = y
        else:
            k8 = sc.keccak(b"amount" + sc.sc(h))[:8]
            ecdh = (a ^ int.from_bytes(k8, "little")).to_bytes(8, "little")
            yy = sc.hs(b"commitment_mask" + sc.sc(h))
        commit = sc.cp(sc.padd(sc.gmul(yy), sc.fmul(a, sc.HPT)))
        return ecdh, commit, yy

    def add_open(self, cases, head, enc, ecdh, commit, h, cls, sender=None):
        if enc == sc.ENC_LEGACY:
            l = "%s es %s %s %s" % (head, ecdh[:32].hex(), ecdh[32:].hex(), commit.hex())
        else:
            l = "%s eb %s %s" % (head, ecdh.hex(), commit.hex())
        if ed.decompress_lenient(commit) is None:
            want = "NOPOINT"
        else:
            r = sc.decode_amount(enc, ecdh, h, commit)
            want = "NONE" if r is None else "OK %d %s" % (r[0], sc.sc(r[1]).hex())
        if sender is not None:
            # the sender's own values must come back
            exact = "OK %d %s" % (sender[0], sc.sc(sender[1] % L).hex())
            if want != exact:
                raise fw.Infra("python decoder does not invert the python sender")
        self.exp[l] = want
        self.commit_of[l] = commit
        cases.append(Case(l, cls + (" -> " + want.split(" ")[0])))

    # ---------------------------------------------------------------- scan
    def scan_scenarios(self, rng, q):
        scen = []
        types = [(2, t, "key") for t in range(7)] + [(1, 0, "key"), (2, 0, "gen"), (2, 5, "none"), (2, 6, "gen")]
        for rep in range(2 if q else 12):
            for (ver, t, ik) in types:
                v, s = sc.rscalar(rng), sc.rscalar(rng)
                r = pick_ranges(rng)
                n = rng.choice([2, 2, 3]) if t in (1, 2) else rng.choice([1, 2, 3, 5])
                outs = []
                for i in range(n):
                    idx = in_range_index(rng, r)
                    if rng.random() < 0.2:
                        outs.append(sc.mk_out_wallet(rng, sc.rscalar(rng), sc.rscalar(rng), 0, 0, True, "n"))
                        continue
                    usemain = idx == (0, 0) and rng.random() < 0.5
                    outs.append(sc.mk_out_wallet(rng, v, s, idx[0], idx[1], usemain, rng.choice(["n", "y"]),
                                                 clear=rng.choice([0, 0, 1, 2**64 - 1, rng.getrandbits(40)])))
                base = sc.mk_scenario(rng, v, s, outs, version=ver, rct_type=t, in_kind=ik, nadd=n)
                scen.append((base, [(r, None)], "scan:sender rct%d v%d %s" % (t, ver, ik)))
                if base["enc"] == 0:
                    continue
                own = [i for i, o in enumerate(outs) if o["fv"] == v]
                # truncations of the two vectors (every length)
                rk = []
                for k in range(n + 1):
                    rk += [(r, (k, n)), (r, (n, k))]
                rk.append((r, (0, 0)))
                scen.append((base, rk, "scan:truncated rct%d" % t))
                if not own:
                    continue
                # corrupt one owned output
                i = rng.choice(own)
                elen = 64 if base["enc"] == 1 else 8
                for _ in range(1 if q else 3):
                    outs2 = [dict(o) for o in outs]
                    outs2[i]["exor"] = rng.choice(flips(rng, elen, False))
                    s2 = dict(base)
                    s2["outs"] = outs2
                    scen.append((s2, [(r, None)], "scan:ecdh-corrupted rct%d" % t))
                    outs2 = [dict(o) for o in outs]
                    outs2[i]["cov"] = sc.xor_bytes(sc.send_output(base, i, outs[i])["commit"], rng.choice(flips(rng, 32, False)))
                    s2 = dict(base)
                    s2["outs"] = outs2
                    scen.append((s2, [(r, None)], "scan:commitment-corrupted rct%d" % t))
                # the owned output carries an amount / mask whose encrypted form is all zero (or all ones): a legal sender output
                hsh = sc.send_output(base, i, outs[i])["shared"]
                k8 = int.from_bytes(sc.keccak(b"amount" + sc.sc(hsh))[:8], "little")
                for am, mk in ((k8, None), (k8 ^ (2**64 - 1), None), (0, (-sc.hs(sc.sc(hsh))) % L)):
                    outs4 = [dict(o) for o in outs]
                    outs4[i]["amount"] = am
                    if mk is not None:
                        outs4[i]["mask"] = mk
                    s4 = dict(base)
                    s4["outs"] = outs4
                    scen.append((s4, [(r, None)], "scan:encrypted-form-special rct%d" % t))
                # compensating corruption: two owned outputs whose commitments are moved by +d*H and -d*H (and by +T / -T): the sum
                # of the commitments is unchanged, each single opening is wrong
                if len(own) >= 2:
                    i1, i2 = rng.sample(own, 2)
                    c1 = ed.decompress_strict(sc.send_output(base, i1, outs[i1])["commit"])
                    c2 = ed.decompress_strict(sc.send_output(base, i2, outs[i2])["commit"])
                    for delta in (sc.fmul(rng.randrange(1, 2**40), sc.HPT), sc.gmul(rng.randrange(1, L)), sc.HPT):
                        outs5 = [dict(o) for o in outs]
                        outs5[i1]["cov"] = sc.cp(sc.padd(c1, delta))
                        outs5[i2]["cov"] = sc.cp(sc.psub(c2, delta))
                        s5 = dict(base)
                        s5["outs"] = outs5
                        scen.append((s5, [(r, None)], "scan:compensating-commitments rct%d" % t))
                outs3 = [dict(o) for o in outs]
                outs3[i]["cov"] = sc.garbage_key(rng)
                s3 = dict(base)
                s3["outs"] = outs3
                scen.append((s3, [(r, None)], "scan:commitment-not-a-point rct%d" % t))
        return scen

    def gen_cases(self, tier, rng):
        q = tier == "quick"
        self.exp, self.commit_of, self.scan_commits = {}, {}, {}
        cases = []
        # evaluator-A case first: commitment bytes that are not a point
        v, s = sc.rscalar(rng), sc.rscalar(rng)
        head = "open %s %s %s 0" % (sc.sc(v).hex(), sc.cp(sc.gmul(s)).hex(), sc.cp(sc.gmul(sc.rscalar(rng))).hex())
        bad = sc.garbage_key(rng)
        self.add_open(cases, head, sc.ENC_COMPACT, bytes(8), bad, 0, "open:not-a-point")
        self.evalA_lines = (cases[0].line,)
        cases += self.open_cases(rng, q)
        scen = self.scan_scenarios(rng, q)
        real = self.realise(rng, [(s_, rk) for s_, rk, _ in scen])
        for (s_, snt, txhex, rows), (_, _, cls) in zip(real, scen):
            S = sc.cp(sc.gmul(s_["s"])).hex()
            for (r, keep, line, owned, gt) in rows:
                for e in (["tx", "prefix", "checker"] if keep is None else ["tx", "pchecker"]):
                    l = "scan %s %s %s %d %d %d %d %s" % (e, sc.sc(s_["v"]).hex(), S, r[0], r[1], r[2], r[3], txhex)
                    if keep is not None:
                        l += " %d %d" % keep
                    self.exp[l] = line
                    # sender truth: an untouched owned output must come back with the sender's amount (and mask for legacy)
                    self.scan_commits[l] = (s_, snt, keep)
                    cases.append(Case(l, cls + " -> " + " ".join(line.split(" ")[:2]) if line.startswith("ERR") else cls + " -> OK"))
        return cases

    # ---------------------------------------------------------------- oracle
    @staticmethod
    def opens(a, ybytes, cbytes):
        """y*G + a*H == C with the independent arithmetic"""
        C = ed.decompress_lenient(cbytes)
        y = int.from_bytes(ybytes, "little")
        return C is not None and sc.padd(sc.gmul(y), sc.fmul(a, sc.HPT)) == C

    def oracle(self, case, impl, ctx):
        r = impl.split(" ")
        if r[0] in ("PANIC", "ABORT", "TIMEOUT"):
            return "implementation did not return: " + r[0]
        w = case.line.split(" ")
        if w[0] == "open":
            commit = bytes.fromhex(w[-1])
            if r[0] == "OK":
                if not self.opens(int(r[1]), bytes.fromhex(r[2]), commit):
                    return "returned opening (%s, %s) does not open the commitment %s" % (r[1], r[2], w[-1])
            want = self.exp.get(case.line)
            if want is not None and impl != want:
                return "open_commitment: reference demands %s, implementation returned %s" % (want, impl)
            return None
        if w[0] == "scan":
            if r[0] == "OK":
                n = int(r[1])
                info = self.scan_commits.get(case.line)
                for k in range(n):
                    pos, am, mk, cm = int(r[2 + 7 * k]), r[6 + 7 * k], r[7 + 7 * k], r[8 + 7 * k]
                    if mk != "-" or cm != "-":
                        if am == "-" or mk == "-" or cm == "-" or not self.opens(int(am), bytes.fromhex(mk), bytes.fromhex(cm)):
                            return "output %d reported with (%s, %s, %s) which is not an opening" % (pos, am, mk, cm)
                        if info is not None:
                            s_, snt, keep = info
                            onchain = snt["outs"][pos]["commit"]
                            if onchain is None or ed.decompress_lenient(onchain) != ed.decompress_lenient(bytes.fromhex(cm)):
                                return "output %d: reported commitment %s is not the transaction's %s" % (
                                    pos, cm, onchain.hex() if onchain else None)
                            o = s_["outs"][pos]
                            if o["kind"] == "w" and not o["exor"] and not o["cov"] and int(am) != o["amount"]:
                                return "output %d: amount %s is not the sender's %d" % (pos, am, o["amount"])
                            if o["kind"] == "w" and not o["exor"] and not o["cov"] and s_["enc"] == 1 and \
                                    int.from_bytes(bytes.fromhex(mk), "little") != o["mask"] % L:
                                return "output %d: mask is not the sender's" % pos
                    elif info is not None and info[0]["enc"] == 0:
                        clear = info[0]["outs"][pos]["clear"]
                        if am != ("-" if clear == 0 else str(clear)):
                            return "output %d: clear amount %d reported as %s" % (pos, clear, am)
            want = self.exp.get(case.line)
            if want is not None and impl != want:
                return "scan: reference demands %s, implementation returned %s" % (want[:300], impl[:300])
        return None

    def neighbours(self, case, rng):
        w = case.line.split(" ")
        if w[0] != "open":
            return []
        out = []
        for i in range(8):
            b = bytearray(bytes.fromhex(w[-2]))
            b[rng.randrange(len(b))] ^= 1 << rng.randrange(8)
            out.append(Case(" ".join(w[:-2] + [bytes(b).hex(), w[-1]])))
        return out


CHECK = C08()
