# C06 — block id, PoW blob and Merkle root follow the CryptoNote definition.
# Arrangement: `tree <leaves>` compares tree_hash(leaf0, &leaves[1..]) with the model; `blockparts <header> <miner tx>
# <miner tx hash> <tx hashes>` lets the harness build a Block from its parts (deserialised header and miner transaction) and
# report miner_tx.hash(), tx_root(), serialize_hashable(), id(); the model gets the same line, ignores the serialised miner
# transaction and uses the miner-tx hash computed HERE (independently, pure-python Keccak) — so a wrong hash shows as a diff.
# Oracle: independent recursive tree hash / blob / id in python, plus the Coq Spec (Spec/TreeHash.v) evaluated by the driver.
import os, re
import framework
from framework import Check, Case, REPO
from props.c17 import keccak256_fast as keccak256      # pure python, self-tested against the plain version and the KATs

CORRECT_202612 = bytes.fromhex("426d16cff04c71f8b16340b722dc4010a2dd3831c22041431f772547ba6e331a")
EXISTING_202612 = bytes.fromhex("bbd604d2ba11ba27935e006ed39c9bfdd99b76bf4a50654bc1e1e61217962698")

# block with a version-2 coinbase and no transactions (test_block_ser in src/blockdata/block.rs) and its PoW blob
BLOCK_V2 = bytes.fromhex(
    "0c0c94debaf805beb3489c722a285c092a32e7c6893abfc7d069699c8326fc3445a749c5276b6200000000029b892201ffdf882201b699d4"
    "c8b1ec020223df524af2a2ef5f870adb6e1ceb03a475c39f8b9ef76aa50b46ddd2a18349402b012839bfa19b7524ec7488917714c216ca25"
    "4b38ed0424ca65ae828a7c006aeaf10208f5316a7f6b99cca60000")
BLOCK_V2_BLOB = bytes.fromhex(
    "0c0c94debaf805beb3489c722a285c092a32e7c6893abfc7d069699c8326fc3445a749c5276b6200000000602d0d4710e2c2d38da0cce097"
    "accdf5dc18b1d34323880c1aae90ab8f6be6e201")


def hx(bs):
    return bytes(bs).hex() if bs else "-"


def varint(n):
    o = []
    while True:
        b = n & 0x7f
        n >>= 7
        if n:
            o.append(b | 0x80)
        else:
            o.append(b)
            return bytes(o)


def read_varint(b, i):
    n = s = 0
    while True:
        c = b[i]
        i += 1
        n |= (c & 0x7f) << s
        s += 7
        if c < 0x80:
            return n, i


# ---- independent definition (recursive) --------------------------------------------------------
def H2(a, b):
    return keccak256(a + b)


def perfect(l):
    if len(l) == 1:
        return l[0]
    h = len(l) // 2
    return H2(perfect(l[:h]), perfect(l[h:]))


def tree_ref(leaves):
    n = len(leaves)
    if n == 1:
        return leaves[0]
    if n == 2:
        return H2(leaves[0], leaves[1])
    c = 1
    while 2 * c < n:            # largest power of two strictly below n
        c *= 2
    keep = 2 * c - n
    level = list(leaves[:keep]) + [H2(leaves[i], leaves[i + 1]) for i in range(keep, n, 2)]
    assert len(level) == c
    return perfect(level)


def tx_hash_ref(tx):
    """hash of a coinbase transaction given its serialisation: v1 = H(bytes); v2 with RingCT type 0 (the last byte) =
    H(H(prefix) || H([00]) || 0^32)"""
    ver, _ = read_varint(tx, 0)
    if ver == 1:
        return keccak256(tx)
    assert tx[-1] == 0
    return keccak256(keccak256(tx[:-1]) + keccak256(b"\x00") + b"\x00" * 32)


def blob_ref(hdr, leaves):
    return hdr + tree_ref(leaves) + varint(len(leaves))


def id_ref(hdr, leaves):
    blob = blob_ref(hdr, leaves)
    h = keccak256(varint(len(blob)) + blob)
    return EXISTING_202612 if h == CORRECT_202612 else h


def split_block(blk):
    """serialised block -> (header bytes, miner tx bytes, [tx hashes]); the tx-hash list is located from the end"""
    i = 0
    for _ in range(3):
        _, i = read_varint(blk, i)
    i += 36
    cands = []
    for n in range(0, (len(blk) - i) // 32 + 1):
        t = varint(n)
        L = len(t) + 32 * n
        if L <= len(blk) - i and blk[len(blk) - L:len(blk) - 32 * n] == t:
            cands.append(n)
    return [(blk[:i], blk[i:len(blk) - len(varint(n)) - 32 * n],
             [blk[len(blk) - 32 * n + 32 * k:len(blk) - 32 * n + 32 * k + 32] for k in range(n)]) for n in cands]


def block_202612():
    s = open(os.path.join(REPO, "src", "blockdata", "block.rs")).read()
    m = re.search(r'fn block_202612_id\(\).*?hex!\(\s*"([0-9a-f]+)"\s*\)', s, flags=re.S)
    return bytes.fromhex(m.group(1)) if m else None


PY_LIMIT = 260        # python reference for every n up to here (0.7 ms per hash); beyond: 2^k-1..2^k+2 up to 2^9, rest by Spec


class C06(Check):
    pid = "C06"
    rule = ("tree: EVERY leaf count 1..260 (thorough 1..2100; three contents each up to 40) and 2^k-1, 2^k, 2^k+1, 2^k+2 "
            "for k <= 13 (thorough 15) with random 32-byte leaves; blockparts: random valid headers x two real coinbase transactions "
            "(v1 from block 202612, v2 from test_block_ser) x every tx count 0..70 and 2^k-2..2^k+1 (k <= 9, thorough 11), "
            "the two test-suite blocks split into parts (202612 with its 513 hashes, and nonce/timestamp mutations of it); "
            "non-trivial = distinct case line")
    level_note = ("theorems are about the Gallina model Model/TreeHash.v for an arbitrary two-to-one hash; the block "
                  "functions take the serialised header and the miner-transaction hash as inputs (the transaction codec and "
                  "id are C03/C05); tie to src/cryptonote/hash.rs and src/blockdata/block.rs is the correspondence check")
    evalA_sample = 40     # only lines < 4000 characters are re-evaluated in the VM (<= 62 leaves, 30 ms per hash)
    model_shard = 1

    def leaves(self, rng, n, mode="random"):
        if mode == "random":
            return [rng.getrandbits(256).to_bytes(32, "little") for _ in range(n)]
        if mode == "counter":
            return [i.to_bytes(32, "little") for i in range(n)]
        return [b"\xff" * 32 for _ in range(n)]          # all leaves equal

    def header(self, rng):
        def v():
            return varint(rng.choice([0, 1, 12, 16, 127, 128, 255, rng.getrandbits(rng.choice([7, 14, 32, 63, 64])), 2**64 - 1]))
        return v() + v() + v() + rng.getrandbits(256).to_bytes(32, "little") + rng.getrandbits(32).to_bytes(4, "little")

    def gen(self, tier, rng):
        self.full = {}
        cs = []
        seen = set()

        def add(line, cls):
            if line not in seen:
                seen.add(line)
                cs.append(Case(line, cls))

        thorough = tier == "thorough"
        # One case costs up to 10^4 Keccak permutations on the model side, so the model must be spread over the cores in
        # small shards.  framework.run_model has a fixed shard size of 1000 lines (Check.model_shard is not consulted by
        # it), hence this wrapper, installed only when this check runs (see notes/C06.md).
        # (framework.run_model now spreads few expensive cases over all cores itself)
        # --- corpus: the two blocks of the test-suite
        miner_txs = []
        parts = split_block(BLOCK_V2)
        assert len(parts) == 1 and not parts[0][2]
        hdr2, mtx2, _ = parts[0]
        assert blob_ref(hdr2, [tx_hash_ref(mtx2)]) == BLOCK_V2_BLOB     # the published PoW blob of that block
        miner_txs.append(mtx2)
        add("blockparts %s %s %s -" % (hx(hdr2), hx(mtx2), hx(tx_hash_ref(mtx2))), "corpus-block")
        # --- other transactions in the miner slot: Block::tx_root must use Transaction::hash whatever the miner transaction looks
        # like (non-Null RingCT types, key inputs, no outputs, later versions).  Their hash is the Coq SPEC of the identifier
        # (Spec/TxIdSpec.v through `txid_spec`; C05 checks that spec against an independent python definition).
        import gen_codec as G
        self.mhash = {}
        sz = self.impl_query(["sizes"])[0].split(" ")[1]
        mshapes = [dict(version=2, in_kinds=["gen"], ring=1, out_tagged=[False], rct_type=t, n_proofs=1, lr=(0, 0)) for t in (2, 4, 5, 6)]
        mshapes += [dict(version=2, in_kinds=["key"], ring=2, out_tagged=[True, False], rct_type=5, n_proofs=1, lr=(1, 1)),
                    dict(version=2, in_kinds=["gen"], ring=1, out_tagged=[], rct_type=0),
                    dict(version=2, in_kinds=["gen", "gen"], ring=1, out_tagged=[True], rct_type=0),
                    dict(version=3, in_kinds=["gen"], ring=1, out_tagged=[False], rct_type=0),
                    dict(version=1, in_kinds=["key", "key"], ring=2, out_tagged=[False], rct_type=0)]
        enc = self.ctx.model_many(["enc %s tx %s" % (sz, " ".join(G.tx_desc(rng, **sh))) for sh in mshapes])
        other = [bytes.fromhex(r.split(" ")[1]) for r in enc if r.startswith("OK ")]
        if len(other) != len(mshapes):
            raise framework.Infra("model cannot encode a miner-slot transaction")
        ids = self.ctx.model_many(["txid_spec %s %s" % (sz, hx(m)) for m in other])
        for m, r in zip(other, ids):
            if not r.startswith("OK "):
                raise framework.Infra("no specification id for a generated transaction: " + r[:40])
            self.mhash[m] = bytes.fromhex(r.split(" ")[1])
        b = block_202612()
        if b is not None:
            parts = split_block(b)
            if len(parts) == 1:
                hdr1, mtx1, txs1 = parts[0]
                miner_txs.append(mtx1)
                mh1 = tx_hash_ref(mtx1)
                add("blockparts %s %s %s %s" % (hx(hdr1), hx(mtx1), hx(mh1), hx(b"".join(txs1))), "block-202612")
                # neighbours of 202612 that must NOT get the substituted id
                for k in range(4):
                    h = bytearray(hdr1)
                    h[-1 - k] ^= 1
                    add("blockparts %s %s %s %s" % (hx(h), hx(mtx1), hx(mh1), hx(b"".join(txs1))), "block-202612-mutated")
                add("blockparts %s %s %s %s" % (hx(hdr1), hx(mtx1), hx(mh1), hx(b"".join(txs1[:-1]))), "block-202612-mutated")
                add("tree " + hx(mh1 + b"".join(txs1)), "tree-202612")
        # --- tree hash for every count
        top = 2100 if thorough else 260
        for n in range(1, top + 1):
            add("tree " + hx(b"".join(self.leaves(rng, n))), "tree-every-n")
            if n <= 40:
                add("tree " + hx(b"".join(self.leaves(rng, n, "counter"))), "tree-every-n-counter")
                add("tree " + hx(b"".join(self.leaves(rng, n, "same"))), "tree-every-n-equal-leaves")
        for k in range(1, (15 if thorough else 13) + 1):
            for d in (-1, 0, 1, 2):
                n = 2**k + d
                if n >= 1:
                    add("tree " + hx(b"".join(self.leaves(rng, n))), "tree-pow2-boundary")
        # --- blocks from parts
        counts = set(range(0, 71))
        for k in range(1, (11 if thorough else 9) + 1):
            counts.update([2**k - 2, 2**k - 1, 2**k, 2**k + 1])
        for n in (0, 1, 2, 3, 5, 8):
            for mtx in other:
                hdr = self.header(rng)
                lv = self.leaves(rng, n)
                add("blockparts %s %s %s %s" % (hx(hdr), hx(mtx), hx(self.mh(mtx)), hx(b"".join(lv)) if lv else "-"), "block-other-miner-slot")
                full = hdr + mtx + varint(n) + b"".join(lv)
                self.full[hx(full)] = (hdr, mtx, lv)
                add("blockfull " + hx(full), "block-other-miner-slot-from-bytes")
        # the listed hashes are data, whatever they contain: the miner transaction's own id among them (first, middle, last, twice),
        # repeated hashes, the null hash - every one of them stays a leaf of the tree and is counted in the blob
        for mtx in miner_txs + other[:2]:
            mh_ = self.mh(mtx)
            for n in (1, 2, 3, 4, 5):
                base_lv = self.leaves(rng, n)
                for posn in sorted({0, n // 2, n - 1}):
                    for variant in ("insert", "replace"):
                        lv = list(base_lv)
                        if variant == "insert":
                            lv.insert(posn, mh_)
                        else:
                            lv[posn] = mh_
                        hdr = self.header(rng)
                        add("blockparts %s %s %s %s" % (hx(hdr), hx(mtx), hx(mh_), hx(b"".join(lv))), "block-miner-id-listed")
                        full = hdr + mtx + varint(len(lv)) + b"".join(lv)
                        self.full[hx(full)] = (hdr, mtx, lv)
                        add("blockfull " + hx(full), "block-miner-id-listed-from-bytes")
            for lv in ([mh_, mh_], [mh_] * 3, [b"\x00" * 32], [b"\x00" * 32, mh_], [base_lv[0]] * 4):
                hdr = self.header(rng)
                add("blockparts %s %s %s %s" % (hx(hdr), hx(mtx), hx(mh_), hx(b"".join(lv))), "block-repeated-hashes")
                full = hdr + mtx + varint(len(lv)) + b"".join(lv)
                self.full[hx(full)] = (hdr, mtx, lv)
                add("blockfull " + hx(full), "block-repeated-hashes-from-bytes")
        # the constants of the source used as DATA: a block whose previous-block id, or whose listed hashes, are the two ids of
        # the 202612 exception (or all zero / all ones) is an ordinary block - only a block whose OWN id is the first gets the second
        for mtx in miner_txs[:2] + other[:1]:
            mh_ = self.mh(mtx)
            for cst in (CORRECT_202612, EXISTING_202612, b"\x00" * 32, b"\xff" * 32):
                for lv in ([], self.leaves(rng, 2), [cst], [cst, cst]):
                    h0 = self.header(rng)
                    for hdr in (h0[:-36] + cst + h0[-4:], h0):
                        if hdr is h0 and cst not in lv:
                            continue
                        add("blockparts %s %s %s %s" % (hx(hdr), hx(mtx), hx(mh_), hx(b"".join(lv)) if lv else "-"), "source-constant-as-data")
                        full = hdr + mtx + varint(len(lv)) + b"".join(lv)
                        self.full[hx(full)] = (hdr, mtx, lv)
                        add("blockfull " + hx(full), "source-constant-as-data-from-bytes")
        for n in sorted(counts):
            for mtx in miner_txs:
                for _ in range(2 if n <= 16 else 1):
                    hdr = self.header(rng)
                    lv = self.leaves(rng, n)
                    add("blockparts %s %s %s %s" % (hx(hdr), hx(mtx), hx(tx_hash_ref(mtx)), hx(b"".join(lv))), "block-generated")
                    if n <= 70 or n in (126, 127, 128, 129, 255, 256):
                        # the same block as ONE byte string through the real parser: deserialize::<Block>, then
                        # tx_root / serialize_hashable / id of the parsed object (model: dec_block + TxId + TreeHash)
                        full = hdr + mtx + varint(n) + b"".join(lv)
                        self.full[hx(full)] = (hdr, mtx, lv)
                        add("blockfull " + hx(full), "block-from-bytes")
        return cs

    def mh(self, mtx):
        """hash of the transaction in the miner slot: python for coinbases, the Coq spec for generated ones"""
        return self.mhash[bytes(mtx)] if bytes(mtx) in getattr(self, "mhash", {}) else tx_hash_ref(mtx)

    @staticmethod
    def parse_leaves(arg):
        b = b"" if arg == "-" else bytes.fromhex(arg)
        return [b[i:i + 32] for i in range(0, len(b), 32)]

    def use_python(self, n):
        return n <= PY_LIMIT or any(abs(n - 2**k) <= 2 for k in range(1, 10)) or n == 514

    def oracle_queries(self, case, impl):
        w = case.line.split(" ")
        if w[0] == "tree":
            return ["tree_spec " + w[1]]
        if w[0] == "blockparts":
            return ["block_spec %s %s" % (w[1], w[3] + ("" if w[4] == "-" else w[4]))]
        return []

    def oracle(self, case, impl, ctx):
        w = case.line.split(" ")
        r = impl.split(" ")
        if r[0] in ("PANIC", "ABORT", "TIMEOUT"):
            return "implementation did not return: " + r[0]
        if w[0] == "tree":
            ls = self.parse_leaves(w[1])
            spec = ctx.model("tree_spec " + w[1])
            if impl != spec:
                return "tree_hash of %d leaves: implementation %s, recursive CryptoNote definition (Coq Spec) %s" % (
                    len(ls), impl[:100], spec[:100])
            if self.use_python(len(ls)):
                want = "OK " + tree_ref(ls).hex()
                if impl != want:
                    return "tree_hash of %d leaves: implementation %s, recursive CryptoNote definition (python) %s" % (
                        len(ls), impl[:100], want)
            return None
        if w[0] == "blockfull":
            hdr, mtx, txs = self.full[w[1]]
            leaves = [self.mh(mtx)] + txs
            want = "OK %s %s %s" % (tree_ref(leaves).hex(), blob_ref(hdr, leaves).hex(), id_ref(hdr, leaves).hex())
            if impl != want:
                return "block of %d tx hashes parsed from bytes: root/blob/id %s, python reference %s" % (len(txs), impl[:200], want[:200])
            return None
        if w[0] == "blockparts":
            hdr = bytes.fromhex(w[1])
            mtx = bytes.fromhex(w[2])
            txs = self.parse_leaves(w[4])
            mh = self.mh(mtx)
            spec = ctx.model("block_spec %s %s" % (w[1], w[3] + ("" if w[4] == "-" else w[4]))).split(" ")
            if r[0] != "OK" or len(r) != 5:
                return "block functions on a valid block with %d transactions returned %s" % (len(txs), impl[:100])
            if r[1] != mh.hex():
                return "miner transaction hash %s, expected %s (C05 territory, but the root depends on it)" % (r[1], mh.hex())
            if [r[2], r[3], r[4]] != spec[1:4]:
                return "block with %d tx hashes: implementation root/blob/id %s, Coq Spec %s" % (
                    len(txs), " ".join(r[2:5])[:300], " ".join(spec[1:4])[:300])
            if self.use_python(len(txs) + 1):
                leaves = [mh] + txs
                want = [tree_ref(leaves).hex(), blob_ref(hdr, leaves).hex(), id_ref(hdr, leaves).hex()]
                if [r[2], r[3], r[4]] != want:
                    return "block with %d tx hashes: implementation root/blob/id %s, python reference %s" % (
                        len(txs), " ".join(r[2:5])[:300], " ".join(want)[:300])
            return None
        return None

    def twin_args(self, words):
        # blockparts <header> <miner tx> <its id> <listed hashes>: the third argument is the id of the second, supplied by
        # the generator (the model is stated for any hash function and takes the id as given)
        return [1, 4] if words[0] == "blockparts" else None

    def neighbours(self, case, rng):
        w = case.line.split(" ")
        out = []
        if w[0] == "tree":
            n = len(self.parse_leaves(w[1]))
            for m in range(max(1, n - 2), n + 3):
                out.append(Case("tree " + hx(b"".join(self.leaves(rng, m)))))
            for m in (1, 2, 3, 4, 5, 6, 7, 8, 9):
                out.append(Case("tree " + hx(b"".join(self.leaves(rng, m, "counter")))))
        elif w[0] == "blockparts":
            n = len(self.parse_leaves(w[4]))
            for m in range(max(0, n - 2), n + 3):
                out.append(Case("blockparts %s %s %s %s" % (w[1], w[2], w[3], hx(b"".join(self.leaves(rng, m))))))
        return out

    def extra_coverage(self, cases, impl, model):
        ns = set()
        for c in cases:
            w = c.line.split(" ")
            if w[0] == "tree":
                ns.add(len(w[1]) // 64)
        m = 0
        while (m + 1) in ns:
            m += 1
        return {"tree_leaf_counts": {"distinct": len(ns), "max": max(ns) if ns else 0, "every_count_from_1_to": m}}


CHECK = C06()
