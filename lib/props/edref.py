# edref.py — independent pure-python references used by the C13 / C10 / C11 oracles:
#   * Ed25519 with textbook AFFINE twisted-Edwards formulas on python big ints,
#     RFC 8032 decompression with explicit canonicity checks (and dalek's lenient variant),
#   * Keccak-256 with the ORIGINAL pad10*1 padding (0x01 .. 0x80; hashlib.sha3_256 is NOT this function),
#   * CryptoNote hash-to-scalar and the varint encoder.
# Written from the definitions (RFC 8032 §5.1, FIPS 202 §3 with the pre-standard domain byte), not from the Coq model.

P = 2**255 - 19
L = 2**252 + 27742317777372353535851937790883648493
D = (-121665 * pow(121666, P - 2, P)) % P
SQRT_M1 = pow(2, (P - 1) // 4, P)


def inv(x):
    return pow(x, P - 2, P)


try:
    pow(3, -1, 7)

    def inv(x):  # noqa: F811  (python >= 3.8: modular inverse built in)
        return pow(x, -1, P)
except (ValueError, TypeError):
    pass


def on_curve(pt):
    x, y = pt
    return (y * y - x * x - 1 - D * x * x * y * y) % P == 0


def add(p1, p2):
    """affine addition law of -x^2 + y^2 = 1 + d x^2 y^2 (complete: denominators never vanish)"""
    x1, y1 = p1
    x2, y2 = p2
    t = D * x1 * x2 * y1 * y2 % P
    x3 = (x1 * y2 + x2 * y1) * inv(1 + t) % P
    y3 = (y1 * y2 + x1 * x2) * inv(1 - t) % P
    return (x3, y3)


def neg(p):
    return ((-p[0]) % P, p[1])


def sub(p1, p2):
    return add(p1, neg(p2))


O = (0, 1)


def mul(k, p):
    """k*p for any integer k >= 0 (NOT reduced modulo l: torsion components matter)"""
    assert k >= 0
    r = O
    q = p
    while k:
        if k & 1:
            r = add(r, q)
        q = add(q, q)
        k >>= 1
    return r


def compress(p):
    x, y = p
    return (y | ((x & 1) << 255)).to_bytes(32, "little")


def recover_x(y, sign):
    """x with x^2 = (y^2-1)/(d y^2+1) and parity `sign`, or None; x = 0 with sign 1 returns 'negzero'"""
    u = (y * y - 1) % P
    v = (D * y * y + 1) % P
    x2 = u * inv(v) % P
    x = pow(x2, (P + 3) // 8, P)
    if (x * x - x2) % P != 0:
        x = x * SQRT_M1 % P
    if (x * x - x2) % P != 0:
        return None
    if x == 0 and sign == 1:
        return "negzero"
    if (x & 1) != sign:
        x = P - x
    return x


def decompress_strict(b):
    """RFC 8032 §5.1.3: None unless b is THE canonical encoding of a curve point"""
    if len(b) != 32:
        return None
    n = int.from_bytes(b, "little")
    sign = n >> 255
    y = n & ((1 << 255) - 1)
    if y >= P:
        return None
    x = recover_x(y, sign)
    if x is None or x == "negzero":
        return None
    return (x, y)


def decompress_lenient(b):
    """what curve25519-dalek's CompressedEdwardsY::decompress does: y reduced mod p, sign applied by negation
    (so 'negative zero' decodes to x = 0)"""
    if len(b) != 32:
        return None
    n = int.from_bytes(b, "little")
    sign = n >> 255
    y = (n & ((1 << 255) - 1)) % P
    x = recover_x(y, 0)
    if x is None:
        return None
    if x == "negzero":
        x = 0
    if sign:
        x = (-x) % P
    return (x, y)


BY = 4 * inv(5) % P
B = (recover_x(BY, 0), BY)
assert on_curve(B)


def torsion_points():
    """the eight points of order dividing 8, found from first principles: take any curve point Q and return
    multiples of l*Q once that has order exactly 8"""
    y = 2
    while True:
        x = recover_x(y, 0)
        if x is not None and x != "negzero":
            t = mul(L, (x, y))
            if mul(4, t) != O:
                assert mul(8, t) == O
                return [mul(i, t) for i in range(8)]
        y += 1


# ---------------------------------------------------------------- Keccak-256 (original padding)
_RC = [0x0000000000000001, 0x0000000000008082, 0x800000000000808A, 0x8000000080008000, 0x000000000000808B,
       0x0000000080000001, 0x8000000080008081, 0x8000000000008009, 0x000000000000008A, 0x0000000000000088,
       0x0000000080008009, 0x000000008000000A, 0x000000008000808B, 0x800000000000008B, 0x8000000000008089,
       0x8000000000008003, 0x8000000000008002, 0x8000000000000080, 0x000000000000800A, 0x800000008000000A,
       0x8000000080008081, 0x8000000000008080, 0x0000000080000001, 0x8000000080008008]
_M = (1 << 64) - 1


def _rol(x, n):
    n %= 64
    return ((x << n) | (x >> (64 - n))) & _M if n else x


def _keccak_f(a):
    # a[x][y]
    for rnd in range(24):
        c = [a[x][0] ^ a[x][1] ^ a[x][2] ^ a[x][3] ^ a[x][4] for x in range(5)]
        d = [c[(x - 1) % 5] ^ _rol(c[(x + 1) % 5], 1) for x in range(5)]
        a = [[a[x][y] ^ d[x] for y in range(5)] for x in range(5)]
        # rho + pi: walk the (x,y) -> (y, 2x+3y) orbit with triangular-number offsets
        b = [[0] * 5 for _ in range(5)]
        b[0][0] = a[0][0]
        x, y = 1, 0
        for t in range(24):
            b[y][(2 * x + 3 * y) % 5] = _rol(a[x][y], (t + 1) * (t + 2) // 2)
            x, y = y, (2 * x + 3 * y) % 5
        a = [[b[x][y] ^ ((~b[(x + 1) % 5][y]) & b[(x + 2) % 5][y] & _M) for y in range(5)] for x in range(5)]
        a[0][0] ^= _RC[rnd]
    return a


def keccak256(m):
    rate = 136
    m = bytearray(m)
    m.append(0x01)
    while len(m) % rate:
        m.append(0x00)
    m[-1] |= 0x80
    a = [[0] * 5 for _ in range(5)]
    for off in range(0, len(m), rate):
        for i in range(rate // 8):
            a[i % 5][i // 5] ^= int.from_bytes(m[off + 8 * i: off + 8 * i + 8], "little")
        a = _keccak_f(a)
    return b"".join(a[i % 5][i // 5].to_bytes(8, "little") for i in range(4))


assert keccak256(b"").hex() == "c5d2460186f7233c927e7db2dcc703c0e500b653ca82273b7bfad8045d85a470"


def hash_to_scalar(m):
    return int.from_bytes(keccak256(m), "little") % L


def varint(n):
    out = bytearray()
    while True:
        g = n & 0x7F
        n >>= 7
        if n:
            out.append(g | 0x80)
        else:
            out.append(g)
            return bytes(out)


def sc(n):
    return (n % L).to_bytes(32, "little")


def hx(b):
    return bytes(b).hex() if len(b) else "-"


# ------------------------------------------------------------------ structured operands (shared by the curve checks)
def structured_scalars(rng, n_random=4):
    """scalars < l whose 64-bit limbs follow a pattern: a small low limb under non-zero high limbs, zero middle limbs,
    a single high bit - a shortcut that looks at one limb (or at the low bytes) of a scalar answers these wrongly"""
    out = set()
    for low in (0, 1, 2, 4, 8, 16, 255, 2 ** 32, 2 ** 63, 2 ** 64 - 1):
        for hi in (2 ** 64, 2 ** 128, 2 ** 192, 2 ** 251, 3 * 2 ** 64, (2 ** 60 + 1) * 2 ** 64):
            out.add((low + hi) % L)
        for _ in range(n_random):
            out.add((low + (rng.getrandbits(188) << 64)) % L)
    out |= {2 ** 64 - 1, 2 ** 64, 2 ** 128 - 1, 2 ** 128, 2 ** 192, 2 ** 252, L - 8, L - 2 ** 64, 8 + 2 ** 64}
    return sorted(out)


_EXTREME = []


def extreme_y_points():
    """canonical points of large order whose y is as close as possible to p (and to 0): compressed bytes"""
    if not _EXTREME:
        for ys in (range(P - 1, P - 60, -1), range(0, 40)):
            got = 0
            for y in ys:
                x = recover_x(y, 0)
                if x is None or x == "negzero":
                    continue
                pt = (x, y)
                if mul(8, pt) == O:
                    continue
                _EXTREME.append(compress(pt))
                got += 1
                if got >= 14:
                    break
    return list(_EXTREME)
