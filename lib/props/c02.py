# C02 — well-formed values survive serialise-then-parse; length accounting is exact.
# Op `rt T <description>`: serialise, parse back (partial + strict), strict parse with a trailing byte.
# Oracle on the implementation alone: reported length = bytes written; parse-back equal; consumed = all; trailing rejected.
from framework import Check, Case
import gen_codec as G


class C02(Check):
    pid = "C02"
    rule = ("op rt T desc for generated WELL-FORMED descriptions: transactions over versions {0,1,2,3}, Gen/ToKey mixes, ring sizes "
            "{1,2,3,11,16,127..129}, input/output counts {0..3,16,17}, all seven RingCT types with their ecdh / proof / ring-signature "
            "shapes, field values at the varint width boundaries 2^(7k)-1, 2^(7k), 2^64-1; blocks with 0..128 hashes; every component "
            "type; integers of every width at their boundaries; vectors of lengths {0,1,2,127,128}; non-trivial = distinct description")
    level_note = ("theorems about Model/Codec.v + Model/CodecLen.v for every size table; well-formedness includes the decoder's 32 MiB "
                  "allocation cap; String (UTF-8) and Address/PublicKey/SubField codecs are covered by C12/C13/C16, not here")
    evalA_sample = 60

    def gen(self, tier, rng):
        thorough = tier == "thorough"
        sz = self.impl_query(["sizes"])[0].split(" ")[1]
        cs = []

        def add(T, toks, cls):
            cs.append(Case("rt %s %s %s" % (sz, T, " ".join(toks)), cls))

        for sh in G.grid_shapes():
            add("tx", G.tx_desc(rng, **sh), "tx-grid-type%d-v%d" % (sh["rct_type"], sh["version"]))
        for sh in G.ring0_shapes():
            if G.shape_is_wf(sh):
                add("tx", G.tx_desc(rng, **sh), "tx-empty-ring")
        for sh in G.big_count_shapes():
            add("tx", G.tx_desc(rng, **sh), "tx-big-count")
        add("block", G.block_desc(rng, 16384 if thorough else 300), "block-many-hashes")
        for _ in range(1500 if not thorough else 20000):
            sh = G.random_shape(rng, small=True)
            add("tx", G.tx_desc(rng, **sh), "tx-random-type%d" % sh["rct_type"])
        for _ in range(60 if not thorough else 800):
            sh = G.random_shape(rng, small=False)
            add("tx", G.tx_desc(rng, **sh), "tx-large")
        for n in (0, 1, 2, 3, 127, 128, 129, 1000):
            add("block", G.block_desc(rng, n), "block")
        for _ in range(40 if not thorough else 400):
            add("block", G.block_desc(rng, rng.randint(0, 6), G.tx_desc(rng, **G.random_shape(rng))), "block")
        for _ in range(300 if not thorough else 3000):
            add("txin", G.txin(rng, rng.choice(["gen", "key"]), rng.choice([0, 1, 2, 16, 127, 128])), "txin")
            add("txout", G.txout(rng, rng.random() < 0.5), "txout")
            add("target", G.txout(rng, rng.random() < 0.5)[1:], "target")
            add("header", G.header_desc(rng), "header")
            add("signature", G.signature(rng), "signature")
            add("bulletproof", G.bulletproof(rng, rng.choice([0, 1, 6, 127, 128]), rng.choice([0, 1, 6])), "bulletproof")
            add("bpplus", G.bpplus(rng, rng.choice([0, 1, 6]), rng.choice([0, 1, 6, 127, 128])), "bpplus")
            add("vec_varint", G.lst([[str(G.interesting_u64(rng))] for _ in range(rng.choice([0, 1, 2, 127, 128]))]), "vec")
            add("vec_hash", G.lst([[G.key(rng)] for _ in range(rng.choice([0, 1, 2, 127, 128]))]), "vec")
            add("vec_txin", G.lst([G.txin(rng, rng.choice(["gen", "key"]), rng.choice([0, 1, 2])) for _ in range(rng.choice([0, 1, 2, 127, 128]))]), "vec")
            add("vec_txout", G.lst([G.txout(rng, rng.random() < 0.5) for _ in range(rng.choice([0, 1, 2, 127, 128]))]), "vec")
            add("bytesvec", [G.hexb(rng, rng.choice([0, 1, 127, 128, 255, 256, 16383, 16384]))], "bytesvec")
            add("hash", [G.key(rng)], "hash")
            add("box_hash", G.lst([[G.key(rng)] for _ in range(rng.choice([0, 1, 2, 127, 128]))]), "boxed-slice")
            add("box_varint", G.lst([[str(G.interesting_u64(rng))] for _ in range(rng.choice([0, 1, 2, 127, 128]))]), "boxed-slice")
            add("box_u8", [G.hexb(rng, rng.choice([0, 1, 127, 128, 255, 256, 16383, 16384]))], "boxed-slice")
            add("hash8", [G.hexb(rng, 8)], "hash")
        # strings: valid UTF-8 through the round trip, arbitrary bytes through the decoder (accept iff well-formed UTF-8)
        texts = ["", "a", "monero", "\u00e9", "\u00b5XMR", "\u20ac", "\ud7ff", "\ue000", "\uffff", "\U00010000", "\U0010ffff", "x" * 127, "y" * 128,
                 "\u00e9" * 64, "\x00", "\x7f"]
        for t in texts:
            add("string", [t.encode("utf-8").hex() or "-"], "string-valid")
        bad = [b"\x80", b"\xc0\x80", b"\xc1\xbf", b"\xc2", b"\xe0\x80\x80", b"\xe0\x9f\xbf", b"\xed\xa0\x80", b"\xed\xbf\xbf",
               b"\xf0\x80\x80\x80", b"\xf0\x8f\xbf\xbf", b"\xf4\x90\x80\x80", b"\xf5\x80\x80\x80", b"\xff", b"\xe2\x82", b"a\xe2\x82",
               b"\xf0\x9f\x98", b"\xc2\x41", b"\xef\xbf\xbe", b"\xf4\x8f\xbf\xbf", b"\xee\x80\x80"]
        for b in bad:
            cs.append(Case("dec %s string %s" % (sz, (bytes([len(b)]) + b).hex()), "string-arbitrary"))
        for _ in range(300 if not thorough else 5000):
            n = rng.choice([1, 2, 3, 4, 5, 6])
            b = bytes(rng.choice([0x41, 0x7f, 0x80, 0xbf, 0xc0, 0xc2, 0xdf, 0xe0, 0xed, 0xef, 0xf0, 0xf4, 0xf5, 0x9f, 0xa0, 0x8f, 0x90,
                                  rng.getrandbits(8)]) for _ in range(n))
            cs.append(Case("dec %s string %s" % (sz, (bytes([len(b)]) + b).hex()), "string-arbitrary"))
        add("klrki", [G.key(rng) for _ in range(4)], "multisig")
        for n in (0, 1, 2, 127, 128):
            add("multisigout", G.lst([[G.key(rng)] for _ in range(n)]), "multisig")
        # encoders pass the writer's error on and leave nothing behind: encode into writers of every size around the exact length,
        # each failed call followed by a round trip of an unrelated value on the same thread
        for v in (0, 127, 128, 300, 2 ** 14, 2 ** 63, 2 ** 64 - 1):
            for n in (0, 1, 2, 9, 10, 11):
                cs.append(Case("encshort %s varint %d %d" % (sz, n, v), "short-writer"))
                add("varint", [str(rng.choice([1, 127, 128, 2 ** 32, 2 ** 64 - 1]))], "after-short-writer")
        for _ in range(40):
            t = G.tx_desc(rng, **G.random_shape(rng, small=True))
            cs.append(Case("encshort %s tx %d %s" % (sz, rng.choice([0, 1, 5, 40, 100, 10 ** 6]), " ".join(t)), "short-writer"))
            add("tx", G.tx_desc(rng, **G.random_shape(rng, small=True)), "after-short-writer")
        # more than 2^16 elements in one vector (a pre-allocation capped at 65536 that also caps the read loop would lose the tail)
        for n in (65535, 65536, 65537, 70000):
            add("bytesvec", [G.hexb(rng, n)], "vec-over-2^16")
            add("box_u8", [G.hexb(rng, n)], "vec-over-2^16")
            add("string", [("61" * n)], "vec-over-2^16")
        # long strings with multi-byte characters lying ACROSS the block boundaries a chunked reader or validator would use
        # (4 KiB .. 128 KiB): every alignment of a 2-, 3- and 4-byte character around the boundary
        for bnd in (4096, 8192, 16384, 32768, 65536, 131072):
            for ch in ("\u00e9", "\u20ac", "\U0001f600"):
                k = len(ch.encode("utf-8"))
                for off in range(1, k):
                    t = "a" * (bnd - off) + ch + "b" * 3
                    add("string", [t.encode("utf-8").hex()], "string-char-across-block-boundary")
            add("string", [("\u20ac" * (bnd // 3 + 2)).encode("utf-8").hex()], "string-char-across-block-boundary")
        add("vec_varint", G.lst([[str(i % 200)] for i in range(65537)]), "vec-over-2^16")
        add("tx", G.tx_desc(rng, 2, ["gen"], 1, [False], 0, extra_len=65537), "vec-over-2^16")
        if thorough:
            add("vec_hash", G.lst([[G.key(rng)] for _ in range(65537)]), "vec-over-2^16")
            add("tx", G.tx_desc(rng, 1, ["key"], 65537, [False], 0, extra_len=1), "vec-over-2^16")
        add("rangesig", G.rangesig(rng), "rangesig")
        add("key64", [G.hexb(rng, 2048)], "key64")
        for t in range(7):
            add("rcttype", [str(t)], "rcttype")
        for b in (0, 1):
            add("bool", [str(b)], "bool")
        for T, bits in (("u8", 8), ("i8", 8), ("u16", 16), ("i16", 16), ("u32", 32), ("i32", 32), ("u64", 64), ("i64", 64), ("varint", 64)):
            vals = {0, 1, 2 ** bits - 1, 2 ** (bits - 1), 2 ** (bits - 1) - 1}
            for k in range(1, 10):
                for v in (2 ** (7 * k) - 1, 2 ** (7 * k), 2 ** (7 * k) + 1):
                    if v < 2 ** bits:
                        vals.add(v)
            for _ in range(100):
                vals.add(rng.getrandbits(bits))
            for v in sorted(vals):
                add(T, [str(v)], "int-" + T)
        # the sub-fields of the transaction extra are consensus-encoded values too (their grammar is C16's subject; here only
        # serialise-then-parse at the length boundaries of every variant)
        KB, KI = "58" + "66" * 31, "01" + "00" * 31
        for n in (0, 1, 2, 32, 126, 127, 128, 129, 254, 255):
            cs.append(Case("subfield_rt nonce %s" % (G.hexb(rng, n) if n else "-"), "subfield"))
            cs.append(Case("subfield_rt mg %s" % (G.hexb(rng, n) if n else "-"), "subfield"))
            cs.append(Case("subfield_rt pad %d" % n, "subfield"))
        for d in (0, 1, 127, 128, 16383, 16384, 2 ** 32, 2 ** 63, 2 ** 64 - 1):
            cs.append(Case("subfield_rt mm %d %s" % (d, G.key(rng)), "subfield"))
        for n in (0, 1, 2, 3, 127, 128, 129):
            cs.append(Case(("subfield_rt add %d %s" % (n, " ".join([KB, KI][i % 2] for i in range(n)))).strip(), "subfield"))
        cs.append(Case("subfield_rt pk " + KB, "subfield"))
        # the TYPED extra (ExtraField, a sequence of sub-fields) is a component record with an encoder of its own: serialised with
        # the encoder's contract checked (reported length, every writer incl. the one that is a byte too short, `serialize`
        # afterwards), converted to raw and parsed back (op extra_rt of the C16 check)
        from props import c16 as X
        xkeys = X.Keys(rng)
        for _ in range(120 if tier == "quick" else 1200):
            fs = [X.field(rng, xkeys, rng.choice(X.KINDS[:5])) for _ in range(rng.choice([0, 1, 1, 2, 3, 5]))]
            if rng.random() < 0.3:
                fs.append(("pad", rng.choice([0, 1, 7, 255])))
            cs.append(Case(("extra_rt " + " ".join(X.toks_list(fs))).strip(), "typed-extra"))
        seen, out = set(), []
        for c in cs:
            if c.line not in seen:
                seen.add(c.line)
                out.append(c)
        return out

    def oracle(self, case, impl, ctx):
        w = impl.split(" ")
        if case.line.startswith("encshort "):
            return None if w[0] in ("OK", "ERR") else "encoding into a short writer did not return: " + impl[:60]
        if case.line.startswith("dec "):
            # String::from_utf8 must accept exactly well-formed UTF-8 (python's strict decoder is the independent reference)
            raw = bytes.fromhex(case.line.split(" ")[3])[1:]
            try:
                raw.decode("utf-8")
                ok = True
            except UnicodeDecodeError:
                ok = False
            if (w[0] == "OK") != ok:
                return "String decode %s for bytes %s (well-formed UTF-8: %s)" % (w[0], raw.hex(), ok)
            return None
        if w[0] != "OK":
            return "serialise/parse of a well-formed value did not return: " + impl[:80]
        hx = "" if w[1] == "-" else w[1]
        n = len(hx) // 2
        if case.line.startswith("extra_rt "):
            return None        # OK <raw> <parse dump>: compared with the model; anything but OK was flagged above
        if case.line.startswith("subfield_rt "):
            if int(w[2]) != n or w[3] != "1" or int(w[4]) != n or w[5] != "1":
                return "sub-field: parse(serialise(x)) != x or consumed %s of %d bytes (%s)" % (w[4] if len(w) > 4 else "?", n, impl[:80])
            return None
        if int(w[2]) != n:
            return "encoder reported %s bytes but wrote %d" % (w[2], n)
        if w[3] != "1" or int(w[4]) != n:
            return "parse(serialise(x)) != x or consumed %s of %d bytes" % (w[4] if len(w) > 4 else "?", n)
        if w[5] != "1":
            return "strict parse of the serialisation failed or returned a different value"
        if w[6] != "ERR":
            return "strict parse accepted the serialisation followed by a trailing byte"
        return None


CHECK = C02()
