# C07 — output scanning reports exactly the outputs addressed to the wallet.
# Scenarios are described in python, the transaction BYTES are produced by the model's sender (`build_scan`, Spec/Sender.v),
# and the verdict comes from python alone: (1) the sender-side ground truth (which outputs were addressed to an in-range
# address of the wallet with a usable key and tag) and (2) an independent python wallet-side scanner; both must equal what
# the implementation reports through all entry points (Transaction, prefix, pre-built checker).
from framework import Case
import framework as fw
from props import edref as ed
from props import scan_common as sc
from props.scan_common import ScanCheck, L

BOUNDARY_POS = [0, 1, 127, 128, 129, 255, 256, 257]
BOUNDARY_POS_THOROUGH = [16383, 16384, 16385]
ENTRIES = ["tx", "prefix", "checker", "pchecker"]


def pick_ranges(rng):
    if rng.random() < 0.12:
        # windows across the byte boundaries of the 4-byte little-endian index (and the top of the u32 range)
        def win():
            m = rng.choice([2**8, 2**8, 2**16, 2**24, 2**32 - 1])
            lo = m - rng.choice([1, 2])
            return lo, min(2**32 - 1, m + rng.choice([1, 2, 3])) if m < 2**32 - 1 else 2**32 - 1
        c, d = win()
        a, b = rng.choice([(0, 1), (0, 1), (1, 2), win()])
        return (a, b, c, d)
    a = rng.choice([0, 0, 1])
    b = a + rng.choice([1, 2, 3])
    c = rng.choice([0, 0, 1, 2])
    d = c + rng.choice([1, 2, 4])
    return (a, b, c, d)


def in_range_index(rng, r, want_sub=None):
    a, b, c, d = r
    for _ in range(50):
        i = (rng.randrange(a, b), rng.randrange(c, d))
        if want_sub is None or (i != (0, 0)) == want_sub:
            return i
    return None


def out_of_range_index(rng, r):
    a, b, c, d = r
    M = 2**32 - 1
    return rng.choice([(min(M, b + rng.randrange(3)), c), (a, min(M, d + rng.randrange(3))), (M, M), (min(M, b), min(M, d)),
                       (a + 0, min(M, d)), (min(M, b), c)])


class C07(ScanCheck):
    pid = "C07"
    rule = ("scenarios (wallet, ranges, n outputs with n in {1,2,3,130,260} quick / up to 20000 thorough; each output one of "
            "{primary address, subaddress in range, subaddress out of range, foreign wallet, 32 garbage bytes, non-canonical point}, "
            "derived from the main tx key (r*G or r*S_sub) or the per-output additional key, untagged / correctly tagged / wrongly "
            "tagged, owned tagged outputs at positions 0,1,127,128,129,255,256,257 (thorough: 16383,16384,16385), v1/v2, every RingCT "
            "type, decoy second TxPublicKey, tx key after other sub-fields, no tx key, short / absent additional-key list) -> the "
            "MODEL's sender (Spec/Sender.v via build_scan) produces the bytes, ground truth cross-checked against an independent python "
            "sender; each scenario is scanned through tx / prefix / checker (/ pchecker) entry points with 1-2 range choices; "
            "the one-time keys of the small scenarios are also given to SubKeyChecker::check directly (subkey_check: main key and "
            "additional key, true and shifted position, owned primary / subaddress / out of range / foreign / wrongly tagged / "
            "invalid key); oracle = python ground truth + independent python scanner; non-trivial = distinct case line")
    level_note = ("theorems are about the Gallina model (Model/Scan.v, Model/Ecdh.v) and hold for EVERY group satisfying the EdLaws "
                  "record and every hash (_partial); that curve25519-dalek's / the executable model's arithmetic is such a group is NOT "
                  "proved - model = implementation = independent python reference is checked on every case. Completeness is relative to "
                  "Spec/Sender.v; 'exactly' is stated with the explicit no-other-match hypothesis (no collision resistance assumed). "
                  "Evaluator A (coqc vm_compute) re-evaluates one scan case per run (>= 25 s per curve operation), no uniform sample")

    def scenario(self, rng, n, big=False, thorough=False):
        v, s = sc.rscalar(rng), sc.rscalar(rng)
        fv, fs = sc.rscalar(rng), sc.rscalar(rng)
        r = pick_ranges(rng)
        version = rng.choice([1, 2, 2, 2, 2])
        rct_type = rng.randrange(7)
        if n > 3 and rct_type in (1, 2):
            rct_type = rng.choice([3, 4, 5, 6])
        in_kind = rng.choice(["key", "key", "key", "gen", "none"])
        # main key base: r*G, or r*S_sub for one in-range subaddress (single-subaddress-destination transactions)
        mb = None
        if rng.random() < 0.3:
            mb = in_range_index(rng, r, want_sub=True)
        nadd_mode = rng.choice(["full", "full", "none", "short", "long"])
        if n >= 2000:
            nadd_mode = "full"          # the few very large scenarios must exercise the large positions
        outs = []
        feats = set()
        positions = set(BOUNDARY_POS + (BOUNDARY_POS_THOROUGH if thorough else []))

        def own(i, forced=False):
            kind = rng.choice(["primary", "sub", "sub"]) if not forced else rng.choice(["primary", "sub"])
            idx = (0, 0) if kind == "primary" else in_range_index(rng, r, want_sub=True)
            if idx is None or not (r[0] <= idx[0] < r[1] and r[2] <= idx[1] < r[3]):
                idx = in_range_index(rng, r)
            base = None if idx == (0, 0) else idx
            mbn = None if mb in (None, (0, 0)) else mb
            usemain = (base == mbn) and rng.random() < 0.75
            if forced:
                tag = "y"
            else:
                tag = rng.choice(["n", "y", "y", "x"])
            feats.add("own-main" if usemain else "own-add")
            feats.add("tag-" + tag)
            return sc.mk_out_wallet(rng, v, s, idx[0], idx[1], usemain, tag, clear=rng.choice([0, 0, 5, 2**40]))

        for i in range(n):
            if big and i in positions:
                outs.append(own(i, forced=True))
                continue
            c = rng.random()
            if big:
                c = 0.55 + 0.45 * c if rng.random() < 0.8 else c      # mostly cheap filler
            if c < 0.40:
                outs.append(own(i))
            elif c < 0.45:
                idx = out_of_range_index(rng, r)
                feats.add("out-of-range")
                outs.append(sc.mk_out_wallet(rng, v, s, idx[0], idx[1], rng.random() < 0.5, rng.choice(["n", "y"])))
            elif c < 0.55:
                # own address but derived with a main key of the wrong base (or usemain with mismatching base)
                idx = in_range_index(rng, r)
                feats.add("own-any-base")
                outs.append(sc.mk_out_wallet(rng, v, s, idx[0], idx[1], True, rng.choice(["n", "y"])))
            elif c < 0.70:
                feats.add("foreign")
                idx = rng.choice([(0, 0), (0, 1), in_range_index(rng, r)])
                outs.append(sc.mk_out_wallet(rng, fv, fs, idx[0], idx[1], rng.random() < 0.5, rng.choice(["n", "y"])))
            elif c < 0.92:
                feats.add("garbage")
                outs.append(sc.mk_out_raw(rng, sc.garbage_key(rng), rng.choice([None, rng.randrange(256)])))
            else:
                feats.add("non-canonical")
                outs.append(sc.mk_out_raw(rng, sc.noncanonical_key(rng), rng.choice([None, rng.randrange(256)])))
        nadd = {"full": n, "none": None, "short": rng.randrange(0, n + 1), "long": n}[nadd_mode]
        if big and nadd_mode == "short":
            nadd = rng.choice([1, 128, 129, n - 1])
        xstyle = rng.choice([0, 0, 0, 1, 1, 2]) if not big else rng.choice([0, 1])
        s_ = sc.mk_scenario(rng, v, s, outs, version=version, rct_type=rct_type, in_kind=in_kind, mb=mb, xstyle=xstyle,
                            decoy=rng.random() < 0.4, nonce=bytes(rng.getrandbits(8) for _ in range(rng.choice([0, 0, 9, 33]))),
                            nadd=nadd)
        feats |= {"v%d" % version, "rct%d" % rct_type if s_["enc"] else "clear", "add-" + nadd_mode, "xstyle%d" % xstyle}
        if s_["decoy"]:
            feats.add("decoy")
        if mb:
            feats.add("main-from-subaddress")
        ranges = [r]
        if rng.random() < 0.35:
            ranges.append(rng.choice([(0, 1, 0, 1), (0, 0, 0, 4), (r[0], r[1], r[2], r[2]), pick_ranges(rng)]))
        return s_, [(x, None) for x in ranges], feats

    def boundary_scenarios(self, rng, k):
        """look-ahead windows that cross a byte boundary of the 4-byte little-endian index (255|256, 65535|65536, 2^24), in the
        minor or in the major component, with one owned output for EVERY index of the window"""
        out = []
        for g in range(k):
            v, s = sc.rscalar(rng), sc.rscalar(rng)
            m = [2**8, 2**8, 2**16, 2**24][g % 4]
            lo, hi = m - 2, m + 3
            on_major = g % 5 == 4
            r = (lo, hi, 0, 2) if on_major else (rng.choice([0, 1]), 2, lo, hi)
            idxs = [(i, j) for i in range(r[0], r[1]) for j in range(r[2], r[3])]
            rng.shuffle(idxs)
            outs = [sc.mk_out_wallet(rng, v, s, i, j, False, rng.choice(["n", "y"]), clear=rng.choice([0, 3])) for (i, j) in idxs[:6]]
            s_ = sc.mk_scenario(rng, v, s, outs, version=2, rct_type=rng.choice([0, 5, 6]), in_kind="key", nadd=len(outs))
            out.append((s_, [(r, None)], {"range-crosses-byte-boundary", "own-add"}))
        return out

    def gen_cases(self, tier, rng):
        q = tier == "quick"
        plan = [(1, 60), (2, 70), (3, 90)] if q else [(1, 300), (2, 300), (3, 400), (7, 200)]
        big = [(130, 8), (260, 6)] if q else [(130, 40), (260, 40), (2000, 3), (20000, 1)]
        scen = []
        # evaluator-A scenario: no tx public key, one garbage output, table = {(0,0)}: one key validation under vm_compute
        ea = sc.mk_scenario(rng, sc.rscalar(rng), sc.rscalar(rng), [sc.mk_out_raw(rng, sc.garbage_key(rng))], version=1,
                            rct_type=0, in_kind="key", xstyle=2)
        scen.append((ea, [((0, 1, 0, 1), None)], {"evalA"}))
        for n, k in plan:
            for _ in range(k):
                scen.append(self.scenario(rng, n))
        for n, k in big:
            for _ in range(k):
                scen.append(self.scenario(rng, n, big=True, thorough=(n >= 20000)))
        # view-tag coincidence: a tagged output owned through its ADDITIONAL key whose tag also equals the tag the MAIN key's
        # derivation gives at that position (1/256 by chance; ground here).  The main key does not open the output, so the
        # scanner must still fall back to the additional key.
        for g in range(3 if q else 12):
            v, s = sc.rscalar(rng), sc.rscalar(rng)
            idx = rng.choice([(0, 1), (1, 0), (1, 2)])
            pos = rng.choice([0, 1, 2])
            outs = [sc.mk_out_raw(rng, sc.garbage_key(rng)) for _ in range(pos)]
            own = sc.mk_out_wallet(rng, v, s, idx[0], idx[1], False, "y", clear=0)
            outs.append(own)
            probe = sc.mk_scenario(rng, v, s, outs, version=2, rct_type=5, in_kind="key", nadd=len(outs))
            want = sc.send_output(probe, pos, own)["tag"]
            r = None
            for _ in range(5000):
                cand = sc.rscalar(rng)
                dmain = sc.cp(sc.gmul(8 * v * cand % L))                      # 8*v*(cand*G)
                if sc.keccak(b"view_tag" + dmain + sc.vi(pos))[0] == want:
                    r = cand
                    break
            if r is None:
                continue
            s_ = sc.mk_scenario(rng, v, s, outs, version=2, rct_type=rng.choice([4, 5, 6]), in_kind="key", nadd=len(outs), r=r)
            scen.append((s_, [((0, 2, 0, 3), None)], {"tag-coincidence", "own-add", "tag-y"}))
        scen += self.boundary_scenarios(rng, 8 if q else 40)
        # large look-ahead tables (>= 1024 rows over 5..11 accounts, the shape a wallet uses): owned outputs in the FIRST and in the
        # LAST accounts / rows of the ranges, where a table built in slices would lose a remainder
        for g in range(2 if q else 8):
            v, s = sc.rscalar(rng), sc.rscalar(rng)
            nmaj, nmin = rng.choice([(5, 210), (7, 150), (10, 128), (11, 100)])
            r = (0, nmaj, 0, nmin)
            idxs = [(0, 0), (nmaj - 1, nmin - 1), (nmaj - 1, 0), (nmaj - 2, 5), (nmaj // 2, nmin // 2), (1, nmin - 1)]
            outs = [sc.mk_out_wallet(rng, v, s, i, j, (i, j) == (0, 0), rng.choice(["n", "y"]), clear=rng.choice([0, 3])) for (i, j) in idxs]
            s_ = sc.mk_scenario(rng, v, s, outs, version=2, rct_type=rng.choice([0, 5, 6]), in_kind="key", nadd=len(outs))
            scen.append((s_, [(r, None)], {"large-table", "own-add"}))
        # degenerate sender secrets: r = 0 publishes the neutral element as transaction key (and r_i = 0 as additional key); the
        # shared secret is then the neutral element too, the one-time key is Hs(O || i) G + S - a genuinely addressed output
        for g in range(6 if q else 30):
            v, s = sc.rscalar(rng), sc.rscalar(rng)
            n = rng.choice([1, 2, 3])
            outs = []
            for i in range(n):
                idx = rng.choice([(0, 0), (0, 1), (1, 2)])
                usemain = idx == (0, 0) and g % 2 == 0
                o = sc.mk_out_wallet(rng, v, s, idx[0], idx[1], usemain, rng.choice(["n", "y"]), clear=rng.choice([0, 9]))
                if not usemain and rng.random() < 0.7:
                    o["ri"] = 0
                outs.append(o)
            s_ = sc.mk_scenario(rng, v, s, outs, version=2, rct_type=rng.choice([0, 1, 5, 6]), in_kind="key", nadd=n,
                                r=0 if g % 2 == 0 else None)
            scen.append((s_, [((0, 2, 0, 3), None)], {"degenerate-tx-key"}))
        # repeated one-time keys: the key of an owned output also sits, byte for byte, on other outputs of the transaction (before
        # it, after it, twice).  At the other positions it matches nothing; at its own position it is still the wallet's
        for g in range(8 if q else 40):
            v, s = sc.rscalar(rng), sc.rscalar(rng)
            idx = rng.choice([(0, 0), (0, 1), (1, 2)])
            n = rng.choice([2, 3, 4])
            pos = rng.randrange(n)
            usemain = idx == (0, 0) and rng.random() < 0.5
            own = sc.mk_out_wallet(rng, v, s, idx[0], idx[1], usemain, rng.choice(["n", "y"]), clear=rng.choice([0, 7]))
            r_ = sc.rscalar(rng)
            probe_outs = [sc.mk_out_raw(rng, sc.garbage_key(rng)) for _ in range(n)]
            probe_outs[pos] = own
            kw = dict(version=2, rct_type=rng.choice([0, 4, 5, 6]), in_kind="key", nadd=n, r=r_)
            probe = sc.mk_scenario(rng, v, s, probe_outs, **kw)
            Pk = sc.send_output(probe, pos, own)["P"]
            outs = []
            for i in range(n):
                if i == pos:
                    outs.append(own)
                else:
                    t_ = rng.choice([None, None, rng.randrange(256)])
                    outs.append(sc.mk_out_raw(rng, Pk if rng.random() < 0.8 else sc.garbage_key(rng), t_))
            s_ = sc.mk_scenario(rng, v, s, outs, **kw)
            scen.append((s_, [((0, 2, 0, 3), None)], {"repeated-key", "own-main" if usemain else "own-add"}))
        real = self.realise(rng, [(s, rk) for s, rk, _ in scen])
        self.expected, self.truth, self.stats = {}, {}, {"outputs": 0, "owned_reported": 0, "features": {}}
        cases = []
        # evaluator-A line: a transaction without a tx public key (no curve arithmetic beyond one key validation)
        for (s_, snt, txhex, rows), (_, _, feats) in zip(real, scen):
            n = len(s_["outs"])
            self.stats["outputs"] += n
            for f in feats:
                self.stats["features"][f] = self.stats["features"].get(f, 0) + 1
            S = sc.cp(sc.gmul(s_["s"])).hex()
            for (r, keep, line, owned, gt) in rows:
                self.stats["owned_reported"] += len(owned)
                ents = ENTRIES[:3] + (["pchecker"] if rng.random() < 0.25 else [])
                if n >= 2000:
                    ents = ["tx", "checker"]
                if n <= 3 and rng.random() < 0.4:
                    # ANOTHER wallet scans the same transaction right before the owner does (same transaction key, other view
                    # key; or the same view key with another spend key): what the first scan computed must not leak into the second
                    v2 = s_["v"] if rng.random() < 0.3 else sc.rscalar(rng)
                    S2 = sc.cp(sc.gmul(sc.rscalar(rng))).hex()
                    cases.append(Case("scan tx %s %s %d %d %d %d %s" % (sc.sc(v2).hex(), S2, r[0], r[1], r[2], r[3], txhex),
                                      "n=%d other-wallet-first" % n))
                for e in ents:
                    l = "scan %s %s %s %d %d %d %d %s" % (e, sc.sc(s_["v"]).hex(), S, r[0], r[1], r[2], r[3], txhex)
                    cls = "n=%d %s" % (n, "owned" if owned else ("err" if line.startswith("ERR") else "none"))
                    cases.append(Case(l, cls))
                    self.expected[self.key(l)] = line
                    self.truth[self.key(l)] = gt
        self._evalA_pick(cases)
        return cases + self.subkey_cases(rng, real, 1200 if q else 8000)

    def subkey_cases(self, rng, real, budget):
        """SubKeyChecker::check called directly on the published one-time keys of the small scenarios, with the main key and
        with the additional key of the position (and sometimes with a wrong position).  Expected result from python alone:
        P - Hs(8*v*K || pos)*G looked up in the wallet's table (view tags play no role here); in addition the sender-side truth:
        an output addressed to an in-range address of the wallet must be found under the key it was derived with."""
        self.sub_expected = {}
        cases = []
        small = [x for x in real if len(x[0]["outs"]) <= 3]
        rng.shuffle(small)
        for (s_, snt, txhex, rows) in small:
            pub = sc.published(s_, snt)
            v, Spt = s_["v"], sc.gmul(s_["s"])
            S = sc.cp(Spt).hex()
            for (r, keep, line, owned, gt) in rows:
                table = sc.wallet_table(v, Spt, r)
                for i, (Pb, tag) in enumerate(pub["targets"]):
                    keys = [k for k in [pub["main"]] + pub["adds"][i:i + 1] if k is not None]
                    if not keys:
                        keys = [snt["main"]]            # scenario without a published tx key: the sender's key all the same
                    for K in keys:
                        for pos in [i] + ([i + 1] if rng.random() < 0.15 else []):
                            if len(cases) >= budget:
                                return cases
                            l = "subkey_check %s %s %d %d %d %d %d %s %s" % (sc.sc(v).hex(), S, r[0], r[1], r[2], r[3], pos,
                                                                            Pb.hex(), K.hex())
                            if l in self.sub_expected:
                                continue
                            Ppt = ed.decompress_strict(Pb)
                            if Ppt is None:
                                if rng.random() < 0.7:
                                    continue            # keys refused by from_slice: a sample is enough
                                want = "ERR key"
                            else:
                                Dv = sc.cp(sc.fmul(8, sc.fmul(v, ed.decompress_strict(K))))
                                idx = table.get(sc.cp(sc.psub(Ppt, sc.gmul(sc.hs(Dv + sc.vi(pos))))))
                                want = "NONE" if idx is None else "OK %d %d" % idx
                            o = s_["outs"][i]
                            truth = None
                            if (pos == i and o["kind"] == "w" and (o["fv"], o["fs"]) == (s_["v"], s_["s"]) and
                                    r[0] <= o["maj"] < r[1] and r[2] <= o["min"] < r[3] and K == snt["outs"][i]["K"]):
                                truth = "OK %d %d" % (o["maj"], o["min"])
                            self.sub_expected[l] = (want, truth)
                            kind = "err" if want == "ERR key" else "none" if want == "NONE" else \
                                ("owned-sub" if idx != (0, 0) else "owned-primary")
                            if truth is not None and o["tag"] == "x":
                                kind += "-wrong-view-tag"
                            cases.append(Case(l, "subkey_check " + kind + ("" if pos == i else " wrong-position")))
        # TxOutTarget::check_view_tag called directly, at ANY position up to u64::MAX (the scanner only passes positions of
        # real outputs): tag == Keccak("view_tag" || rv || varint(position))[0]; untagged targets always pass
        self.vt_expected = {}
        for _ in range(6):
            rv = ed.compress(ed.mul(sc.rscalar(rng), ed.B))
            key = ed.compress(ed.mul(sc.rscalar(rng), ed.B))
            for pos in (0, 1, 127, 128, 16383, 16384, 2**21 - 1, 2**32 - 1, 2**32, 2**49, 2**56 - 1, 2**56, 2**63 - 1, 2**63, 2**64 - 1,
                        rng.getrandbits(64)):
                good = ed.keccak256(b"view_tag" + rv + ed.varint(pos))[0]
                for tgt, want in ((b"\x03" + key + bytes([good]), 1), (b"\x03" + key + bytes([(good + 1) & 0xff]), 0),
                                  (b"\x03" + key + bytes([good ^ 0x80]), 0), (b"\x02" + key, 1)):
                    l = "viewtag %s %s %d" % (tgt.hex(), rv.hex(), pos)
                    self.vt_expected[l] = "OK %d" % want
                    cases.append(Case(l, "viewtag:" + ("untagged" if tgt[0] == 2 else "match" if want else "mismatch")))
        cases.append(Case("viewtag %s %s 5" % ((b"\x03" + key).hex(), rv.hex()), "viewtag:truncated-target"))
        cases.append(Case("viewtag %s %s 5" % ((b"\x03" + key + b"\x07").hex(), (b"\xff" * 32).hex()), "viewtag:invalid-derivation-key"))
        return cases

    @staticmethod
    def key(line):
        return line.split(" ", 2)[2]

    def _evalA_pick(self, cases):
        # the first case (evaluator-A scenario, entry `tx`): evaluable by coqc in about a minute
        self.evalA_lines = (cases[0].line,)

    def oracle(self, case, impl, ctx):
        r = impl.split(" ")
        if r[0] in ("PANIC", "ABORT", "TIMEOUT"):
            return "implementation did not return: " + r[0]
        if case.line.startswith("viewtag "):
            want = getattr(self, "vt_expected", {}).get(case.line)
            if want is not None and impl != want:
                return "check_view_tag returned %s, the view-tag definition gives %s" % (impl[:40], want)
            return None
        if case.line.startswith("subkey_check "):
            want, truth = getattr(self, "sub_expected", {}).get(case.line, (None, None))
            if truth is not None and impl != truth:
                return "SubKeyChecker::check returned %s, but the sender addressed this output to index %s" % (impl[:80], truth[3:])
            if want is not None and impl != want:
                return "SubKeyChecker::check differs from the reference: want %s, got %s" % (want, impl[:80])
            return None
        want = self.expected.get(self.key(case.line))
        if want is None:
            return None
        gt = self.truth.get(self.key(case.line))
        if r[0] == "OK" and gt is not None:
            n = int(r[1])
            got = [(int(r[2 + 7 * k]), (int(r[3 + 7 * k]), int(r[4 + 7 * k])), r[5 + 7 * k]) for k in range(n)]
            exp = [(i, idx, K.hex()) for (i, idx, K) in gt]
            if want.startswith("OK") and got != exp:
                return "reported %r, but the sender addressed %r to this wallet and ranges" % (got[:6], exp[:6])
        if gt is None and impl != "ERR NoTxPublicKey":
            return "no transaction public key in the extra: expected ERR NoTxPublicKey, got " + impl[:100]
        if impl != want:
            return "scan result differs from the reference scanner: want %s, got %s" % (want[:300], impl[:300])
        return None

    def neighbours(self, case, rng):
        w = case.line.split(" ")
        if w[0] in ("subkey_check", "viewtag"):
            return []
        return [Case(" ".join([w[0], e] + w[2:])) for e in ENTRIES if e != w[1]]

    def extra_coverage(self, cases, impl, model):
        cov = super().extra_coverage(cases, impl, model)
        cov.update({"scenario_outputs": self.stats["outputs"], "owned_outputs_reported": self.stats["owned_reported"],
                    "scenario_features": self.stats["features"]})
        return cov


CHECK = C07()
