# C05 — transaction identifier and prefix hash.  Oracle: Monero's three-hash definition computed in python (own Keccak)
# from the BYTES and the format boundaries p, q (reported by the library's own parsers through op `txparts`).
from framework import Check, Case, Infra
import gen_codec as G
from props.c17 import keccak256_fast as keccak


def spec_id(b, version, p, q, rtype):
    if version == 1:
        return keccak(b)
    h0 = keccak(b[:p])
    if rtype == "-":                       # no RingCT data on the wire (no inputs): hashed as RCTTypeNull
        return keccak(h0 + keccak(b"\x00") + bytes(32))
    h1 = keccak(b[p:q])
    h2 = bytes(32) if rtype == "Null" else keccak(b[q:])
    return keccak(h0 + h1 + h2)


class C05(Check):
    pid = "C05"
    rule = ("op txid hex (id + prefix hash of the parsed transaction): every complete transaction among the test-suite literals, "
            "model-encoded generated transactions over the RingCT-type x shape grid (all seven types incl. Full, v1 rings > 1, "
            "coinbase/Null, zero-input v2), seeded random shapes, and byte mutations of them that still parse; oracle = python "
            "three-hash definition with own Keccak and boundaries p,q from the library's parsers; non-trivial = distinct accepted input")
    level_note = ("theorems for an arbitrary hash H and every size table over Model/TxId.v and Spec/TxIdSpec.v; the Keccak instance is "
                  "C17's; tie = correspondence")
    evalA_sample = 4
    model_shard = 50

    def evalA_ok(self, line):
        return len(line) < 700           # ~30 ms per Keccak permutation under vm_compute

    def gen(self, tier, rng):
        thorough = tier == "thorough"
        sz = self.impl_query(["sizes"])[0].split(" ")[1]
        blobs = []
        for h in G.corpus_hex():
            blobs.append((bytes.fromhex(h), "corpus"))
        # real transactions whose identifier is recorded in the repository's tests (block-explorer data)
        self.known_ids = {}
        import os
        kp = os.path.join(G.HERE, "corpus", "tx_ids.txt")
        for l in open(kp):
            h, i = l.split()
            self.known_ids[h] = i
            blobs.append((bytes.fromhex(h), "known-id"))
        descs = []
        shapes = G.grid_shapes()
        if not thorough:
            wide = [sh for sh in shapes if len(sh["out_tagged"]) >= 16 and sh["ring"] == 1]
            rest = [sh for sh in shapes if sh not in wide]
            rng.shuffle(rest)
            shapes = wide + rest[:160]
        for sh in shapes:
            descs.append((G.tx_desc(rng, **sh), "grid-type%d-v%d" % (sh["rct_type"], sh["version"])))
        for sh in G.ring0_shapes():
            descs.append((G.tx_desc(rng, **sh), "empty-ring" + ("" if G.shape_is_wf(sh) else "-refused")))
        for sh in G.big_count_shapes()[::2]:
            descs.append((G.tx_desc(rng, **sh), "big-count"))
        for _ in range(400 if not thorough else 6000):
            sh = G.random_shape(rng, small=True)
            descs.append((G.tx_desc(rng, **sh), "random-type%d" % sh["rct_type"]))
        # twins: the same prefix under different RingCT data (a re-signed copy), one right after the other - the id must follow
        # the whole transaction, never the prefix alone
        import random as _random
        for k in range(40 if not thorough else 400):
            sh = G.random_shape(rng, small=True)
            while sh["version"] == 1 or not sh["in_kinds"] or sh["rct_type"] == 0:
                sh = G.random_shape(rng, small=True)
            seed = rng.getrandbits(32)
            for _ in range(2):
                descs.append((G.tx_desc(rng, prefix_rng=_random.Random(seed), **sh), "same-prefix-twin"))
        descs.append((G.tx_desc(rng, 2, [], 1, [], 0, extra_len=0), "zero-input-v2"))
        descs.append((G.tx_desc(rng, 3, [], 1, [True, False], 0), "zero-input-v3"))
        enc = self.ctx.model_many(["enc %s tx %s" % (sz, " ".join(t)) for t, _ in descs])
        for (t, cls), r in zip(descs, enc):
            w = r.split(" ")
            if w[0] != "OK":
                raise Infra("model cannot encode description")
            blobs.append((bytes.fromhex(w[1]), cls))
        blobs.append((bytes.fromhex("0200000000"), "zero-input-v2"))
        # mutations that keep the transaction parsable are interesting too (id must follow the bytes)
        muts = []
        for b, cls in blobs[:60]:
            if len(b) < 4000:
                for _ in range(6):
                    muts.append((G.multi_mutation(b, rng, 1), "mutated"))
        cs = []
        for k, (b, cls) in enumerate(blobs + muts):
            if k % 7 == 0:
                # a FAILED encoding (writer too short) right before an id computation on the same thread: the id is a function
                # of the transaction's bytes alone, so nothing an earlier call left behind may influence it
                v = rng.choice([300, 2 ** 14, 2 ** 63, 2 ** 64 - 1])
                cs.append(Case("encshort %s varint %d %d" % (sz, rng.randint(0, 1), v), "failing-write-before-id"))
            cs.append(Case("txid %s %s" % (sz, b.hex()), cls))
        seen, out = set(), []
        for c in cs:
            if c.line not in seen:
                seen.add(c.line)
                out.append(c)
        # hash() of VALUES (token form), including values that no byte string parses to: the prunable part dropped from a
        # non-Null transaction, RingCT data attached to a version-1 / zero-input transaction.  Model = implementation only.
        built = []
        for t, cls in descs[:120]:
            built.append(Case("txhash_desc " + " ".join(t), "value-" + cls))
            if "p" in t:
                i = len(t) - 1 - t[::-1].index("p")
                # drop the prunable part: ... base <base> p <prunable>  ->  ... base <base> pnone
                built.append(Case("txhash_desc " + " ".join(t[:i] + ["pnone"]), "value-prunable-dropped"))
        for c in built:
            c.nontrivial = True
        out_built = [c for c in built if c.line not in seen]
        # boundaries from the library's own parsers, for the oracle
        txc = [c for c in out if c.line.startswith("txid ")]
        parts = self.impl_query(["txparts %s %s" % (sz, c.line.split(" ")[2]) for c in txc])
        self.parts = {c.line: p for c, p in zip(txc, parts)}
        for c in txc:
            c.nontrivial = self.parts[c.line].startswith("OK")
        return out + out_built

    def oracle(self, case, impl, ctx):
        w = impl.split(" ")
        if w[0] in ("PANIC", "ABORT", "TIMEOUT", "SIZES-MISMATCH"):
            return "implementation did not return: " + w[0]
        if case.line.startswith("encshort "):
            return None
        if case.line.startswith("txhash_desc "):
            return None if w[0] == "OK" else "hash() of a transaction value did not return: " + impl[:60]
        pw = self.parts[case.line].split(" ")
        if w[0] != "OK":
            return None if pw[0] != "OK" else "txid failed on a transaction that parses"
        b = bytes.fromhex(case.line.split(" ")[2])
        version, p, q, rtype = int(pw[1]), int(pw[2]), int(pw[3]), pw[4]
        want = spec_id(b, version, p, q, rtype).hex()
        if w[1] != want:
            return "id %s but Monero's definition on the received bytes gives %s (version %d, p=%d, q=%d, type %s)" % (
                w[1], want, version, p, q, rtype)
        kid = self.known_ids.get(case.line.split(" ")[2])
        if kid and w[1] != kid:
            return "id %s but the recorded Monero identifier of this transaction is %s" % (w[1], kid)
        if w[2] != keccak(b[:p]).hex():
            return "prefix hash %s is not Keccak-256 of the first %d bytes" % (w[2], p)
        return None

    def oracle_queries(self, case, impl):
        return []


CHECK = C05()
