# C20 — tag table.  Exhaustive correspondence; the oracle is Monero's table written out here independently.
from framework import Check, Case

TABLE = {("main", "std"): 18, ("main", "int"): 19, ("main", "sub"): 42,
         ("test", "std"): 53, ("test", "int"): 54, ("test", "sub"): 63,
         ("stage", "std"): 24, ("stage", "int"): 25, ("stage", "sub"): 36}
INV = {v: k for k, v in TABLE.items()}


def blob(first, n):
    return bytes([first] + [(i * 7 + 13) % 256 for i in range(1, n)])[:n]


class C20(Check):
    pid = "C20"
    rule = ("exhaustive: net_as for 3 networks x 3 types; net_from for all 256 bytes; atype (AddressType::from_slice) for "
            "3 networks x 256 first bytes x every blob length 0..80 (position-dependent content so the payment id slice is "
            "checked); every case is distinct")
    level_note = "theorems about Model/Network.v; exhaustive correspondence with src/network.rs and AddressType::from_slice"
    evalA_sample = 3000

    def gen(self, tier, rng):
        cs = []
        for (n, t) in TABLE:
            cs.append(Case("net_as %s %s" % (n, t), "net_as"))
        for b in range(256):
            cs.append(Case("net_from %d" % b, "net_from"))
        for n in ("main", "test", "stage"):
            for first in range(256):
                cs.append(Case("atype %s -" % n, "atype-empty", nontrivial=False))
                for ln in range(1, 81):
                    cs.append(Case("atype %s %s" % (n, blob(first, ln).hex()), "atype"))
        # blobs that are all zero after the tag (a zero payment id is a legal payment id), and all 0xff
        for n in ("main", "test", "stage"):
            for first in range(256):
                for ln in (1, 64, 65, 72, 73, 74, 77, 80):
                    for fill in (0x00, 0xff):
                        cs.append(Case("atype %s %s" % (n, (bytes([first]) + bytes([fill]) * (ln - 1)).hex()), "atype-uniform-fill"))
        # the table as seen through the address TEXT: all nine tags with spend keys whose first byte takes every value (the
        # leading base58 characters are a function of tag and first key byte), read back by Address::from_str
        from props import c12 as A
        for (net, kind) in A.TAGS:
            for b0 in range(256):
                pid = bytes([b0 ^ 0x5a]) * 8
                blobb = A.blob_of(net, kind, pid, A.key_with_first_byte(b0), A.key_with_first_byte((b0 * 7 + 3) % 256))
                cs.append(Case("addr_from_str " + A.b58_enc(blobb).hex(), "tag-through-address-text"))
        # the empty blob is listed once per network as non-trivial
        for n in ("main", "test", "stage"):
            cs.append(Case("atype %s -" % n, "atype-empty"))
        return cs

    def evalA_ok(self, line):
        # the address-text cases validate two public keys each: minutes per case under vm_compute; the table lines are re-evaluated
        return not line.startswith("addr_from_str")

    def extra_coverage(self, cases, impl, model):
        return {"exhaustive": True}

    def oracle(self, case, impl, ctx):
        w = case.line.split(" ")
        if impl.split(" ")[0] in ("PANIC", "ABORT", "TIMEOUT"):
            return "implementation did not return: " + impl
        if w[0] == "net_as":
            exp = "OK %d" % TABLE[(w[1], w[2])]
        elif w[0] == "net_from":
            b = int(w[1])
            exp = ("OK " + INV[b][0]) if b in INV else "ERR"
        elif w[0] == "addr_from_str":
            from props import c12 as A
            exp = A.expected(case.line)
        else:
            n = w[1]
            b = b"" if w[2] == "-" else bytes.fromhex(w[2])
            exp = "ERR"
            if b and b[0] in INV and INV[b[0]][0] == n:
                t = INV[b[0]][1]
                if t == "int":
                    exp = ("OK int:" + b[65:73].hex()) if len(b) >= 73 else "ERR"
                else:
                    exp = "OK " + t
        if impl != exp:
            return "%s: implementation %s, Monero table demands %s" % (case.line[:60], impl, exp)
        return None


CHECK = C20()
