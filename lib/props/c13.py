# C13 — keys are accepted exactly when canonical; key arithmetic is the group law.
# Correspondence stream (implementation vs executable Coq model) + DIRECT oracle: an independent pure-python
# Ed25519 (props/edref.py: affine formulas, RFC 8032 strict decompression) decides acceptance and recomputes
# every arithmetic result byte for byte.
from framework import Case
from props import edref as ed
from props.curve_common import CurveCheck, hx, le, text, rand_point, P, L


class C13(CurveCheck):
    pid = "C13"
    rule = ("pk/pk_str/pk_dec: random 32-byte strings, EVERY y in [p,2^255) x both signs (38), both negative-zero "
            "encodings, the 8 small-order points and their non-canonical aliases, random valid y (with and without "
            "torsion component), random invalid y, sign flips and +-1 neighbours of valid keys, lengths 0..65; "
            "sk/sk_str/sk_dec: 0,1,l-1,l,l+1,2^252..2^256-1 boundaries, random below/above l; hex: upper/mixed case, "
            "odd length, bad characters, 0x prefix; pk/sk run all three acceptance routes (from_slice, TryFrom<&[u8]>, "
            "TryFrom<[u8;32]>) and all printing routes (Display, to_string, Debug); pk_hash (Hashable) on accepted and "
            "refused keys; txout_key (TxOut::get_one_time_key) on outputs with accepted / refused target keys and malformed outputs; viewpair (From<KeyPair>, From<&KeyPair>) on random and boundary scalars; arithmetic: frompriv/add/sub/mul/ident on random operands "
            "(incl. 0, 1, l-1 and points with torsion components), scalar add/mul/mul-by-u8; pkraw: operators on "
            "unvalidated stored bytes (non-canonical y, negative zero, undecodable -> PANIC is the modelled outcome); "
            "non-trivial = distinct case line")
    level_note = ("acceptance/round-trip/arithmetic theorems are about the Gallina model (Model/Keys.v); the public-key and "
                  "arithmetic theorems hold for EVERY group satisfying the EdLaws record (names end in _partial) - that "
                  "curve25519-dalek's and the executable model's arithmetic is such a group is NOT proved (DESIGN section 8), "
                  "it is checked by computation: model = implementation = independent python reference on every case")
    evalA_lines = ("pk eac2cc96e0ae684388e3185d5277e51313bff98b9ad4a12dcd9205f20d37f1a3", "torsion 5")
    evalA_lines_thorough = ("pkop frompriv 77916d0cd56ed1920aef6ca56d8a41bac915b68e4c46a589e0956e27a7b77404",
                            "pk 0100000000000000000000000000000000000000000000000000000000000080")

    def gen_cases(self, tier, rng):
        q = tier == "quick"
        cs = []
        T = ed.torsion_points()
        G = ed.compress(ed.B)
        # -- corpus: the doc-test vectors of src/util/key.rs
        cs.append(Case("pk eac2cc96e0ae684388e3185d5277e51313bff98b9ad4a12dcd9205f20d37f1a3", "corpus"))
        cs.append(Case("sk 77916d0cd56ed1920aef6ca56d8a41bac915b68e4c46a589e0956e27a7b77404", "corpus"))
        cs.append(Case("ident 77916d0cd56ed1920aef6ca56d8a41bac915b68e4c46a589e0956e27a7b77404 "
                       "8163466f1883598e6dd14027b8da727057165da91485834314f5500a65846f09", "corpus"))
        cs.append(Case("pkop frompriv 77916d0cd56ed1920aef6ca56d8a41bac915b68e4c46a589e0956e27a7b77404", "corpus"))
        for i in range(8):
            cs.append(Case("torsion %d" % i, "torsion"))
        # -- public-key acceptance
        pkb = []      # (bytes, class)
        for y in range(P, 2**255):
            for s in (0, 1):
                pkb.append((le(y | (s << 255)), "noncanonical-y"))
        for y in (1, P - 1):
            pkb.append((le(y | (1 << 255)), "negative-zero"))
            pkb.append((le(y), "x-zero"))
        for t in T:
            c = ed.compress(t)
            pkb.append((c, "small-order"))
            n = int.from_bytes(c, "little")
            y, s = n & (2**255 - 1), n >> 255
            if y + P < 2**255:
                pkb.append((le((y + P) | (s << 255)), "small-order-alias"))
            pkb.append((le(y | ((1 - s) << 255)), "small-order-signflip"))
        for y in list(range(0, 24)) + [P - k for k in range(1, 24)] + [2**254, 2**254 - 1, (P - 1) // 2, (P + 1) // 2]:
            for s in (0, 1):
                pkb.append((le(y | (s << 255)), "boundary-y"))
        for _ in range(2000 if q else 60000):
            pkb.append((bytes(rng.getrandbits(8) for _ in range(32)), "random32"))
        nv = 0
        want = 500 if q else 20000
        while nv < want:
            y = rng.randrange(P)
            x = ed.recover_x(y, rng.getrandbits(1))
            if x is None or x == "negzero":
                pkb.append((le(y | (rng.getrandbits(1) << 255)), "random-invalid-y"))
                continue
            c = ed.compress((x, y))
            pkb.append((c, "random-valid-y"))
            nv += 1
            if nv % 5 == 0:
                n = int.from_bytes(c, "little")
                pkb.append((le(n ^ (1 << 255)), "valid-signflip"))
                pkb.append((le((n + 1) % 2**256), "valid-plus1"))
                pkb.append((le(n ^ (1 << rng.randrange(255))), "valid-bitflip"))
        for _ in range(100 if q else 1000):
            pkb.append((ed.compress(rand_point(rng)), "prime-order"))
        for n in (0, 1, 2, 31, 33, 34, 63, 64, 65):
            pkb.append((bytes(rng.getrandbits(8) for _ in range(n)), "bad-length"))
            pkb.append((G[:n] if n <= 32 else G + G[:n - 32], "bad-length"))
        for b, cls in pkb:
            cs.append(Case("pk " + hx(b), "pk:" + cls))
        valid_keys = [b for b, cls in pkb if cls in ("random-valid-y", "prime-order", "small-order")]
        # Hashable for PublicKey: Keccak-256 of the key bytes (accepted keys of every class, and refused ones)
        cs.append(Case("pk_hash eac2cc96e0ae684388e3185d5277e51313bff98b9ad4a12dcd9205f20d37f1a3", "pk_hash"))
        for b in [c for c, cls in pkb if cls == "small-order"] + rng.sample(valid_keys, 60 if q else 600):
            cs.append(Case("pk_hash " + hx(b), "pk_hash"))
        for b in [c for c, cls in pkb if cls in ("negative-zero", "bad-length")][:6] + [le(P + 1)]:
            cs.append(Case("pk_hash " + hx(b), "pk_hash:rejected"))
        # TxOut::get_one_time_key: the target key of a parsed output, present exactly when from_slice accepts it
        tk = [(b, cls) for b, cls in pkb if len(b) == 32 and cls in ("noncanonical-y", "negative-zero", "x-zero", "small-order",
                                                                     "small-order-alias", "valid-signflip")][::3]
        tk += [(b, "valid") for b in rng.sample(valid_keys, 25 if q else 300)]
        tk += [(b, cls) for b, cls in pkb if cls == "random-invalid-y"][:10]
        for j, (b, cls) in enumerate(tk):
            amount = ed.varint([0, 1, 127, 128, 2**32, 2**64 - 1][j % 6])
            body = amount + (b"\x02" + b if j % 2 else b"\x03" + b + bytes([rng.getrandbits(8)]))
            cs.append(Case("txout_key " + hx(body), "txout_key:" + cls))
        g2 = ed.varint(5) + b"\x02" + G
        for m in (g2 + b"\x00", g2[:-1], g2[:1], b"", ed.varint(5) + b"\x04" + G, ed.varint(5) + b"\x03" + G,
                  ed.varint(5) + b"\x00" + G, b"\x80"):
            cs.append(Case("txout_key " + hx(m), "txout_key:malformed"))
        # consensus form: exact, with trailing bytes, truncated; text form
        sub = [b for b, _ in pkb if len(b) == 32]
        for b in rng.sample(sub, 300 if q else 5000) + rng.sample(valid_keys, 100):
            tail = bytes(rng.getrandbits(8) for _ in range(rng.choice([0, 0, 1, 5, 32])))
            cs.append(Case("pk_dec " + hx(b + tail), "pk_dec"))
            if rng.random() < 0.2:
                cs.append(Case("pk_dec " + hx(b[:rng.randrange(32)]), "pk_dec:truncated"))
            cs.append(Case("pk_str " + text(self.hexvariant(b, rng)), "pk_str"))
        # -- secret keys
        skv = [0, 1, 2, L - 2, L - 1, L, L + 1, L + 2, 2**252 - 1, 2**252, 2**252 + 1, 2 * L - 1, 2 * L, 2**253 - 1,
               2**253, 8 * L, 2**255 - 20, 2**255 - 19, 2**255 - 1, 2**255, 2**256 - 1, 2**256 - 2**128, 15 * L - 1]
        for _ in range(1500 if q else 50000):
            k = rng.random()
            if k < 0.4:
                skv.append(rng.randrange(L))
            elif k < 0.6:
                skv.append(rng.getrandbits(256))
            elif k < 0.8:
                skv.append(L + rng.randrange(-2**16, 2**16))
            else:
                skv.append(rng.getrandbits(rng.choice([8, 64, 128, 250, 252, 253])))
        # aliases of valid scalars: a high bit set on top of a value below l (masking the top bit(s) would accept them), and v + k*l
        for v in [0, 1, 2, L - 1, L - 2] + [rng.randrange(L) for _ in range(20 if q else 400)]:
            for hb in (252, 253, 254, 255):
                skv.append(v | (1 << hb))
            skv.append(v | (3 << 254))
            for k in (1, 2, 7, 8, 15):
                if v + k * L < 2**256:
                    skv.append(v + k * L)
        for v in skv:
            cs.append(Case("sk " + hx(le(v)), "sk:below-l" if v < L else "sk:at-or-above-l"))
        for n in (0, 1, 31, 33, 64):
            cs.append(Case("sk " + hx(bytes(n)), "sk:bad-length"))
            cs.append(Case("sk " + hx(bytes([1] * n)), "sk:bad-length"))
        for v in rng.sample(skv, 300 if q else 5000):
            b = le(v)
            tail = bytes(rng.getrandbits(8) for _ in range(rng.choice([0, 0, 1, 7])))
            cs.append(Case("sk_dec " + hx(b + tail), "sk_dec"))
            if rng.random() < 0.2:
                cs.append(Case("sk_dec " + hx(b[:rng.randrange(32)]), "sk_dec:truncated"))
            cs.append(Case("sk_str " + text(self.hexvariant(b, rng)), "sk_str"))
        # -- scalar arithmetic
        def rs():
            return rng.choice([0, 1, 2, L - 1, L - 2, rng.randrange(L), rng.randrange(L), rng.randrange(L)])
        for _ in range(600 if q else 20000):
            a, b = rs(), rs()
            cs.append(Case("skop add %s %s" % (hx(le(a)), hx(le(b))), "skop"))
            cs.append(Case("skop mul %s %s" % (hx(le(a)), hx(le(b))), "skop"))
            cs.append(Case("skop mulu8 %s %d" % (hx(le(a)), rng.choice([0, 1, 8, 255, rng.randrange(256)])), "skop"))
        cs.append(Case("skop add %s %s" % (hx(le(L)), hx(le(1))), "skop:rejected-operand"))
        # -- point arithmetic (operands validated through from_slice)
        def rp():
            k = rng.random()
            if k < 0.15:
                return rng.choice(T)
            return rand_point(rng, T if k < 0.6 else None)
        for _ in range(120 if q else 800):
            a, b = rs(), rs()
            cs.append(Case("ident %s %s" % (hx(le(a)), hx(le(b))), "ident"))
        for _ in range(150 if q else 1500):
            p1, p2, a = ed.compress(rp()), ed.compress(rp()), rs()
            cs.append(Case("pkop add %s %s" % (hx(p1), hx(p2)), "pkop:add"))
            cs.append(Case("pkop sub %s %s" % (hx(p1), hx(p2)), "pkop:sub"))
            cs.append(Case("pkop mul %s %s" % (hx(le(a)), hx(p1)), "pkop:mul"))
            cs.append(Case("pkop frompriv %s" % hx(le(a)), "pkop:frompriv"))
        # structured scalars (a small low limb under non-zero high limbs, zero middle limbs, single high bits) and points whose
        # y is next to the field prime / next to zero: shortcuts that look at part of an operand
        XY = ed.extreme_y_points()
        SS = ed.structured_scalars(rng)
        for k, a in enumerate(SS if not q else SS[::2]):
            p1 = XY[k % len(XY)] if k % 4 == 0 else ed.compress(rp())
            cs.append(Case("pkop mul %s %s" % (hx(le(a)), hx(p1)), "pkop:mul-structured-scalar"))
            cs.append(Case("pkop frompriv %s" % hx(le(a)), "pkop:frompriv-structured-scalar"))
            cs.append(Case("skop mul %s %s" % (hx(le(a)), hx(le(SS[(5 * k + 1) % len(SS)]))), "skop:structured-scalar"))
            cs.append(Case("skop add %s %s" % (hx(le(a)), hx(le(SS[(3 * k + 2) % len(SS)]))), "skop:structured-scalar"))
        for k, p1 in enumerate(XY):
            cs.append(Case("pkop add %s %s" % (hx(p1), hx(XY[(k + 3) % len(XY)])), "pkop:extreme-y"))
            cs.append(Case("pkop sub %s %s" % (hx(p1), hx(ed.compress(rp()))), "pkop:extreme-y"))
            cs.append(Case("pkop mul %s %s" % (hx(le(rs())), hx(p1)), "pkop:extreme-y"))
        # From<KeyPair> / From<&KeyPair> for ViewPair: the view key is kept, spend = from_private_key(spend)
        cs.append(Case("viewpair 77916d0cd56ed1920aef6ca56d8a41bac915b68e4c46a589e0956e27a7b77404 "
                       "8163466f1883598e6dd14027b8da727057165da91485834314f5500a65846f09", "viewpair"))
        for _ in range(60 if q else 600):
            cs.append(Case("viewpair %s %s" % (hx(le(rs())), hx(le(rs()))), "viewpair"))
        cs.append(Case("viewpair %s %s" % (hx(le(L)), hx(le(1))), "viewpair:rejected-operand"))
        cs.append(Case("viewpair %s %s" % (hx(le(1)), hx(le(L + 1))), "viewpair:rejected-operand"))
        cs.append(Case("pkop add %s %s" % (hx(G), hx(G)), "pkop:add"))
        cs.append(Case("pkop sub %s %s" % (hx(G), hx(G)), "pkop:sub"))
        cs.append(Case("pkop add %s %s" % (hx(le(P + 1)), hx(G)), "pkop:rejected-operand"))
        cs.append(Case("pkop mul %s %s" % (hx(le(L)), hx(G)), "pkop:rejected-operand"))
        # -- operators on unvalidated stored bytes (the `point` field is public)
        raw = [b for b, cls in pkb if cls in ("noncanonical-y", "negative-zero", "small-order-alias")]
        raw += [b for b, cls in pkb if cls == "random-invalid-y"][:20]
        raw += rng.sample(valid_keys, 10)
        for b in raw:
            cs.append(Case("pkraw add %s %s" % (hx(b), hx(G)), "pkraw"))
            cs.append(Case("pkraw sub %s %s" % (hx(G), hx(b)), "pkraw"))
            cs.append(Case("pkraw mul %s %s" % (hx(le(rs())), hx(b)), "pkraw"))
        return cs

    @staticmethod
    def hexvariant(b, rng):
        s = b.hex()
        k = rng.random()
        if k < 0.4:
            return s
        if k < 0.55:
            return s.upper()
        if k < 0.7:
            return "".join(c.upper() if rng.getrandbits(1) else c for c in s)
        if k < 0.78:
            return s[:-1]
        if k < 0.84:
            i = rng.randrange(len(s))
            return s[:i] + rng.choice("gGxz :-/@`") + s[i + 1:]
        if k < 0.9:
            return "0x" + s
        if k < 0.95:
            return s + "00"
        return s + " "

    # ------------------------------------------------------------------ oracle
    @staticmethod
    def hexdecode(s):
        """the `hex` crate's decode: even length, [0-9a-fA-F] only"""
        if len(s) % 2:
            return None
        out = bytearray()
        for i in range(0, len(s), 2):
            v = 0
            for c in s[i:i + 2]:
                if "0" <= c <= "9":
                    d = ord(c) - 48
                elif "a" <= c <= "f":
                    d = ord(c) - 87
                elif "A" <= c <= "F":
                    d = ord(c) - 55
                else:
                    return None
                v = 16 * v + d
            out.append(v)
        return bytes(out)

    def expect(self, line):
        """the result line the property demands, computed independently; None = no opinion"""
        w = line.split(" ")
        op = w[0]
        arg = lambda i: b"" if w[i] == "-" else bytes.fromhex(w[i])
        okpk = lambda b: ed.decompress_strict(b) is not None
        oksk = lambda b: len(b) == 32 and int.from_bytes(b, "little") < L
        if op == "pk":
            # bytes, Display, consensus bytes, bytes via TryFrom<&[u8]>, via TryFrom<[u8;32]>, to_string(), Debug:
            # one acceptance decision on every route, every printing route = lowercase hex of the bytes
            b = arg(1)
            return "OK %s %s %s %s %s %s %s" % (hx(b), b.hex(), hx(b), hx(b), hx(b), b.hex(), b.hex()) if okpk(b) else "ERR"
        if op == "sk":
            b = arg(1)
            return "OK %s %s %s %s %s %s" % (hx(b), b.hex(), hx(b), hx(b), hx(b), b.hex()) if oksk(b) else "ERR"
        if op == "pk_hash":
            b = arg(1)
            return "OK " + hx(ed.keccak256(b)) if okpk(b) else "ERR"
        if op == "txout_key":
            b = arg(1)
            n = i = 0
            while True:
                if i >= len(b):
                    return "ERR"
                c = b[i]
                n |= (c & 0x7f) << (7 * i)
                i += 1
                if not c & 0x80:
                    break
                if i >= 10:
                    return None
            if n >= 2**64 or ed.varint(n) != b[:i]:
                return None                      # varint corner cases belong to C14
            if i >= len(b) or b[i] not in (2, 3) or len(b) != i + 1 + 32 + (b[i] == 3):
                return "ERR"
            k = b[i + 1:i + 33]
            return "OK " + (hx(k) if okpk(k) else "-")
        if op == "viewpair":
            v, s_ = arg(1), arg(2)
            if not oksk(v) or not oksk(s_):
                return "ERR"
            S = hx(ed.compress(ed.mul(int.from_bytes(s_, "little"), ed.B)))
            return "OK %s %s %s %s %s" % (hx(v), S, hx(v), S, S)
        if op in ("pk_str", "sk_str"):
            b = self.hexdecode(arg(1).decode())
            if b is None:
                return "ERR"
            return "OK " + hx(b) if (okpk if op == "pk_str" else oksk)(b) else "ERR"
        if op in ("pk_dec", "sk_dec"):
            b = arg(1)
            if len(b) < 32:
                return "ERR"
            return "OK %s 32" % hx(b[:32]) if (okpk if op == "pk_dec" else oksk)(b[:32]) else "ERR"
        if op == "skop":
            a = arg(2)
            if not oksk(a):
                return "ERR"
            a = int.from_bytes(a, "little")
            if w[1] == "mulu8":
                return "OK " + hx(le(a * int(w[3]) % L))
            b = arg(3)
            if not oksk(b):
                return "ERR"
            b = int.from_bytes(b, "little")
            return "OK " + hx(le((a + b) % L if w[1] == "add" else a * b % L))
        if op == "pkop":
            if w[1] == "frompriv":
                a = arg(2)
                return "OK " + hx(ed.compress(ed.mul(int.from_bytes(a, "little"), ed.B))) if oksk(a) else "ERR"
            if w[1] == "mul":
                a, p = arg(2), arg(3)
                if not oksk(a) or not okpk(p):
                    return "ERR"
                r = hx(ed.compress(ed.mul(int.from_bytes(a, "little"), ed.decompress_strict(p))))
                return "OK %s %s" % (r, r)
            p, q = arg(2), arg(3)
            if not okpk(p) or not okpk(q):
                return "ERR"
            p, q = ed.decompress_strict(p), ed.decompress_strict(q)
            return "OK " + hx(ed.compress(ed.add(p, q) if w[1] == "add" else ed.sub(p, q)))
        if op == "pkraw":
            if w[1] == "mul":
                a, q = arg(2), ed.decompress_lenient(arg(3))
                if not oksk(a):
                    return "ERR"
                if q is None:
                    return "PANIC"
                return "OK " + hx(ed.compress(ed.mul(int.from_bytes(a, "little"), q)))
            p, q = ed.decompress_lenient(arg(2)), ed.decompress_lenient(arg(3))
            if p is None or q is None:
                return "PANIC"
            return "OK " + hx(ed.compress(ed.add(p, q) if w[1] == "add" else ed.sub(p, q)))
        if op == "ident":
            a, b = arg(1), arg(2)
            if not oksk(a) or not oksk(b):
                return "ERR"
            a, b = int.from_bytes(a, "little"), int.from_bytes(b, "little")
            A, Bp = ed.mul(a, ed.B), ed.mul(b, ed.B)
            s = hx(ed.compress(ed.add(A, Bp)))
            m = hx(ed.compress(ed.mul(a * b % L, ed.B)))
            return "OK %s %s %s %s %s %s" % (s, s, m, m, hx(ed.compress(A)), hx(ed.compress(A)))
        if op == "torsion":
            t1 = ed.decompress_strict(bytes.fromhex("c7176a703d4dd84fba3c0b760d10670f2a2053fa2c39ccc64ec7fd7792ac037a"))
            return "OK " + hx(ed.compress(ed.mul(int(w[1]), t1)))
        return None

    def oracle(self, case, impl, ctx):
        w = impl.split(" ")
        op = case.line.split(" ")[0]
        exp = self.expect(case.line)
        if w[0] in ("ABORT", "TIMEOUT") or (w[0] == "PANIC" and exp != "PANIC"):
            return "implementation did not return: " + w[0]
        if op == "ident" and w[0] == "OK" and len(w) == 7:
            if w[1] != w[2]:
                return "pub(a+b) = %s but pub(a)+pub(b) = %s" % (w[1], w[2])
            if w[3] != w[4]:
                return "a*(b*G) = %s but (ab)*G = %s" % (w[3], w[4])
            if w[5] != w[6]:
                return "(A+B)-B = %s but A = %s" % (w[5], w[6])
        if exp is not None and impl != exp:
            return "reference (independent python Ed25519) demands %s, implementation returned %s" % (exp[:300], impl[:300])
        return None

    def neighbours(self, case, rng):
        w = case.line.split(" ")
        out = []
        for i in range(1, len(w)):
            if len(w[i]) == 64:
                b = bytearray(bytes.fromhex(w[i]))
                for pos in (0, 1, 15, 30, 31):
                    for v in (0, 1, 0x7f, 0x80, 0xff, b[pos] ^ 0x80, (b[pos] + 1) % 256):
                        c = bytearray(b)
                        c[pos] = v
                        out.append(Case(" ".join(w[:i] + [c.hex()] + w[i + 1:])))
        return out


CHECK = C13()
