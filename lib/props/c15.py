# C15 — amount text parsing / formatting are exact decimal conversions.
# Correspondence stream + direct oracle computed here with python integers / fractions.Fraction and a regular
# expression for the grammar — never by asking the model.
import itertools, re
from fractions import Fraction
from framework import Check, Case

DEN = {"xmr": 12, "millinero": 9, "micronero": 6, "nanonero": 3, "piconero": 0}
ALIASES = {"xmr": "xmr", "XMR": "xmr", "monero": "xmr", "millinero": "millinero", "mXMR": "millinero",
           "micronero": "micronero", "µXMR": "micronero", "mcXMR": "micronero", "nanonero": "nanonero",
           "nXMR": "nanonero", "piconero": "piconero", "pXMR": "piconero"}
I_MAX = 2**63 - 1
GRAMMAR = re.compile(r"(-?)([0-9]*)(?:(\.)([0-9]*))?", re.ASCII)


def hx(s):
    b = s.encode("utf-8") if isinstance(s, str) else bytes(s)
    return b.hex() if b else "-"


def unhx(h):
    return b"" if h == "-" else bytes.fromhex(h)


def parse_expected(t, d, text):
    """the property, literally: exact rational value * 10^decimals, integral, in range, syntactic limits"""
    if d == "with_suffix":
        parts = text.split(" ")
        if len(parts) != 2 or parts[1] not in ALIASES:
            return "ERR"
        text, d = parts[0], ALIASES[parts[1]]
    decs = DEN[d]
    if not (1 <= len(text.encode("utf-8")) <= 50):
        return "ERR"
    m = GRAMMAR.fullmatch(text)
    if not m:
        return "ERR"
    sign, ip, point, fp = m.group(1), m.group(2), m.group(3), m.group(4) or ""
    if ip == "" and point is None:          # nothing after the sign
        return "ERR"
    if len(fp) > decs:
        return "ERR"
    value = Fraction(int(ip or "0")) + Fraction(int(fp or "0"), 10 ** len(fp))
    q = value * 10 ** decs
    if q.denominator != 1:
        return "ERR"
    q = int(q)
    if sign:
        if t == "u":
            return "ERR"
        q = -q
    if abs(q) > I_MAX:
        return "ERR"
    return "OK %d" % q


def fmt_expected(d, mode, a):
    if mode == "display":
        d, mode = "xmr", "suffix"
    decs = DEN[d]
    m = abs(a)
    s = ("-" if a < 0 else "")
    if decs == 0:
        s += str(m)
    else:
        s += "%d.%s" % (m // 10 ** decs, str(m % 10 ** decs).rjust(decs, "0"))
    if mode == "suffix":
        s += " " + d
    return s


BOUND = [2**63 - 2, 2**63 - 1, 2**63, 2**63 + 1, 2**64 - 1, 2**64, 2**64 + 1, 10**19, 10**20 - 1, 10 * 2**63, 10 * (2**63 - 1),
         (2**64 - 1) // 10, (2**64 - 1) // 10 + 1, 18446744073709551610, 18446744073709551620, 1844674407370955161,
         1844674407370955162, 922337203685477580, 922337203685477581, 9223372036854775800, 9223372036854775810]


class C15(Check):
    pid = "C15"
    evalA_sample = 600
    rule = ("amt_parse: EVERY string over {0,1,9,.,-,x,space} up to length 5 (thorough: 6) x 5 denominations x "
            "{Amount, SignedAmount}; every such string up to length 4 followed by 9 suffix variants through FromStr; "
            "2^63-2 .. 2^64+1, 10^19, 10^20-1, (2^64-1)/10 and neighbours written with the point at every position, with "
            "0..14 appended zeros, optional sign, all denominations; the same magnitudes +-2 as quantities written exactly in "
            "each denomination (plus leading zeros, one more / fewer trailing zeros, sign, suffix); zero-padded texts of 49/50/51 bytes (leading, "
            "trailing, with sign); non-ASCII digits / separators / multi-byte texts around 50 bytes; seeded random "
            "digit strings with random point, sign and junk; amt_fmt (plain / suffix / Display) for boundary and random "
            "amounts, and amt_parse of each formatted text plain, with its suffix and with every alias; "
            "non-trivial = distinct case line whose text is accepted by the oracle or belongs to a named boundary class; "
            "the oracle is the property computed with python Fraction arithmetic and a regular expression")
    level_note = ("theorems are about the Gallina model Model/Amount.v working on the UTF-8 bytes of the text (equivalent to "
                  "the char-level Rust code on valid UTF-8 because all significant characters are ASCII); std integer "
                  "Display and zero padding are modelled; tie to src/util/amount.rs is the correspondence check")

    def gen(self, tier, rng):
        cs = []
        dens = list(DEN)
        add = lambda t, d, text, cls: cs.append(Case("amt_parse %s %s %s" % (t, d, hx(text)), cls))
        # corpus: the interpretations of DESIGN §4 and a few literals of the test-suite
        for text in ["-0", ".", "-.", "1.", ".5", "-", "", "0", "1", "1.0000000000001", "0.000000000001", "-1.5",
                     "9223372.036854775807", "9223372.036854775808", "18446744.073709551615", "+1", "1e3", "1,5", " 1", "1 "]:
            for d in dens:
                for t in "us":
                    add(t, d, text, "corpus")
        # exhaustive small alphabet
        alpha = "019.-x "
        maxlen = 5 if tier == "quick" else 6
        for n in range(0, maxlen + 1):
            for tup in itertools.product(alpha, repeat=n):
                text = "".join(tup)
                for d in dens:
                    add("u", d, text, "alphabet")
                    add("s", d, text, "alphabet")
        sufs = ["", " xmr", " piconero", " µXMR", " XMR", " xmr ", "  xmr", " bogus", " nXMR"]
        for n in range(0, 5):
            for tup in itertools.product(alpha, repeat=n):
                text = "".join(tup)
                for sf in sufs:
                    add("u", "with_suffix", text + sf, "alphabet-suffix")
                    add("s", "with_suffix", text + sf, "alphabet-suffix")
        # boundary magnitudes with every point position
        for v in BOUND:
            ds = str(v)
            for p in range(0, len(ds) + 1):
                for z in (0, 1, 2, 3, 6, 9, 11, 12, 13, 14):
                    variants = [ds[:p] + "." + ds[p:] + "0" * z]
                    if p == len(ds):
                        variants.append(ds + "0" * z)
                    for body in variants:
                        for sg in ("", "-"):
                            for d in dens:
                                for t in "us":
                                    add(t, d, sg + body, "boundary")
        # the same magnitudes as QUANTITIES: q piconero written exactly in each denomination, with the usual variations
        for v in BOUND:
            for dl in (-2, -1, 0, 1, 2):
                for d in dens:
                    base = fmt_expected(d, "plain", v + dl)
                    vs = {base, "0" + base, "000" + base, base + ("0" if "." in base else "."), base.rstrip("0") if "." in base else base,
                          (base.rstrip("0").rstrip(".") if "." in base else base)}
                    for body in sorted(vs):
                        for sg in ("", "-"):
                            for t in "us":
                                add(t, d, sg + body, "boundary-exact")
                            add("s", "with_suffix", sg + body + " " + d, "boundary-exact")
        # integer part exactly floor(M / 10^k) with a fraction at, just above and far above the remainder, for M = 2^63-1, 2^64-1
        # (an accumulation that scales the integer part once and then adds fraction digits unchecked wraps here)
        for d in dens:
            k = DEN[d]
            if k == 0:
                continue
            for M in (2**63 - 1, 2**64 - 1, 2**64):
                ip, rem = divmod(M, 10**k)
                fracs = {rem, rem + 1, min(10**k - 1, rem + 10**(k - 1)), 10**k - 1, 5 * 10**(k - 1), max(0, rem - 1)}
                for f in sorted(fracs):
                    if f >= 10**k:
                        continue
                    fs = ("%0" + str(k) + "d") % f
                    for body in ("%d.%s" % (ip, fs), "%d.%s" % (ip, fs.rstrip("0") or "0"), "%d.%s" % (ip + 1, "0" * k)):
                        for sg in ("", "-"):
                            for t in "us":
                                add(t, d, sg + body, "integer-part-at-the-scaled-limit")
        # zero padding up to the length limit
        for total in (48, 49, 50, 51, 52):
            for body in ("1", "9223372036854775807", "9223372036854775808", "0"):
                for sg in ("", "-"):
                    k = total - len(sg) - len(body)
                    texts = [sg + "0" * k + body, sg + "0" * (k - 1) + body + ".", sg + "0" * (k - 4) + body + ".000",
                             sg + body + "." + "0" * (k - 1), sg + "." + "0" * (k - 1) + body]
                    for text in texts:
                        for d in dens:
                            for t in "us":
                                add(t, d, text, "length-limit")
                        add("u", "with_suffix", text + " xmr", "length-limit")
                        add("s", "with_suffix", text + " piconero", "length-limit")
        # lengths at which a narrow length counter wraps (a u8 at 256 + k, a u16 at 65536 + k): well-formed digits, far beyond
        # the 50-character limit - all refused
        for total in (255, 256, 257, 258, 260, 300, 305, 306, 307, 512, 513, 562, 65535, 65536, 65537, 65540, 65586):
            for body in ("5", "1.5", "0"):
                text = "0" * (total - len(body)) + body
                for d in ("xmr", "piconero", "nanonero"):
                    for t in "us":
                        add(t, d, text, "length-wraps-a-narrow-counter")
                add("s", "with_suffix", text[4:] + " xmr", "length-wraps-a-narrow-counter")
        # non-ASCII
        for text in ["１", "1٫5", "µ", "1.5€", "٣", "١٢", "1 5", "−1", "−", "-١",
                     "1€", "€" * 16 + "11", "€" * 17, "é" * 25, "é" * 26, "1" * 49 + "é", "1" * 48 + "é",
                     "\U0001f600", "0.\U0001f600", "1.０", "µXMR", "1 µXMR", "1 xmr", "1 µxmr", "1 μXMR"]:
            for d in dens + ["with_suffix"]:
                for t in "us":
                    add(t, d, text, "non-ascii")
        # random digit strings
        nrand = 20000 if tier == "quick" else 400000
        for _ in range(nrand):
            d = rng.choice(dens)
            kind = rng.random()
            if kind < 0.5:
                # a quantity near a boundary, written in denomination d with random padding
                q = rng.choice(BOUND[:6]) + rng.randint(-3, 3) if rng.random() < 0.5 else rng.getrandbits(rng.choice([1, 8, 40, 62, 63, 64, 65]))
                decs = DEN[d]
                s = str(q).rjust(decs + 1, "0")
                body = s[:len(s) - decs] + ("." + s[len(s) - decs:] if decs else rng.choice(["", "."]))
                if rng.random() < 0.3:
                    body = "0" * rng.randint(1, 20) + body
                if rng.random() < 0.3 and "." in body:
                    body = body + "0" * rng.randint(1, 3)
                if rng.random() < 0.3 and "." in body:
                    body = body.rstrip("0")
            else:
                n = rng.randint(1, 24)
                body = "".join(rng.choice("0123456789") for _ in range(n))
                if rng.random() < 0.7:
                    p = rng.randint(0, n)
                    body = body[:p] + "." + body[p:]
            if rng.random() < 0.08:
                p = rng.randint(0, len(body))
                body = body[:p] + rng.choice([".", "-", "x", " ", "+", "e", ","]) + body[p:]
            text = rng.choice(["", "", "-"]) + body
            add(rng.choice("us"), d, text, "random")
        # formatter, and parse of what the formatter writes
        vals = set([0, 1, 9, 10, 11, 99, 100, 999, 1000, 10**6 - 1, 10**6, 10**9, 10**12 - 1, 10**12, 10**12 + 1, 123456789012345,
                    I_MAX - 1, I_MAX, I_MAX + 1, 2**64 - 1, 2**64 - 2, 10**19, 10**18, 5 * 10**11])
        for _ in range(1500 if tier == "quick" else 10000):
            vals.add(rng.getrandbits(rng.choice([4, 10, 20, 30, 40, 41, 50, 62, 63, 64])))
        for v in sorted(vals):
            for d in dens:
                for mode in ("plain", "suffix"):
                    cs.append(Case("amt_fmt u %s %s %d" % (d, mode, v), "format"))
                    for sv in (v, -v, -v - 1):
                        if -2**63 <= sv <= I_MAX:
                            cs.append(Case("amt_fmt s %s %s %d" % (d, mode, sv), "format"))
                for sv in (v, -v):
                    if abs(sv) <= I_MAX:
                        text = fmt_expected(d, "plain", sv)
                        add("s", d, text, "roundtrip")
                        if sv >= 0:
                            add("u", d, text, "roundtrip")
                        for al, dn in ALIASES.items():
                            if dn == d and (al == d or v % 7 == 0 or v < 1000 or v >= I_MAX - 1):
                                add("s", "with_suffix", text + " " + al, "roundtrip-suffix")
                                if sv >= 0:
                                    add("u", "with_suffix", text + " " + al, "roundtrip-suffix")
            cs.append(Case("amt_fmt u xmr display %d" % v, "format"))
            if v <= 2**63:
                cs.append(Case("amt_fmt s xmr display %d" % -v, "format"))
        seen = set()
        for c in cs:
            if c.line in seen:
                c.nontrivial = False
            elif c.cls in ("alphabet", "alphabet-suffix", "random", "non-ascii") and c.line.startswith("amt_parse"):
                w = c.line.split(" ")
                c.nontrivial = parse_expected(w[1], w[2], unhx(w[3]).decode("utf-8")) != "ERR"
            seen.add(c.line)
        return cs

    def expected(self, case):
        w = case.line.split(" ")
        if w[0] == "amt_parse":
            return parse_expected(w[1], w[2], unhx(w[3]).decode("utf-8"))
        return "OK " + hx(fmt_expected(w[2], w[3], int(w[4])))

    def oracle(self, case, impl, ctx):
        if impl.split(" ")[0] in ("PANIC", "ABORT", "TIMEOUT"):
            return "implementation did not return: " + impl
        exp = self.expected(case)
        if impl != exp:
            w = case.line.split(" ")
            if w[0] == "amt_parse":
                return "%s::from_str%s(%r) returned %s, the exact decimal value demands %s" % (
                    "Amount" if w[1] == "u" else "SignedAmount", "" if w[2] == "with_suffix" else "_in[%s]" % w[2],
                    unhx(w[3]).decode("utf-8"), impl, exp)
            got = unhx(impl.split(" ")[1]).decode("utf-8", "replace") if impl.startswith("OK ") else impl
            return "format of %s in %s (%s) is %r, the exact expansion is %r" % (w[4], w[2], w[3], got, unhx(exp.split(" ")[1]).decode())
        return None

    def neighbours(self, case, rng):
        w = case.line.split(" ")
        out = []
        if w[0] == "amt_parse":
            try:
                text = unhx(w[3]).decode("utf-8")
            except UnicodeDecodeError:
                return out
            for i in range(len(text) + 1):
                for ch in "019.-":
                    out.append(Case("amt_parse %s %s %s" % (w[1], w[2], hx(text[:i] + ch + text[i:]))))
                    if i < len(text):
                        out.append(Case("amt_parse %s %s %s" % (w[1], w[2], hx(text[:i] + ch + text[i + 1:]))))
                if i < len(text):
                    out.append(Case("amt_parse %s %s %s" % (w[1], w[2], hx(text[:i] + text[i + 1:]))))
        else:
            v = int(w[4])
            for dv in (-2, -1, 1, 2):
                if (w[1] == "u" and 0 <= v + dv < 2**64) or (w[1] == "s" and -2**63 <= v + dv <= I_MAX):
                    out.append(Case("amt_fmt %s %s %s %d" % (w[1], w[2], w[3], v + dv)))
        return out

    def extra_coverage(self, cases, impl, model):
        acc = {}
        for c, m in zip(cases, model):
            k = c.cls + "/" + m.split(" ")[0]
            acc[k] = acc.get(k, 0) + 1
        return {"class_outcome_histogram": acc,
                "exhaustive_subdomain": "all strings over {0,1,9,.,-,x,space} up to the stated length, 5 denominations, both types"}


CHECK = C15()
