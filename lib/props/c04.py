# C04 — no input can panic, hang or exhaust memory in parsers or on parsed objects (RUNTIME part).
# An adversarial stream through every parser entry point of the harness and through `parsed_ops` (every public
# operation on whatever parses), on the real library, in both cargo profiles, with the counting allocator on.
# Oracle (on the implementation alone): the result is never PANIC / ABORT / TIMEOUT and
#       peak_heap <= A + B(op) * |input|          (constants below, derivation in notes/C04.md)
# The model side (Model/OpsRobust.v, Model/Ops*.v) must give the same result line (accept / reject agreement).
import os
from framework import Check, Case, Infra
import gen_codec as G

MiB = 1024 * 1024
CAP = 32 * MiB
# A: at most two capped pre-allocations are live without having been paid for by input bytes (Vec<TxIn> > Vec<VarInt>,
#    Vec<Bulletproof> > Vec<Key>); the design budget is depth 4.  + 1 MiB slack for fixed-size buffers.
A_CONST = 4 * CAP + 1 * MiB
# B: bytes of heap per input byte.
#   library: max over element types of size_of T / min wire bytes = TxIn 64 / 2 = 32 (Gen input: tag + 1-byte varint),
#            SubField 32 / 2 with doubling growth = 32; x2 because `parsed_ops` holds the parsed extra twice
#   harness: the decoded input (1), serialised copy (<= 2 with doubling), hex / Display strings (<= 2 + 5)
B_PARSED = 96         # parsed_ops / parsed_scan / psyn / reser: objects + serialisations + Display strings (observed <= 53)
B_DUMP = 192          # dec / decs / extra_parse / *_dec: the harness dumps one String token per parsed element (observed <= 70)
B_TEXT = 32           # text and fixed-size parsers: nothing but copies / re-encodings of the input (observed <= 20: b58_enc)
A_TEXT = 64 * 1024    # ... and no capped pre-allocation at all
DUMP_OPS = {"dec", "decs", "extra_parse", "subfield_dec", "subfield_decs", "varint_dec", "addr_dec", "sk_dec", "pk_dec"}
PARSED_OPS = {"parsed_ops", "psyn", "reser", "parsed_scan"}

HUGE = [2 ** 19, 2 ** 19 + 1, 2 ** 20, 2 ** 20 + 1, 2 ** 22 + 1, 2 ** 25, 2 ** 25 + 1, 2 ** 32, 2 ** 40, 2 ** 63, 2 ** 64 - 1]
HUGE_MAIN = [2 ** 25, 2 ** 32, 2 ** 63, 2 ** 64 - 1]


def leb(n):
    o = bytearray()
    while True:
        g = n & 0x7f
        n >>= 7
        if n:
            o.append(g | 0x80)
        else:
            o.append(g)
            return bytes(o)


def hx(b):
    return b.hex() or "-"


def thex(s):
    if isinstance(s, str):
        s = s.encode("utf-8")
    return s.hex() or "-"


# ------------------------------------------------------------------------------------------------ layout walker
class Walk:
    """walks a VALID tx / block encoding (layout of coq/Model/Codec.v) and records every length position:
       (offset, width, kind) with kind 'v' = varint, 'u32' = the little-endian bulletproof count"""

    def __init__(self, b):
        self.b, self.i, self.lens, self.varints = b, 0, [], []

    def take(self, n):
        if self.i + n > len(self.b):
            raise ValueError("eof")
        self.i += n

    def u8(self):
        self.take(1)
        return self.b[self.i - 1]

    def varint(self, is_len=False):
        s, v, sh = self.i, 0, 0
        while True:
            x = self.u8()
            v |= (x & 0x7f) << sh
            sh += 7
            if x < 0x80:
                break
            if sh > 70:
                raise ValueError("varint")
        (self.lens if is_len else self.varints).append((s, self.i - s, "v"))
        return v

    def vec32(self):
        n = self.varint(True)
        self.take(32 * n)

    def tx(self):
        version = self.varint()
        self.varint()
        n_in = self.varint(True)
        rings = []
        for _ in range(n_in):
            t = self.u8()
            if t == 0xff:
                self.varint()
                rings.append(None)
            elif t == 2:
                self.varint()
                k = self.varint(True)
                for _ in range(k):
                    self.varint()
                self.take(32)
                rings.append(k)
            else:
                raise ValueError("txin")
        n_out = self.varint(True)
        for _ in range(n_out):
            self.varint()
            t = self.u8()
            self.take(32 if t == 2 else 33)
            if t not in (2, 3):
                raise ValueError("target")
        e = self.varint(True)
        self.take(e)
        if version == 1:
            for k in rings:
                if k is not None:
                    self.take(64 * k)
            return
        if n_in == 0:
            return
        t = self.u8()
        if t == 0:
            return
        if t > 6:
            raise ValueError("rct")
        self.varint()
        if t == 2:
            self.take(32 * n_in)
        self.take((64 if t in (1, 2, 3) else 8) * n_out)
        self.take(32 * n_out)
        mixin = (rings[0] - 1) if rings[0] is not None else 0
        if mixin < 0:
            raise ValueError("ring")
        if t in (3, 4, 5):
            if t == 3:
                s = self.i
                self.take(4)
                n = int.from_bytes(self.b[s:s + 4], "little")
                self.lens.append((s, 4, "u32"))
            else:
                n = self.varint(True)
            for _ in range(n):
                self.take(192)
                self.vec32()
                self.vec32()
                self.take(96)
        elif t == 6:
            n = self.varint(True)
            for _ in range(n):
                self.take(192)
                self.vec32()
                self.vec32()
        else:
            self.take(6176 * n_out)
        if t in (5, 6):
            self.take(n_in * ((mixin + 1) * 32 + 64))
        elif t in (2, 3, 4):
            self.take(n_in * ((mixin + 1) * 64 + 32))
        else:
            self.take((mixin + 1) * (1 + n_in) * 32 + 32)
        if t in (3, 4, 5, 6):
            self.take(32 * n_in)

    def block(self):
        self.varint()
        self.varint()
        self.varint()
        self.take(36)
        self.tx()
        self.vec32()


def layout(b, T):
    w = Walk(b)
    try:
        getattr(w, T)()
    except (ValueError, IndexError):
        return None
    return w


def spaced(n, k, head=64, tail=32):
    """about k offsets out of range(n): every offset of the first `head` and the last `tail`, the rest evenly spaced"""
    if n <= k:
        return list(range(n))
    s = set(range(min(n, head))) | set(range(max(0, n - tail), n))
    step = max(1, n // k)
    s |= set(range(0, n, step))
    return sorted(s)


# ------------------------------------------------------------------------------------------------ the check
class C04(Check):
    pid = "C04"
    profiles = ("release", "dev")
    peak = True
    evalA_sample = 400
    impl_timeout = 120        # seconds per shard of <= 2000 cases (a shard of the unchanged tree takes < 5 s)
    rule = ("adversarial stream, both cargo profiles, counting allocator: (1) every LENGTH position (vector length varints, the u32 "
            "bulletproof count) of every repository hex literal and of generated well-formed tx / blocks (all 7 RingCT types, v1, Gen/ToKey) "
            "replaced by 2^19, 2^19+1, 2^20(+1), 2^22+1, 2^25(+1), 2^32, 2^40, 2^63, 2^64-1, through parsed_ops and reser; every other "
            "varint likewise (4 values); every byte offset of sampled objects overwritten by a huge varint; (2) nested vectors with every "
            "level at its allocation-cap boundary (Vec<TxIn> > key_offsets, Vec<Bulletproof> > L/R, in tx and block); (3) truncation of corpus "
            "and generated objects at (sampled: all of the first 64 / last 32 + evenly spaced) offsets; (4) big inputs: 1 MB of 0xff / 0x80 / "
            "0x00 / 0x02 through every codec type, 2*10^5 Gen inputs, 5*10^4 outputs, 5*10^5 ring offsets, 10^6 tx hashes in a block, "
            "2 MiB / 20 MiB extras (zeros, empty nonces, random), 10^5-element vectors; (5) byte mutations of corpus / generated objects "
            "(gen_codec.mutations_at_every_offset, multi_mutation) through parsed_ops; (6) every text / byte parser entry point (address "
            "from_str / from_hex / from_bytes / consensus, AddressType, secret / public keys, amounts of both types in 5 denominations + suffix, "
            "Denomination, Hash / Hash8 / PaymentId from_hex, base58, keccak / hash-to-scalar, extra / sub-field, varint) on valid samples, "
            "10^5-character strings, non-ASCII UTF-8, embedded NULs, random strings; (7) parsed_scan: Transaction / TransactionPrefix "
            "check_outputs and SubKeyChecker::new + check_outputs_with with empty (a..a, 0..0), REVERSED (3..1 x 5..2, MAX..0), "
            "u32::MAX-1.. and ordinary (up to 64 x 64) index ranges on corpus / generated / mutated objects and on transactions whose "
            "outputs belong to the harness' view pair (plain and view-tagged keys, v1 / Null / Full / Bulletproof2 / Clsag / "
            "BulletproofPlus with valid, off-curve and non-canonical commitments).  non-trivial = distinct case line.  Oracle: never "
            "PANIC/ABORT/TIMEOUT, peak heap <= A + B(op)*|input|")
    level_note = ("proof part: Props/C04.v about the Gallina models (no Panic, no fuel, loop bounds, allocation requests); "
                  "PARTIAL: real unwinding, aborts, stack depth, wall clock and heap peak are OBSERVED on the stream above, not proved; "
                  "panics inside curve25519-dalek / tiny-keccak / base58-monero / hex / std cannot be exhibited by the model")

    # -------------------------------------------------------------------------------------------- generator
    def gen(self, tier, rng):
        thorough = tier == "thorough"
        sz = self.impl_query(["sizes"])[0].split(" ")[1]
        self.sz = sz
        cs, seen = [], set()

        def add(line, cls):
            if line not in seen:
                seen.add(line)
                cs.append(Case(line, cls))

        def po(T, b, cls):
            add("parsed_ops %s %s %s" % (sz, T, hx(b)), cls)

        def reser(T, b, cls):
            add("reser %s %s %s" % (sz, T, hx(b)), cls)

        # ---- seeds: corpus literals and generated well-formed objects (encoded by the model)
        seeds = []      # (T, bytes, origin)
        for h in G.corpus_hex():
            b = bytes.fromhex(h)
            for T in ("tx", "block"):
                if layout(b, T) is not None and layout(b, T).i == len(b):
                    seeds.append((T, b, "corpus"))
            for T in ("tx", "block", "prefix", "header"):
                po(T, b, "corpus")
        descs = []
        shapes = G.grid_shapes()
        rng.shuffle(shapes)
        for sh in shapes[:(70 if not thorough else 400)]:
            descs.append(("tx", G.tx_desc(rng, **sh)))
        for _ in range(50 if not thorough else 500):
            descs.append(("tx", G.tx_desc(rng, **G.random_shape(rng, small=True))))
        for _ in range(4 if not thorough else 40):
            descs.append(("tx", G.tx_desc(rng, **G.random_shape(rng, small=False))))
        for n in (0, 1, 3):
            descs.append(("block", G.block_desc(rng, n)))
        for _ in range(6):
            descs.append(("block", G.block_desc(rng, rng.randint(0, 4), G.tx_desc(rng, **G.random_shape(rng)))))
        enc = self.ctx.model_many(["enc %s %s %s" % (sz, T, " ".join(t)) for T, t in descs])
        for (T, toks), r in zip(descs, enc):
            w = r.split(" ")
            if w[0] != "OK":
                raise Infra("model cannot encode generated description: %s" % r[:200])
            seeds.append((T, b"" if w[1] == "-" else bytes.fromhex(w[1]), "generated"))
        n_corpus = sum(1 for s in seeds if s[2] == "corpus")
        self.n_seeds = (n_corpus, len(seeds) - n_corpus)

        # ---- (1) huge declared lengths in every length position
        n_len_pos = 0
        for k, (T, b, org) in enumerate(seeds):
            w = layout(b, T)
            if w is None or w.i != len(b):
                if org == "generated":
                    raise Infra("layout walker cannot read a generated %s" % T)
                continue
            po(T, b, "seed-" + T)
            for (off, width, kind) in w.lens:
                n_len_pos += 1
                for v in (HUGE if len(b) <= 3000 or thorough else HUGE_MAIN + [2 ** 19 + 1]):
                    if kind == "u32":
                        if v >= 2 ** 32:
                            v = 2 ** 32 - 1
                        rep = v.to_bytes(4, "little")
                    else:
                        rep = leb(v)
                    m = b[:off] + rep + b[off + width:]
                    po(T, m, "hugelen-" + T)
                    if v in (2 ** 25, 2 ** 64 - 1):
                        reser(T, m, "hugelen-reser-" + T)
                if kind == "v":
                    # the overflowing 10-byte varint 2^64 and a huge length followed by nothing
                    po(T, b[:off] + b"\x80" * 9 + b"\x02" + b[off + width:], "hugelen-" + T)
                    po(T, b[:off] + leb(2 ** 25), "hugelen-eof-" + T)
            # the other varints (amounts, heights, offsets, versions, fee): a few of them, 4 values
            vs = w.varints if len(w.varints) <= 4 else rng.sample(w.varints, 4)
            for (off, width, kind) in vs:
                for v in HUGE_MAIN:
                    po(T, b[:off] + leb(v) + b[off + width:], "hugevarint-" + T)
            # a huge varint written over every byte offset (sampled seeds)
            if k % 5 == 0 and len(b) < 3000:
                for off in spaced(len(b), 100):
                    for v in (2 ** 25, 2 ** 64 - 1):
                        po(T, b[:off] + leb(v) + b[off + 1:], "hugeany-" + T)
        self.n_len_pos = n_len_pos

        # ---- (2) nested vectors, every level at its cap boundary
        s_txin, s_txout, s_rs, s_bp, s_bpp = [int(x) for x in sz[1:].split(",")]
        hdr = b"\x01\x01\x01" + b"\x11" * 32 + b"\x00" * 4
        for n_in in (CAP // s_txin, CAP // s_txin + 1, 1, 2):
            for n_ko in (CAP // 8, CAP // 8 + 1, 2 ** 32, 2 ** 64 - 1):
                inner = leb(n_in) + b"\x02\x00" + leb(n_ko)
                for tail in (b"", b"\x01" * 40, b"\x01" * 5000):
                    add("reser %s vec_txin %s" % (sz, hx(inner + tail)), "nested-vec")
                    add("dec %s vec_txin %s" % (sz, hx(inner + tail)), "nested-vec")
                    for T, pre in (("prefix", b"\x02\x00"), ("tx", b"\x02\x00"), ("block", hdr + b"\x02\x00")):
                        po(T, pre + inner + tail, "nested-" + T)
        for n_bp in (CAP // s_bp, CAP // s_bp + 1, 1):
            for n_l in (CAP // 32, CAP // 32 + 1, 2 ** 63):
                inner = leb(n_bp) + b"\x07" * 192 + leb(n_l)
                for tail in (b"", b"\x07" * 320):
                    add("reser %s vec_bulletproof %s" % (sz, hx(inner + tail)), "nested-vec")
                    # inside a transaction: one Gen input, one output, Bulletproof2 / Clsag / BulletproofPlus
                    for t, body in ((4, inner), (5, inner), (6, leb(CAP // s_bpp) + b"\x07" * 192 + leb(n_l))):
                        txb = (b"\x02\x00\x01\xff\x05\x01\x00\x02" + b"\x09" * 32 + b"\x00" + bytes([t]) + b"\x00" +
                               b"\x08" * 8 + b"\x09" * 32 + body + tail)
                        po("tx", txb, "nested-tx-rct")
                        po("block", hdr + txb, "nested-block-rct")
        for T, d in (("vec_txout", None), ("vec_varint", None), ("vec_hash", None), ("bytesvec", None), ("vec_txin", None),
                     ("vec_bulletproof", None), ("box_u8", None), ("box_hash", None), ("box_varint", None)):
            for v in HUGE + [CAP // 48, CAP // 48 + 1, CAP // 8, CAP // 8 + 1, CAP // 336, CAP // 336 + 1, CAP + 1, CAP]:
                for tail in (b"", b"\x00" * 64):
                    add("reser %s %s %s" % (sz, T, hx(leb(v) + tail)), "caplen-" + T)

        # ---- (2a) extra nonces of every small length under every leading marker byte (0x00 = 32-byte payment id, 0x01 = 8-byte
        # encrypted payment id by wallet convention - the library must not assume the conventional length), formatted after parsing
        for first in (0x00, 0x01, 0x02, 0x7f, 0xff):
            for n in (0, 1, 2, 3, 8, 9, 10, 16, 32, 33, 34, 64, 255):
                payload = (bytes([first]) + b"\x11" * (n - 1)) if n else b""
                for ex in (b"\x02" + leb(n) + payload, b"\x01" + b"\x09" * 32 + b"\x02" + leb(n) + payload,
                           b"\x02" + leb(n) + payload + b"\x02" + leb(n) + payload):
                    txb = b"\x02\x00\x01\xff\x05\x01\x00\x02" + b"\x09" * 32 + leb(len(ex)) + ex + b"\x00"
                    po("tx", txb, "extra-nonce-shapes")
                    po("prefix", txb[:-1], "extra-nonce-shapes")

        # ---- (2b) two-dimensional shapes: the MLSAG matrix of a RingCT "Full" transaction has (ring size of input 0) rows of
        # (inputs + 1) columns, both backed by real bytes of the prefix; the input ends before (or shortly after) the matrix
        # begins.  A decoder that reserves rows x columns at once takes memory quadratic in the input length here
        for (n_in, ring0, rct_t) in ((3000, 3000, 1), (2000, 4500, 1), (3000, 3000, 2), (2500, 2500, 5)):
            ins = b""
            for i in range(n_in):
                r_i = ring0 if i == 0 else 1
                ins += b"\x02\x00" + leb(r_i) + b"\x01" * r_i + bytes([i & 0xff]) * 32
            pre = b"\x02\x00" + leb(n_in) + ins + b"\x01\x00\x02" + b"\x09" * 32 + b"\x00"
            base = bytes([rct_t]) + b"\x00"
            if rct_t == 2:
                base += b"\x0a" * (32 * n_in)                       # pseudo outs
            base += (b"\x0b" * 64 if rct_t in (1, 2) else b"\x0b" * 8) + b"\x0c" * 32
            if rct_t in (1, 2):
                prun = b"\x0d" * 6176                                # one RangeSig
            else:
                prun = b"\x01" + b"\x0e" * 192 + b"\x00" + b"\x00" + b"\x0e" * 96   # one Bulletproof with empty L, R
            for extra in (0, 1, 32, 33 * 32):
                po("tx", pre + base + prun + b"\x0f" * extra, "matrix-shaped-reservation")
            po("block", hdr + pre + base + prun, "matrix-shaped-reservation")

        # ---- (3) truncation
        for k, (T, b, org) in enumerate(seeds):
            budget = (80 if org == "corpus" else 40) * (4 if thorough else 1)
            for n in spaced(len(b), budget):
                po(T, b[:n], "trunc-" + T)
            if k % 5 == 0:
                for n in spaced(len(b), 40, 16, 8):
                    reser(T, b[:n], "trunc-reser-" + T)

        # ---- (4) big inputs
        big = 1000000
        codec_types = ["varint", "u8", "u32", "u64", "bool", "hash", "hash8", "key64", "bytesvec", "txin", "target", "txout",
                       "prefix", "signature", "rcttype", "borosig", "rangesig", "bulletproof", "bpplus", "tx", "header", "block",
                       "vec_txin", "vec_txout", "vec_varint", "vec_hash", "vec_bulletproof"]
        self.codec_types = codec_types
        mb_types = ("tx", "block", "bytesvec")          # the full megabyte; 200 kB for the other types
        for fill in (0xff, 0x80):
            for T in codec_types:
                add("reser %s %s %s" % (sz, T, ("%02x" % fill) * (big if T in mb_types else big // 5)), "big-fill")
            for T in ("tx", "block"):
                add("parsed_ops %s %s %s" % (sz, T, ("%02x" % fill) * big), "big-fill")
            add("extra_parse " + ("%02x" % fill) * big, "big-fill")
        for fill in (0x00, 0x02, 0x01):
            for T in ("tx", "block", "vec_txin", "vec_varint", "bytesvec", "prefix"):
                add("reser %s %s %s" % (sz, T, ("%02x" % fill) * (big if T in ("tx", "block") and fill == 0 else big // 5)), "big-fill")
            add("extra_parse " + ("%02x" % fill) * (big // 4), "big-fill")

        def psyn(T, pre, unit, count, suf, cls, expect):
            add("psyn %s %s %s %s %d %s" % (sz, T, hx(pre), hx(unit), count, hx(suf)), cls + ":" + expect)

        out1 = b"\x01\x02" + b"\x58" + b"\x66" * 31
        # what has to follow a version-2 prefix so that the enclosing object parses: (with inputs, without inputs)
        closing = {"prefix": (b"", b""), "tx": (b"\x00", b""), "block": (b"\x00\x00", b"\x00")}
        for T, pre in (("prefix", b""), ("tx", b""), ("block", hdr)):
            c_in, c_noin = closing[T]
            # long runs of valid tiny elements
            psyn(T, pre + b"\x02\x00" + leb(200000), b"\xff\x01", 200000, b"\x00\x00" + c_in, "big-run-gen", "OK")
            psyn(T, pre + b"\x02\x00" + leb(200000), b"\xff\x01", 199999, b"\x00\x00" + c_in, "big-run-gen-short", "ERR")
            psyn(T, pre + b"\x02\x00\x00" + leb(50000), out1, 50000, b"\x00" + c_noin, "big-run-out", "OK")
            psyn(T, pre + b"\x02\x00\x01\x02\x00" + leb(500000), b"\x01", 500000, b"\x44" * 32 + b"\x00\x00" + c_in, "big-run-ring", "OK")
            psyn(T, pre + b"\x01\x00\x01\x02\x00" + leb(20000), b"\x01", 20000, b"\x44" * 32 + b"\x00\x00", "big-run-ring-v1-nosig",
                 "OK" if T == "prefix" else "ERR")
            psyn(T, pre + b"\x01\x00\x01\x02\x00" + leb(20000) + b"\x01" * 20000 + b"\x44" * 32 + b"\x00\x00", b"\x77" * 64, 20000,
                 b"\x00" if T == "block" else b"", "big-run-ring-v1-sigs", "OK")
            # extras
            if T != "tx":
                continue
            psyn(T, pre + b"\x02\x00\x00\x00" + leb(2 * MiB - 64), b"\x00", 2 * MiB - 64, c_noin, "big-extra-2M-zero", "OK")
            psyn(T, pre + b"\x02\x00\x00\x00" + leb(1 * MiB), b"\x02\x00", MiB // 2, c_noin, "big-extra-1M-nonces", "OK")
            psyn(T, pre + b"\x02\x00\x00\x00" + leb(1 * MiB), b"\x04\x7f", MiB // 2, c_noin, "big-extra-1M-addkeys", "OK")
            psyn(T, pre + b"\x02\x00\x00\x00" + leb(1 * MiB), b"\x01", MiB, c_noin, "big-extra-1M-badpk", "OK")
        psyn("tx", b"\x02\x00\x00\x00" + leb(20 * MiB), b"\x00", 20 * MiB, b"", "big-extra-20M-zero", "OK")
        psyn("tx", b"\x02\x00\x00\x00" + leb(20 * MiB), b"\xde\x7e" + b"\x33" * 126, 20 * MiB // 128, b"", "big-extra-20M-mg", "OK")
        psyn("block", hdr + b"\x02\x00\x00\x00" + leb(20 * MiB), b"\x02\x00", 10 * MiB // 4, b"", "big-extra-20M-short", "ERR")
        psyn("tx", b"\x02\x00\x00\x00" + leb(4 * MiB), b"\x02\x00", 2 * MiB, b"", "big-extra-4M-nonces", "OK")
        psyn("tx", b"\x02\x00\x00\x00" + leb(CAP), b"\x00", CAP, b"", "big-extra-cap", "OK")
        psyn("tx", b"\x02\x00\x00\x00" + leb(CAP + 1), b"\x00", CAP + 1, b"", "big-extra-cap+1", "ERR")
        psyn("block", hdr + b"\x02\x00\x00\x00\x00" + leb(60000), b"\xab" * 32, 60000, b"", "big-block-60k-hashes", "OK")
        psyn("block", hdr + b"\x02\x00\x00\x00\x00" + leb(2 ** 20), b"\xab" * 32, 2 ** 20, b"", "big-block-2^20-hashes", "OK")
        psyn("block", hdr + b"\x02\x00\x00\x00\x00" + leb(2 ** 20 + 1), b"\xab" * 32, 2 ** 20 + 1, b"", "big-block-2^20+1-hashes", "ERR")
        for T, unit, n in (("vec_varint", b"\x01", 100000), ("vec_hash", b"\x22" * 32, 30000), ("vec_txin", b"\xff\x00", 100000),
                           ("vec_txout", out1, 20000), ("bytesvec", b"\x00", 1000000)):
            add("reser %s %s %s" % (sz, T, hx(leb(n) + unit * n)), "big-vec")
            add("reser %s %s %s" % (sz, T, hx(leb(n + 1) + unit * n)), "big-vec")
        add("dec %s vec_varint %s" % (sz, hx(leb(100000) + b"\x01" * 100000)), "big-vec")
        add("dec %s vec_txin %s" % (sz, hx(leb(50000) + b"\xff\x00" * 50000)), "big-vec")

        # ---- (5) random and mutated inputs through the operations on parsed objects
        for k, (T, b, org) in enumerate(seeds):
            budget = (100 if org == "corpus" else 30) * (6 if thorough else 1)
            muts = G.mutations_at_every_offset(b, rng)
            if len(muts) > budget:
                muts = rng.sample(muts, budget)
            for m in muts:
                po(T, m, "mut1-" + T)
            for _ in range(6 if not thorough else 60):
                po(T, G.multi_mutation(b, rng, rng.randint(2, 8)), "mutN-" + T)
        for T in ("tx", "block", "prefix", "header"):
            for _ in range(400 if not thorough else 4000):
                n = rng.choice([0, 1, 2, 3, 5, 9, 33, 34, 40, 70, 120, 300])
                m = bytes(rng.choice([0, 1, 2, 3, 0x7f, 0x80, 0xff, rng.getrandbits(8)]) for _ in range(n))
                po(T, m, "random-" + T)
        for T in codec_types:
            for _ in range(60 if not thorough else 600):
                n = rng.choice([0, 1, 2, 3, 5, 9, 33, 34, 40, 70])
                m = bytes(rng.choice([0, 1, 2, 3, 0x7f, 0x80, 0xff, rng.getrandbits(8)]) for _ in range(n))
                add("reser %s %s %s" % (sz, T, hx(m)), "random-codec")
                add("decs %s %s %s" % (sz, T, hx(m)), "random-codec")

        # ---- (6) text and byte parsers
        self.gen_text(add, rng, thorough)
        # ---- (7) output scanning with arbitrary index ranges
        self.gen_scan(add, seeds, rng, thorough)
        # the expensive cases (megabyte inputs, synthesised runs) are spread evenly over the stream so that the framework's
        # contiguous shards each get a few of them (per-shard wall-clock limit = impl_timeout)
        heavy = [c for c in cs if len(c.line) > 150000 or c.line.startswith("psyn ")]
        light = [c for c in cs if not (len(c.line) > 150000 or c.line.startswith("psyn "))]
        step = max(1, len(light) // (len(heavy) + 1))
        out = []
        for i, c in enumerate(light):
            if i % step == 0 and heavy:
                out.append(heavy.pop())
            out.append(c)
        return out + heavy

    def gen_scan(self, add, seeds, rng, thorough):
        """parsed_scan: Transaction::check_outputs / TransactionPrefix::check_outputs / SubKeyChecker::new + check_outputs_with
        on whatever parses, with empty, reversed, maximal and ordinary sub-address index ranges.  Some transactions are
        built so that outputs ARE found by the harness' fixed view pair (view scalar 1, spend key = base point)."""
        import props.edref as E
        sz = self.sz
        M = 2 ** 32 - 1
        ranges = [(0, 0, 0, 0), (0, 1, 0, 1), (0, 2, 0, 3), (5, 5, 7, 7), (1, 1, 0, 4), (0, 4, 2, 2),          # a..a
                  (3, 1, 5, 2), (3, 1, 0, 2), (0, 2, 5, 2), (1, 0, 1, 0), (M, 0, M, 0), (M - 1, 0, 0, 1),       # reversed
                  (M - 1, M, M - 1, M), (M - 1, M, 0, 2), (0, 2, M - 1, M), (M, M, M, M), (M - 1, M - 1, 0, 1),   # near u32::MAX
                  (0, 1, 0, 64), (7, 9, 100, 110)]
        owned = []
        S = E.B                                            # spend public key of the harness' view pair
        R = E.mul(7, E.B)
        Dv = E.compress(E.mul(8, R))                       # 8 * a * R with a = 1
        def out_key(i, tagged):
            P_i = E.add(E.mul(E.hash_to_scalar(Dv + leb(i)), E.B), S)
            if tagged:
                return b"\x03" + E.compress(P_i) + E.keccak256(b"view_tag" + Dv + leb(i))[:1]
            return b"\x02" + E.compress(P_i)
        extra = b"\x01" + E.compress(R)
        for n_out, tagged in ((1, False), (3, False), (2, True)):
            outs = b"".join(b"\x05" + out_key(i, tagged) for i in range(n_out))
            pre = b"\x01\xff\x09" + leb(n_out) + outs + leb(len(extra)) + extra
            owned.append(("tx", b"\x01\x00" + pre))                                   # version 1, Gen input: no signatures
            owned.append(("tx", b"\x02\x00" + pre + b"\x00"))                         # RingCT type Null
            for t in (4, 5, 6):                                                          # found output + RingCT base: the opening path
                for pk in (E.compress(E.B), b"\x02" + b"\x00" * 31, b"\xff" * 32):
                    base = bytes([t]) + b"\x00" + b"\x11" * (8 * n_out) + pk * n_out
                    if t == 6:
                        pr = b"\x00" + b"\x22" * 96 + b"\x33" * 32
                    else:
                        pr = b"\x00" + b"\x22" * 96 + b"\x33" * 32
                    owned.append(("tx", b"\x02\x00" + pre + base + pr))
            for pk in (E.compress(E.B), b"\xff" * 32):                                   # type Full (64-byte ecdh, MLSAG, range sigs)
                base = b"\x01\x00" + b"\x11" * (64 * n_out) + pk * n_out
                pr = b"\x44" * (6176 * n_out) + b"\x22" * (1 * 2 * 32 + 32)
                owned.append(("tx", b"\x02\x00" + pre + base + pr))
        # extra-field shapes around the additional-key list: fewer / as many / more keys than outputs, an empty list, two lists,
        # the list before the transaction key, no transaction key at all, two transaction keys, a key that is no curve point,
        # a nonce in between, a truncated list, an empty extra
        def addf(keys):
            return b"\x04" + leb(len(keys)) + b"".join(keys)
        owned_x = []
        aks = [E.compress(E.mul(11 + j, E.B)) for j in range(5)]
        pkf = b"\x01" + E.compress(R)
        xs = [pkf + addf(aks[:k]) for k in range(6)] + [addf(aks[:k]) + pkf for k in (0, 1, 3)] + \
             [addf(aks[:1]), addf(aks[:3]), pkf + pkf, pkf + b"\x01" + aks[0], pkf + addf([b"\xff" * 32]), pkf + addf([aks[0], b"\xff" * 32, aks[1]]),
              pkf + b"\x02\x09\x01" + b"\x55" * 8 + addf(aks[:1]), pkf + addf(aks[:1]) + addf(aks[:3]), pkf + addf([]) + addf(aks[:3]),
              pkf + addf(aks[:3])[:-5], pkf + b"\x04\x03" + aks[0], b"", b"\x04", b"\x00" * 7 + pkf]
        for x in xs:
            for n_out, tagged in ((3, False), (2, True), (1, True)):
                outs = b"".join(b"\x05" + out_key(i, tagged) for i in range(n_out))
                pre = b"\x01\xff\x09" + leb(n_out) + outs + leb(len(x)) + x
                owned_x.append(("tx", b"\x01\x00" + pre))
                owned_x.append(("tx", b"\x02\x00" + pre + b"\x05\x00" + b"\x11" * (8 * n_out) + E.compress(E.B) * n_out
                                + b"\x00" + b"\x22" * 96 + b"\x33" * 32))
        # check_view_tag / SubKeyChecker entry points take a position argument of their own: any usize, not only positions of outputs
        for pos in (0, 1, 2 ** 32 - 1, 2 ** 32, 2 ** 49 - 1, 2 ** 49, 2 ** 56 - 1, 2 ** 56, 2 ** 63 - 1, 2 ** 63, 2 ** 64 - 1):
            for tgt in (b"\x03" + E.compress(S) + b"\x55", b"\x02" + E.compress(S), b"\x03" + b"\xff" * 33):
                add("viewtag %s %s %d" % (hx(tgt), hx(E.compress(R)), pos), "position-argument")
            add("subkey_check %s %s 0 2 0 2 %d %s %s" % ("01" + "00" * 31, hx(E.compress(S)), pos, hx(E.compress(S)), hx(E.compress(R))),
                "position-argument")
            add("onetime %s %s %s %d" % (hx(E.compress(S)), "01" + "00" * 31, hx(E.compress(R)), pos), "position-argument")
            add("recover %s %s %s %d 0 1" % ("01" + "00" * 31, "02" + "00" * 31, hx(E.compress(R)), pos), "position-argument")
        self.n_owned = len(owned)
        hdr = b"\x01\x01\x01" + b"\x11" * 32 + b"\x00" * 4
        for T, b in owned:
            for r in ranges:
                add("parsed_scan %s %s %s %d %d %d %d" % ((sz, T, hx(b)) + r), "scan-owned")
            add("parsed_scan %s block %s 0 2 0 2" % (sz, hx(hdr + b + b"\x00")), "scan-owned")
            add("parsed_scan %s prefix %s 0 2 0 2" % (sz, hx(b)), "scan-owned")
            add("parsed_ops %s %s %s" % (sz, T, hx(b)), "scan-owned")
        add("parsed_scan %s tx %s 0 64 0 64" % (sz, hx(owned[1][1])), "scan-owned")
        for T, b in owned_x:
            for r in ((0, 0, 0, 0), (0, 1, 0, 1), (0, 2, 0, 3), (3, 1, 5, 2), (M - 1, M, M - 1, M)):
                add("parsed_scan %s %s %s %d %d %d %d" % ((sz, T, hx(b)) + r), "scan-extra-shapes")
            add("parsed_scan %s prefix %s 0 2 0 2" % (sz, hx(b)), "scan-extra-shapes")
        # corpus / generated objects and their mutations with every range
        k = 0
        for T, b, org in seeds:
            if len(b) > 4000:
                continue
            for r in (ranges if org == "corpus" else rng.sample(ranges, 4)):
                add("parsed_scan %s %s %s %d %d %d %d" % ((sz, T, hx(b)) + r), "scan-seed")
            for _ in range(3 if not thorough else 30):
                m = G.multi_mutation(b, rng, rng.randint(1, 3))
                add("parsed_scan %s %s %s %d %d %d %d" % ((sz, T, hx(m)) + rng.choice(ranges)), "scan-mut")
        for T, b in owned:
            for _ in range(6 if not thorough else 60):
                m = G.multi_mutation(b, rng, rng.randint(1, 2))
                add("parsed_scan %s %s %s %d %d %d %d" % ((sz, T, hx(m)) + rng.choice(ranges)), "scan-mut")

    def gen_text(self, add, rng, thorough):
        L = 100000
        import props.c12 as c12
        # valid samples
        keys = list(c12.REPO_KEYS)
        blobs = []
        for net in ("main", "test", "stage"):
            for kind in ("std", "sub", "int"):
                pid = bytes(range(8)) if kind == "int" else None
                blobs.append(c12.blob_of(net, kind, pid, keys[0], keys[1]))
        texts = [c12.b58_enc(b) for b in blobs] + list(c12.REPO_ADDRS)
        long_texts = [b"1" * L, b"4" * L, b"z" * L, b"0" * L, b"O" * L, b" " * L, b"\x00" * L, b"A" * (L + 1),
                      "é".encode() * (L // 2), "€".encode() * (L // 3), "\U0001F600".encode() * (L // 4),
                      texts[0] * (L // len(texts[0])), texts[0] + b"\x00" * L, b"\x00" + texts[0], texts[0][:50] + b"\x00" + texts[0][51:],
                      texts[0][:40] + "é".encode() + texts[0][41:]]
        junk = []
        for _ in range(150 if not thorough else 1500):
            n = rng.choice([0, 1, 2, 7, 8, 11, 12, 32, 64, 65, 69, 70, 77, 95, 96, 106, 107, 200])
            alphabet = rng.choice([c12.ALPHA, b"0123456789abcdefABCDEF", bytes(range(1, 128)), b"01", b"\x00\xc3\xa9z1"])
            t = bytes(rng.choice(alphabet) for _ in range(n))
            try:
                t.decode("utf-8")
            except UnicodeDecodeError:
                continue
            junk.append(t)
        for t in texts + long_texts + junk:
            add("addr_from_str " + thex(t), "text-addr")
            add("b58_dec " + thex(t), "text-b58")
        for b in blobs:
            add("addr_from_hex " + thex(b.hex()), "text-addr")
            add("addr_from_hex " + thex("0x" + b.hex().upper()), "text-addr")
            add("addr_from_bytes " + hx(b), "bytes-addr")
            add("addr_dec " + hx(leb(len(b)) + b), "bytes-addr")
            for n in range(0, len(b) + 3):
                add("addr_from_bytes " + hx((b + b"\x00\x00")[:n]), "bytes-addr-trunc")
            for net in ("main", "test", "stage"):
                add("atype %s %s" % (net, hx(b)), "bytes-atype")
                for n in (0, 1, 2, 64, 65, 66, 72, 73, 74):
                    add("atype %s %s" % (net, hx(b[:n])), "bytes-atype")
            for v in HUGE_MAIN:
                add("addr_dec " + hx(leb(v) + b), "bytes-addr")
            add("b58_enc " + hx(b), "bytes-b58")
        for t in long_texts + junk:
            add("addr_from_hex " + thex(t), "text-addr")
        for fill in (0x00, 0x13, 0xff):
            big = bytes([fill]) * L
            add("addr_from_bytes " + hx(big), "bytes-big")
            add("addr_dec " + hx(leb(L) + big), "bytes-big")
            add("addr_dec " + hx(big), "bytes-big")
            add("b58_enc " + hx(big[:20000]), "bytes-big")
            for net in ("main", "test", "stage"):
                add("atype %s %s" % (net, hx(big)), "bytes-big")
            for op in ("sk", "pk", "sk_dec", "pk_dec", "varint_dec", "keccak", "subfield_dec", "subfield_decs"):
                add("%s %s" % (op, hx(big)), "bytes-big")
            add("extra_parse " + hx(big), "bytes-big")
        for op in ("extra_parse", "subfield_dec"):
            for tag in (0x01, 0x02, 0x03, 0x04, 0xde):
                for v in HUGE:
                    for tail in (b"", b"\x00" * 40):
                        add("%s %s" % (op, hx(bytes([tag]) + leb(v) + tail)), "extra-hugelen")
                        add("%s %s" % (op, hx(b"\x02\x01\x00" + bytes([tag]) + leb(v) + tail)), "extra-hugelen")
        # keys
        key_texts = [k.hex() for k in keys] + ["0" * 64, "f" * 64, "F" * 64, "0x" + "0" * 64, "00" * 31, "00" * 33, "", "zz" * 32,
                                                  "é" * 32, "\x00" * 64, "0" * 63 + "\x00", "0" * L, "f" * (L + 1), "é" * (L // 2)]
        key_texts += [t.decode() for t in junk[:60]]
        for t in key_texts:
            add("sk_str " + thex(t), "text-key")
            add("pk_str " + thex(t), "text-key")
            for T in ("hash", "hash8", "pid"):
                add("hexparse %s %s" % (T, thex(t)), "text-hash")
        for T, n in (("hash", 32), ("hash8", 8), ("pid", 8)):
            for t in ("ab" * n, "AB" * n, "0x" + "ab" * n, "0X" + "ab" * n, "0x0x" + "ab" * n, "ab" * n + "0", "ab" * (n - 1) + "a", "ab" * (n + 1),
                      "0x", "", "g" * 2 * n, " " + "ab" * n, "ab" * n + "\n", "0x" + "ab" * (L // 2)):
                add("hexparse %s %s" % (T, thex(t)), "text-hash")
        for k in keys:
            for n in (0, 1, 31, 32, 33, 64):
                add("sk " + hx((k + k)[:n]), "bytes-key")
                add("pk " + hx((k + k)[:n]), "bytes-key")
                add("sk_dec " + hx((k + k)[:n]), "bytes-key")
                add("pk_dec " + hx((k + k)[:n]), "bytes-key")
        for _ in range(200 if not thorough else 2000):
            b = bytes(rng.getrandbits(8) for _ in range(32))
            add("sk " + hx(b), "bytes-key")
            add("pk " + hx(b), "bytes-key")
        # amounts
        dens = ["xmr", "millinero", "micronero", "nanonero", "piconero", "with_suffix"]
        amt_texts = ["0", "1", "-1", "1.5", ".", "-", "", "18446744073709551615", "18446744073709551616", "9223372036854775808",
                     "-9223372036854775809", "1 xmr", "1 XMR", "1 µXMR", "1  xmr", "1 piconero", "1 bogus", " 1", "1e5", "+1", "0x10",
                     "1" * 49, "1" * 50, "1" * 51, "0" * 50, "0." + "0" * 47, "0." + "0" * 48, "0." + "0" * 49,
                     "1" * L, "0" * L, "0." + "0" * L, "-" * L, "." * L, "9" * L + " xmr", "1 " + "x" * L, " " * L, "1" + " " * L + "xmr",
                     "é" * 10, "1é", "é" * (L // 2), "1\x00", "\x00", "\x001", "1\x00 xmr", "\x00" * L, "١٢٣", "１２３", "1.５", "1 xmr\x00",
                     "\U0001F600" * 12, "\U0001F600" * 13, "é" * 24, "é" * 25, "é" * 26, "€" * 16, "€" * 17, "1" * 48 + "é", "1" * 49 + "é"]
        # the range boundaries of both amount types, both signs, with the decimal point in every position (so that every
        # denomination sees each magnitude as a whole number of piconero): the sign handling of the extreme value must not
        # overflow in a checked build
        for m in (2 ** 63 - 1, 2 ** 63, 2 ** 63 + 1, 2 ** 64 - 1, 2 ** 64, 10 ** 19):
            ds = str(m)
            for k in (0, 3, 6, 9, 12):
                body = ds if k == 0 else (ds[:-k] + "." + ds[-k:])
                for sign in ("", "-"):
                    amt_texts.append(sign + body)
        for _ in range(150 if not thorough else 1500):
            n = rng.choice([0, 1, 2, 5, 19, 20, 21, 49, 50, 51])
            amt_texts.append("".join(rng.choice("0123456789.- xmrXMR\x00éµ") for _ in range(n)))
        for t in amt_texts:
            for d in (dens if len(t) < 1000 else ("xmr", "with_suffix")):
                for ty in "us":
                    add("amt_parse %s %s %s" % (ty, d, thex(t)), "text-amount")
        den_texts = ["xmr", "XMR", "monero", "millinero", "mXMR", "micronero", "µXMR", "mcXMR", "nanonero", "nXMR", "piconero", "pXMR",
                     "", "Xmr", "xmr ", " xmr", "xmr\x00", "μXMR", "uXMR", "x" * L, "µ" * (L // 2), "\x00" * L, "piconero" * (L // 8)]
        for t in den_texts + amt_texts[:40]:
            add("denom " + thex(t), "text-denom")
        # a multi-byte character straddling EVERY byte offset up to 80 (byte-indexed slicing / truncation of text, e.g. for an error
        # message or a length limit, panics when the cut is not a character boundary), in every text parser
        for k in range(0, 80):
            for ch in ("é", "€", "\U0001F600"):
                t = "a" * k + ch * 12
                for tt in (t, "1" * k + ch * 12):
                    add("denom " + thex(tt), "text-char-boundary")
                    add("amt_parse u with_suffix " + thex("1 " + tt), "text-char-boundary")
                    add("amt_parse s with_suffix " + thex(tt + " xmr"), "text-char-boundary")
                    add("amt_parse u xmr " + thex(tt), "text-char-boundary")
                    add("amt_parse s piconero " + thex("-" + tt), "text-char-boundary")
                add("addr_from_str " + thex(t), "text-char-boundary")
                add("b58_dec " + thex(t), "text-char-boundary")
                add("addr_from_hex " + thex(t), "text-char-boundary")
                add("addr_from_hex " + thex("0x" + t), "text-char-boundary")
                add("sk_str " + thex(t), "text-char-boundary")
                add("pk_str " + thex(t), "text-char-boundary")
                for T in ("hash", "hash8", "pid"):
                    add("hexparse %s %s" % (T, thex(t)), "text-char-boundary")
                    add("hexparse %s %s" % (T, thex("0x" + t)), "text-char-boundary")
        # hashing
        for n in list(range(0, 300)) + [1000, 4096, 20000]:
            add("keccak " + hx(bytes((i * 7 + n) & 0xff for i in range(n))), "bytes-keccak")
        for _ in range(100):
            add("h2s " + hx(bytes(rng.getrandbits(8) for _ in range(32))), "bytes-h2s")
        for b in (b"\x00" * 32, b"\xff" * 32, bytes(range(32))):
            add("h2s " + hx(b), "bytes-h2s")
        for n in (1, 2, 3, 4, 5, 7, 8, 9, 255, 256, 257, 1000):
            add("tree " + hx(b"\x5a" * 32 * n), "bytes-tree")
        # varint
        for b in (b"", b"\x00", b"\x80", b"\x80\x00", b"\xff" * 9 + b"\x01", b"\xff" * 9 + b"\x02", b"\xff" * 10, b"\x80" * 20 + b"\x01"):
            add("varint_dec " + hx(b), "bytes-varint")

    # -------------------------------------------------------------------------------------------- oracle
    @staticmethod
    def input_len(line):
        a = line.split(" ")
        if a[0] == "psyn":
            k = 2 if a[1].startswith("@") else 1
            ln = lambda h: 0 if h == "-" else len(h) // 2
            return ln(a[k + 1]) + ln(a[k + 2]) * int(a[k + 3]) + ln(a[k + 4])
        h = a[-5] if a[0] == "parsed_scan" else a[-1]
        return 0 if h == "-" else len(h) // 2

    @staticmethod
    def bound(op, n):
        if op in PARSED_OPS:
            return A_CONST + B_PARSED * n
        if op in DUMP_OPS:
            return A_CONST + B_DUMP * n
        return A_TEXT + B_TEXT * n

    def oracle(self, case, impl, ctx):
        core, _, pk = impl.partition(" peak=")
        w = core.split(" ")
        if w[0] in ("PANIC", "ABORT", "TIMEOUT", "SIZES-MISMATCH"):
            return "implementation did not return a value or an error: " + w[0]
        if w[0] not in ("OK", "ERR", "PARTIAL", "NONE"):
            return "unexpected result " + core[:80]
        op = case.line.split(" ", 1)[0]
        if pk:
            peak = int(pk)
            n = self.input_len(case.line)
            lim = self.bound(op, n)
            if peak > lim:
                return "peak heap %d bytes exceeds A + B*|input| = %d for |input| = %d (op %s)" % (peak, lim, n, op)
        if op == "psyn":
            exp = case.cls.rsplit(":", 1)[-1]
            if exp in ("OK", "ERR") and w[0] != exp:
                return "expected %s on the synthesised input, implementation says %s" % (exp, w[0])
        return None

    def compare(self, impl, model):
        if model == "SKIP":          # synthesised input above the model evaluator's size limit: oracle only
            return impl in ("OK", "ERR")
        return impl == model

    def neighbours(self, case, rng):
        a = case.line.split(" ")
        if a[0] not in ("parsed_ops", "reser") or a[-1] == "-":
            return []
        b = bytes.fromhex(a[-1])
        if len(b) > 20000:
            return []
        ms = G.mutations_at_every_offset(b, rng)
        if len(ms) > 2000:
            ms = rng.sample(ms, 2000)
        return [Case(" ".join(a[:-1]) + " " + hx(m)) for m in ms]

    def evalA_ok(self, line):
        a = line.split(" ")
        # keys / addresses cost seconds per curve operation under vm_compute; keep the kernel cross-check to the codec and text ops
        return a[0] in ("parsed_ops", "parsed_scan", "reser", "decs", "hexparse", "denom", "amt_parse", "varint_dec", "atype") and len(line) < 1500

    def extra_coverage(self, cases, impl, model):
        out = {"constants": {"A_bytes": A_CONST, "A_text_ops_bytes": A_TEXT, "B_parsed_ops_reser": B_PARSED, "B_dump_ops": B_DUMP, "B_text_ops": B_TEXT,
                             "cap_bytes": CAP, "size_table": getattr(self, "sz", "?")},
               "seeds_corpus_generated": getattr(self, "n_seeds", None), "length_positions_replaced": getattr(self, "n_len_pos", None)}
        for prof in self.profiles:
            stats = {}
            skipped = 0
            for c, r, m in zip(cases, impl[prof], model):
                if m == "SKIP":
                    skipped += 1
                core, _, pk = r.partition(" peak=")
                if not pk:
                    continue
                op = c.line.split(" ", 1)[0]
                grp = "parsed" if op in PARSED_OPS else "dump" if op in DUMP_OPS else "text"
                n, peak = self.input_len(c.line), int(pk)
                st = stats.setdefault(grp, {"cases": 0, "max_peak_bytes": 0, "input_len_at_max_peak": 0,
                                            "A_observed_max_peak_minus_B_n": 0, "cases_with_peak_over_32MiB": 0,
                                            "max_peak_with_input_under_4KiB": 0,
                                            "linear_part_max_ratio": 0.0, "linear_part_ratio_hist": {}, "linear_part_worst_case": ""})
                st["cases"] += 1
                if peak > st["max_peak_bytes"]:
                    st["max_peak_bytes"], st["input_len_at_max_peak"] = peak, n
                B = B_PARSED if grp == "parsed" else B_DUMP if grp == "dump" else B_TEXT
                st["A_observed_max_peak_minus_B_n"] = max(st["A_observed_max_peak_minus_B_n"], peak - B * n)
                if peak > CAP:
                    st["cases_with_peak_over_32MiB"] += 1
                if n < 4096:
                    st["max_peak_with_input_under_4KiB"] = max(st["max_peak_with_input_under_4KiB"], peak)
                elif c.cls.startswith(("big-", "scan-owned", "text-")):
                    # peak / |input| over the classes WITHOUT adversarial declared lengths (long runs of tiny elements, filled
                    # megabytes, big extras, long texts; the generated / corpus objects carry random extras whose sub-fields
                    # declare lengths up to the cap, so they are not counted here): the B of the bound
                    ratio = peak / n
                    if ratio > st["linear_part_max_ratio"]:
                        st["linear_part_max_ratio"], st["linear_part_worst_case"] = round(ratio, 2), c.cls + ": " + c.line[:90]
                    bucket = "<2" if ratio < 2 else "<8" if ratio < 8 else "<32" if ratio < 32 else "<96" if ratio < 96 else "<192" if ratio < 192 else ">=192"
                    st["linear_part_ratio_hist"][bucket] = st["linear_part_ratio_hist"].get(bucket, 0) + 1
            out["peak_" + prof] = stats
            out["model_skipped_big_inputs"] = skipped
        return out


CHECK = C04()
