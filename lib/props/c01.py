# C01 — parsed consensus data re-serialises to exactly the bytes parsed.
# Stream: corpus + model-encoded generated descriptions, each mutated at every offset; op `reser T hex`
# (parse, then serialise the parsed value).  Oracle (on the implementation alone): OK n h  =>  h == input[0..n].
from framework import Check, Case, Infra
import gen_codec as G

COMPONENTS = ["box_u8", "box_hash", "box_varint", "txin", "target", "txout", "prefix", "signature", "rcttype", "header", "bulletproof", "bpplus",
              "vec_txin", "vec_txout", "vec_varint", "vec_hash", "hash", "hash8", "u8", "u32", "bytesvec", "varint"]


def G_varint(n):
    out = bytearray()
    while True:
        b = n & 0x7f
        n >>= 7
        if n:
            out.append(b | 0x80)
        else:
            out.append(b)
            return bytes(out)


class C01(Check):
    pid = "C01"
    rule = ("op reser T hex for T in {tx, block, prefix, header, txin, txout, target, signature, rcttype, bulletproof, bpplus, "
            "rangesig, borosig, key64, vectors, hashes, integers}: (i) every hex literal of the repository's tests as tx/block/prefix/"
            "header, (ii) encodings (by the model) of generated well-formed descriptions over versions 0-3, Gen/ToKey mixes, ring sizes, "
            "all seven RingCT types, (iii) single-site mutation at every offset of (i),(ii) (7 substitutions, non-minimal and overflowing "
            "varint, delete, duplicate, truncate), (iv) seeded multi-site mutation; non-trivial = distinct line; accepted/rejected counted "
            "in model_outcomes")
    level_note = ("theorems about Model/Codec.v for every size table; tie to src/consensus/encode.rs, transaction.rs, ringct.rs, "
                  "block.rs by correspondence on the stream above")
    evalA_sample = 120

    def gen(self, tier, rng):
        thorough = tier == "thorough"
        sz = self.impl_query(["sizes"])[0].split(" ")[1]
        self.sz = sz
        cs = []
        seeds = []          # (type, bytes, class)
        for h in G.corpus_hex():
            b = bytes.fromhex(h)
            for T in ("tx", "block", "prefix", "header"):
                cs.append(Case("reser %s %s %s" % (sz, T, h), "corpus-" + T))
            seeds.append(("tx", b, "corpus"))
            seeds.append(("block", b, "corpus"))
        # generated descriptions, encoded by the model
        descs = []
        shaped = []          # (description, shape) of transactions whose RingCT parts are also fed to the two public
                             # decoders that take their counts from the caller
        shapes = G.grid_shapes()
        rng.shuffle(shapes)
        for sh in shapes[:(120 if not thorough else 300)]:
            d = G.tx_desc(rng, **sh)
            descs.append(("tx", d))
            if sh["version"] != 1 and sh["in_kinds"] and len(shaped) < (60 if not thorough else 200):
                shaped.append((d, sh))
        for sh in G.ring0_shapes():
            descs.append(("tx", G.tx_desc(rng, **sh)))
        for sh in [x for x in G.big_count_shapes() if x["ring"] < 1000 and x.get("lr", (0, 0))[0] < 1000][::3]:
            descs.append(("tx", G.tx_desc(rng, **sh)))
        for _ in range(250 if not thorough else 900):
            descs.append(("tx", G.tx_desc(rng, **G.random_shape(rng, small=True))))
        for _ in range(20 if not thorough else 60):
            descs.append(("tx", G.tx_desc(rng, **G.random_shape(rng, small=False))))
        for n in (0, 1, 2, 3, 127, 128):
            descs.append(("block", G.block_desc(rng, n)))
        # vectors longer than the steps a decoder might grow by (64 KiB of elements: 2048 hashes, 8192 varints, 65536 bytes) and
        # not a multiple of them
        for n in (2047, 2048, 2049, 4097, 5000):
            descs.append(("block", G.block_desc(rng, n)))
        descs.append(("vec_varint", G.lst([[str(k % 251)] for k in range(8193)])))
        descs.append(("vec_varint", G.lst([[str(k % 251)] for k in range(20000)])))
        descs.append(("vec_hash", G.lst([[G.key(rng)] for _ in range(2050)])))
        descs.append(("box_hash", G.lst([[G.key(rng)] for _ in range(3000)])))
        descs.append(("box_u8", [G.hexb(rng, 65537)]))
        descs.append(("box_u8", [G.hexb(rng, 150000)]))
        descs.append(("tx", G.tx_desc(rng, 2, ["gen"], 1, [False], 0, extra_len=70001)))
        descs.append(("tx", G.tx_desc(rng, 1, ["key"], 1100, [False], 0, extra_len=3)))
        for _ in range(10):
            descs.append(("block", G.block_desc(rng, rng.randint(0, 5), G.tx_desc(rng, **G.random_shape(rng)))))
        for _ in range(40):
            descs.append(("txin", G.txin(rng, rng.choice(["gen", "key"]), rng.choice([0, 1, 2, 16, 127, 128]))))
            descs.append(("txout", G.txout(rng, rng.random() < 0.5)))
            descs.append(("header", G.header_desc(rng)))
            descs.append(("bulletproof", G.bulletproof(rng, rng.choice([0, 1, 6]), rng.choice([0, 1, 6]))))
            descs.append(("bpplus", G.bpplus(rng, rng.choice([0, 1, 6]), rng.choice([0, 1, 6]))))
            descs.append(("vec_varint", G.lst([[str(G.interesting_u64(rng))] for _ in range(rng.choice([0, 1, 2, 127, 128]))])))
            descs.append(("vec_hash", G.lst([[G.key(rng)] for _ in range(rng.choice([0, 1, 2, 3]))])))
            descs.append(("box_hash", G.lst([[G.key(rng)] for _ in range(rng.choice([0, 1, 2, 3]))])))
            descs.append(("box_varint", G.lst([[str(G.interesting_u64(rng))] for _ in range(rng.choice([0, 1, 2, 127, 128]))])))
            descs.append(("box_u8", [G.hexb(rng, rng.choice([0, 1, 5, 127, 128, 300]))]))
            descs.append(("prefix", G.tx_desc(rng, **G.random_shape(rng))[:0] or None))
        descs = [d for d in descs if d[1] is not None]
        descs.append(("rangesig", G.rangesig(rng)))
        enc_lines = ["enc %s %s %s" % (sz, T, " ".join(toks)) for T, toks in descs]
        enc = self.ctx.model_many(enc_lines)
        for (T, toks), r in zip(descs, enc):
            w = r.split(" ")
            if w[0] != "OK":
                raise Infra("model cannot encode generated description: %s -> %s" % (" ".join(toks)[:200], r))
            b = b"" if w[1] == "-" else bytes.fromhex(w[1])
            seeds.append((T, b, "generated"))
            if T == "tx":
                # the prefix of a transaction is itself a parsable object
                seeds.append(("prefix", b, "generated-as-prefix"))
        # RctSigBase::consensus_decode(r, inputs, outputs) / RctSigPrunable::consensus_decode(r, type, inputs, outputs, mixin)
        if shaped:
            encs = self.ctx.model_many(["enc %s tx %s" % (sz, " ".join(d)) for d, _ in shaped])
            parts = self.impl_query(["txparts %s %s" % (sz, e.split(" ")[1]) for e in encs])
            for (d, sh), e, pt in zip(shaped, encs, parts):
                b = bytes.fromhex(e.split(" ")[1])
                w = pt.split(" ")
                if w[0] != "OK" or w[4] == "-":
                    continue
                p_, q_ = int(w[2]), int(w[3])
                n_in, n_out, t = len(sh["in_kinds"]), len(sh["out_tagged"]), sh["rct_type"]
                mixin = (sh["ring"] - 1) if sh["in_kinds"][0] == "key" else 0
                base, prun = b[p_:q_], b[q_:]
                for ni, no in ((n_in, n_out), (n_in + 1, n_out), (n_in, n_out + 1), (0, 0), (n_in, 0), (2 ** 20 + 1, n_out),
                               (n_in, 2 ** 20 + 1), (2 ** 40, 2 ** 40)):
                    cs.append(Case("dec_rctbase %s %d %d %s" % (sz, ni, no, base.hex() or "-"), "rctbase-direct"))
                mb = G.mutations_at_every_offset(base, rng)
                for m in rng.sample(mb, min(40, len(mb))):
                    cs.append(Case("dec_rctbase %s %d %d %s" % (sz, n_in, n_out, m.hex() or "-"), "rctbase-direct-mut"))
                if t != 0 and len(prun) < 20000:
                    for ni, no, mx in ((n_in, n_out, mixin), (n_in + 1, n_out, mixin), (n_in, n_out, mixin + 1), (n_in, n_out + 1, mixin),
                                       (0, 0, 0), (n_in, n_out, 2 ** 20), (2 ** 21, n_out, mixin), (1, 1, 2 ** 40)):
                        cs.append(Case("dec_rctprunable %s %d %d %d %d %s" % (sz, t, ni, no, mx, prun.hex() or "-"), "rctprunable-direct"))
                    for tt in range(7):
                        cs.append(Case("dec_rctprunable %s %d %d %d %d %s" % (sz, tt, n_in, n_out, mixin, prun.hex() or "-"),
                                       "rctprunable-direct-othertype"))
                    mm = G.mutations_at_every_offset(prun, rng)
                    for m in rng.sample(mm, min(30, len(mm))):
                        cs.append(Case("dec_rctprunable %s %d %d %d %d %s" % (sz, t, n_in, n_out, mixin, m.hex() or "-"),
                                       "rctprunable-direct-mut"))
        nseed = {}
        for T, b, cls in seeds:
            hx = b.hex() or "-"
            cs.append(Case("reser %s %s %s" % (sz, T, hx), cls + "-" + T))
            if cls.startswith("corpus") and T == "block" and len(b) < 3000:
                continue  # most literals are not blocks; mutate them as tx only (blocks come from the generator)
            # budget: the first seeds of every (type, class) are mutated at (nearly) every offset, the rest sampled
            k = nseed[(T, cls)] = nseed.get((T, cls), 0) + 1
            if cls == "corpus":
                budget = 1500
            elif T in ("tx", "block"):
                budget = 700 if k <= 40 else 40
            elif T == "prefix":
                budget = 300 if k <= 30 else 10
            else:
                budget = 150
            if thorough:
                budget *= 3
            budget = min(budget, max(12, 300000 // max(1, len(b))))      # big objects: a few mutations only
            muts = G.mutations_at_every_offset(b, rng)
            if len(muts) > budget:
                muts = rng.sample(muts, budget)
            for m in muts:
                cs.append(Case("reser %s %s %s" % (sz, T, m.hex() or "-"), "mut1-" + T))
            for _ in range(4 if not thorough else 12):
                m = G.multi_mutation(b, rng, rng.randint(2, 6))
                cs.append(Case("reser %s %s %s" % (sz, T, m.hex() or "-"), "mutN-" + T))
        # vectors of more than 2^16 elements (no mutation, just the exact parse-then-serialise)
        for n in (65536, 65537, 70001):
            body = bytes(rng.getrandbits(8) for _ in range(n))
            cs.append(Case("reser %s bytesvec %s" % (sz, (G_varint(n) + body).hex()), "vec-over-2^16"))
            cs.append(Case("reser %s box_u8 %s" % (sz, (G_varint(n) + body).hex()), "vec-over-2^16"))
        cs.append(Case("reser %s vec_varint %s" % (sz, (G_varint(65537) + bytes([i % 128 for i in range(65537)])).hex()), "vec-over-2^16"))
        # structural dump comparison on the seeds (model dump = implementation dump)
        for T, b, cls in seeds:
            cs.append(Case("dec %s %s %s" % (sz, T, b.hex() or "-"), "dump-" + T))
        # every component type on short arbitrary strings
        for T in COMPONENTS:
            for _ in range(150 if not thorough else 600):
                n = rng.choice([0, 1, 2, 3, 5, 9, 33, 34, 40, 70])
                m = bytes(rng.choice([0, 1, 2, 3, 0x7f, 0x80, 0xff, rng.getrandbits(8)]) for _ in range(n))
                cs.append(Case("reser %s %s %s" % (sz, T, m.hex() or "-"), "short-" + T))
        # de-duplicate, keep order
        seen = set()
        out = []
        for c in cs:
            if c.line not in seen:
                seen.add(c.line)
                out.append(c)
        return out

    def oracle(self, case, impl, ctx):
        w = impl.split(" ")
        if w[0] in ("PANIC", "ABORT", "TIMEOUT", "SIZES-MISMATCH"):
            return "implementation did not return a value or an error: " + w[0]
        a = case.line.split(" ")
        if a[0] in ("dec_rctbase", "dec_rctprunable") and w[0] == "OK":
            inp = "" if a[-1] == "-" else a[-1]
            n = int(w[1])
            out = "" if w[2] == "-" else w[2]
            if out != inp[:2 * n] or 2 * n > len(inp):
                return "%s consumed %d bytes but the parsed value serialises to different bytes" % (a[0], n)
            return None
        if a[0] == "reser" and w[0] == "OK":
            inp = "" if a[3] == "-" else a[3]
            n = int(w[1])
            out = "" if w[2] == "-" else w[2]
            if out != inp[:2 * n] or 2 * n > len(inp):
                return ("parse consumed %d bytes but the parsed value serialises to different bytes "
                        "(first difference at byte %d)" % (n, next((i // 2 for i in range(0, max(len(out), 2 * n), 2)
                                                                     if out[i:i + 2] != inp[:2 * n][i:i + 2]), -1)))
        return None

    def neighbours(self, case, rng):
        a = case.line.split(" ")
        if a[0] != "reser" or a[3] == "-":
            return []
        b = bytes.fromhex(a[3])
        ms = G.mutations_at_every_offset(b, rng)
        if len(ms) > 3000:
            ms = rng.sample(ms, 3000)
        return [Case("reser %s %s %s" % (a[1], a[2], m.hex() or "-")) for m in ms]


CHECK = C01()
