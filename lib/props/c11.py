# C11 — subaddress keys follow Monero's derivation on both the secret and the public side.
# Correspondence stream + DIRECT oracle: the independent python Ed25519/Keccak (props/edref.py) recomputes
# m, s', v', S', V' from the definition, checks s'G = S', v'G = V', the (0,0) special case, the address record,
# and that distinct indices of one wallet give distinct spend keys.
from framework import Case
from props import edref as ed
from props.curve_common import CurveCheck, hx, le, P, L

IDX = [0, 1, 2, 18, 0xff, 0x100, 0xffff, 0x10000, 2**32 - 1]
NETS = ["none", "main", "test", "stage"]


class C11(CurveCheck):
    pid = "C11"
    profiles = ("release", "dev")      # dev = overflow checks and debug assertions on (index / position arithmetic)
    rule = ("subaddr (all seven functions of cryptonote::subaddress on one wallet/index): indices "
            "{0,1,2,18,0xff,0x100,0xffff,0x10000,2^32-1}^2 (both zero / exactly one zero / small / byte boundaries / u32::MAX) "
            "x random wallets (plus the wallet of the crate's own test, and scalars 0, 1, l-1), network argument cycling "
            "through None/Mainnet/Testnet/Stagenet, plus random indices; non-trivial = distinct case line")
    level_note = ("scalar / byte-layout / zero-index / address-record theorems are unconditional facts about the Gallina model "
                  "(Model/Subaddr.v); theorems relating keys through the curve hold for EVERY group satisfying the EdLaws record "
                  "(_partial) - that curve25519-dalek's / the executable model's arithmetic is such a group is NOT proved, it is "
                  "checked by computation (model = implementation = independent python reference on every case). Distinctness of "
                  "subaddress keys is proved GIVEN distinct scalars mod l (collision resistance of Hs is not assumed). The address "
                  "TEXT belongs to C12; here the record fields (network, type, spend, view) are compared. Evaluator A (coqc vm_compute) "
                  "re-evaluates one subaddr case per run (two in the thorough tier), no uniform sample")
    evalA_lines = ("subaddr %s %s 0 0 none" % (le(1).hex(), le(1).hex()),)
    evalA_lines_thorough = ("subaddr %s %s 0 1 main" % (le(1).hex(), le(1).hex()),)

    def gen_cases(self, tier, rng):
        q = tier == "quick"
        self._seen = {}
        cs = []
        tv = "77916d0cd56ed1920aef6ca56d8a41bac915b68e4c46a589e0956e27a7b77404"
        ts = "8163466f1883598e6dd14027b8da727057165da91485834314f5500a65846f09"
        cs.append(Case("subaddr %s %s 2 18 main" % (tv, ts), "corpus"))
        cs.append(Case("subaddr %s %s 0 0 none" % (le(1).hex(), le(1).hex()), "corpus"))
        cs.append(Case("subaddr %s %s 0 1 main" % (le(1).hex(), le(1).hex()), "corpus"))
        wallets = [(tv, ts)]
        for _ in range(2 if q else 12):
            wallets.append((le(rng.randrange(L)).hex(), le(rng.randrange(L)).hex()))
        k = 0
        for (v, s) in wallets:
            for i in IDX:
                for j in IDX:
                    cls = "both-zero" if (i, j) == (0, 0) else "one-zero" if 0 in (i, j) else \
                        "u32-max" if 2**32 - 1 in (i, j) else "boundary" if max(i, j) > 18 else "small"
                    cs.append(Case("subaddr %s %s %d %d %s" % (v, s, i, j, NETS[k % 4]), cls))
                    k += 1
        # the same non-zero index derived for DIFFERENT wallets back to back (index-major order): a derivation must depend on the
        # wallet of THIS call only, whatever was derived just before on the same thread
        for (i, j) in ((1, 0), (0, 1), (2, 18), (0xff, 0x100), (2**32 - 1, 1)):
            for rep in range(2):
                for (v, s) in wallets + wallets[::-1]:
                    cs.append(Case("subaddr %s %s %d %d %s" % (v, s, i, j, NETS[(k + rep) % 4]), "index-major-order"))
                    k += 1
        # wallets that share the view key but not the spend key (and the other way round), same index, back to back: a result
        # remembered under (view key, index) alone - the inputs of m - must not stand in for s + m or S + m*G
        for rep in range(3 if q else 20):
            v1, v2, s1, s2 = (le(rng.randrange(L)).hex() for _ in range(4))
            for (i, j) in ((1, 0), (0, 1), (3, 7)):
                for (v, s) in ((v1, s1), (v1, s2), (v1, s1), (v2, s1), (v1, s1)):
                    cs.append(Case("subaddr %s %s %d %d %s" % (v, s, i, j, NETS[k % 4]), "shared-view-or-spend-key"))
                k += 1
        # structured scalars (limb patterns) as view and spend secrets, every network choice incl. the default
        SS = ed.structured_scalars(rng)
        for kk, a in enumerate(SS if not q else SS[::4]):
            b_ = SS[(11 * kk + 5) % len(SS)]
            for (i, j) in ((0, 1), (1, 0), (0, 0)):
                cs.append(Case("subaddr %s %s %d %d %s" % (le(a).hex(), le(b_).hex(), i, j, NETS[kk % 4]),
                               "structured-scalars"))
        # edge scalars
        for v, s in ((0, 0), (1, 1), (L - 1, L - 1), (0, L - 1), (L - 1, 1)):
            for (i, j) in ((0, 0), (0, 1), (1, 0), (2**32 - 1, 2**32 - 1)):
                cs.append(Case("subaddr %s %s %d %d %s" % (le(v).hex(), le(s).hex(), i, j, NETS[k % 4]), "edge-scalar"))
                k += 1
        for _ in range(40 if q else 800):
            v, s = rng.choice(wallets)
            cs.append(Case("subaddr %s %s %d %d %s" % (v, s, rng.getrandbits(rng.choice([1, 8, 16, 32])),
                                                      rng.getrandbits(rng.choice([1, 8, 16, 32])), rng.choice(NETS)), "random"))
        cs.append(Case("subaddr %s %s 1 1 main" % (le(L).hex(), ts), "rejected-operand"))
        return cs

    def oracle(self, case, impl, ctx):
        w = case.line.split(" ")
        r = impl.split(" ")
        if r[0] in ("PANIC", "ABORT", "TIMEOUT"):
            return "implementation did not return: " + r[0]
        vb, sb, i, j, net = bytes.fromhex(w[1]), bytes.fromhex(w[2]), int(w[3]), int(w[4]), w[5]
        v, s = int.from_bytes(vb, "little"), int.from_bytes(sb, "little")
        if v >= L or s >= L:
            return None if impl == "ERR" else "operand must be rejected, got " + impl
        S = ed.mul(s, ed.B)
        m = ed.hash_to_scalar(b"SubAddr\x00" + vb + i.to_bytes(4, "little") + j.to_bytes(4, "little"))
        if (i, j) == (0, 0):
            s1, v1, S1, V1 = s, v, S, ed.mul(v, ed.B)
        else:
            s1 = (s + m) % L
            v1 = v * s1 % L
            S1 = ed.add(S, ed.mul(m, ed.B))
            V1 = ed.mul(v, S1)
        if ed.mul(s1, ed.B) != S1 or ed.mul(v1, ed.B) != V1:
            return "reference inconsistent: secret side does not match public side"
        xS, xV = hx(ed.compress(S1)), hx(ed.compress(V1))
        want = "OK %s %s %s %s %s %s %s %s %s sub %s %s" % (
            hx(le(m)), hx(le(s1)), hx(le(v1)), hx(le(v1)), hx(le(s1)), xS, xV, xS,
            "main" if net == "none" else net, xS, xV)
        if impl != want:
            return "subaddress derivation: reference demands %s, implementation returned %s" % (want, impl)
        if not hasattr(self, "_seen"):
            self._seen = {}
        seen = self._seen.setdefault((w[1], w[2]), {})
        other = seen.setdefault(r[6], (i, j))
        if other != (i, j):
            return "indices %s and %s of one wallet give the same spend key %s" % (other, (i, j), r[6])
        return None

    def neighbours(self, case, rng):
        w = case.line.split(" ")
        out = []
        for i in IDX:
            out.append(Case("subaddr %s %s %d %s %s" % (w[1], w[2], i, w[4], w[5])))
            out.append(Case("subaddr %s %s %s %d %s" % (w[1], w[2], w[3], i, w[5])))
        for n in NETS:
            out.append(Case("subaddr %s %s %s %s %s" % (w[1], w[2], w[3], w[4], n)))
        return out


CHECK = C11()
