# C03 — wire layout is Monero's.  The oracle is Spec/Wire.v (field lists of the reference serialisers, pinned to real
# data by Proofs/WireKAT.v) evaluated by the model driver: op `spec T <description>`.
#   enc: implementation bytes of the described value == spec bytes
#   dec: implementation parse of the spec bytes == the description
from framework import Check, Case, Infra
import gen_codec as G


class C03(Check):
    pid = "C03"
    rule = ("descriptions: the full grid 7 RingCT types x ring sizes {1,2,11,16} x (inputs,outputs) shapes x {all key inputs, first "
            "input coinbase}, version-1 shapes with rings, plus seeded random shapes (versions 0..3) and blocks with 0..128 hashes; "
            "for each: (enc) lib_serialise(build d) vs spec_bytes(d), (dec) lib_parse(spec_bytes d) vs d; BulletproofPlus/Bulletproof "
            "counts 0,1,2,3,127,128,129,255,256 included; non-trivial = distinct description")
    level_note = ("spec Spec/Wire.v is hand-written from the reference layout and pinned by 19 real objects (Proofs/WireKAT.v); "
                  "theorems relate it to Model/Codec.v; the implementation is tied by this correspondence")
    evalA_sample = 40

    def gen(self, tier, rng):
        thorough = tier == "thorough"
        sz = self.impl_query(["sizes"])[0].split(" ")[1]
        descs = []
        for sh in G.grid_shapes():
            descs.append(("tx", G.tx_desc(rng, **sh), "grid-type%d-v%d" % (sh["rct_type"], sh["version"])))
        for t in (3, 4, 5, 6):
            for n in (0, 1, 2, 3, 127, 128, 129, 255, 256):
                descs.append(("tx", G.tx_desc(rng, 2, ["key"], 2, [False], t, n_proofs=n, lr=(0, 0)), "proofcount-type%d" % t))
        for sh in G.ring0_shapes():
            if G.shape_is_wf(sh):
                descs.append(("tx", G.tx_desc(rng, **sh), "empty-ring"))
        for sh in G.big_count_shapes():
            descs.append(("tx", G.tx_desc(rng, **sh), "big-count"))
        descs.append(("tx", G.tx_desc(rng, 2, ["gen"], 1, [False], 0, extra_len=65537), "over-2^16"))
        if thorough:
            descs.append(("tx", G.tx_desc(rng, 1, ["key"], 65537, [True], 0, extra_len=0), "over-2^16"))
            descs.append(("block", G.block_desc(rng, 65537), "over-2^16"))
        if thorough:
            descs.append(("block", G.block_desc(rng, 16384), "block-16384-hashes"))
        else:
            descs.append(("block", G.block_desc(rng, 300), "block-300-hashes"))
        for _ in range(800 if not thorough else 12000):
            sh = G.random_shape(rng, small=True)
            descs.append(("tx", G.tx_desc(rng, **sh), "random-type%d" % sh["rct_type"]))
        for _ in range(40 if not thorough else 600):
            descs.append(("tx", G.tx_desc(rng, **G.random_shape(rng, small=False)), "random-large"))
        for n in (0, 1, 2, 127, 128, 129):
            descs.append(("block", G.block_desc(rng, n), "block"))
        for _ in range(30 if not thorough else 300):
            descs.append(("block", G.block_desc(rng, rng.randint(0, 5), G.tx_desc(rng, **G.random_shape(rng))), "block"))
        for _ in range(50):
            descs.append(("header", G.header_desc(rng), "header"))
        spec = self.ctx.model_many(["spec %s %s" % (T, " ".join(t)) for T, t, _ in descs])
        cs = []
        self.expect = {}
        for (T, toks, cls), s in zip(descs, spec):
            w = s.split(" ")
            if w[0] != "OK":
                raise Infra("spec cannot render a generated description: " + s[:100])
            d = " ".join(toks)
            e = Case("enc %s %s %s" % (sz, T, d), "enc-" + cls)
            self.expect[e.line] = ("enc", w[1])
            cs.append(e)
            p = Case("dec %s %s %s" % (sz, T, w[1]), "dec-" + cls)
            self.expect[p.line] = ("dec", d, len(w[1]) // 2 if w[1] != "-" else 0)
            cs.append(p)
        seen, out = set(), []
        for c in cs:
            if c.line not in seen:
                seen.add(c.line)
                out.append(c)
        return out

    def oracle(self, case, impl, ctx):
        w = impl.split(" ")
        if w[0] in ("PANIC", "ABORT", "TIMEOUT", "SIZES-MISMATCH"):
            return "implementation did not return: " + w[0]
        exp = self.expect.get(case.line)
        if exp is None:
            return None
        if exp[0] == "enc":
            if w[0] != "OK" or w[1] != exp[1]:
                got = w[1] if len(w) > 1 else impl
                k = next((i // 2 for i in range(0, max(len(got), len(exp[1])), 2) if got[i:i + 2] != exp[1][i:i + 2]), -1)
                return "library serialisation differs from the Monero layout at byte %d (lib %d bytes, spec %d bytes)" % (
                    k, len(got) // 2, len(exp[1]) // 2)
        else:
            want = "OK %d %s" % (exp[2], exp[1])
            if impl != want:
                return "library parse of the specification's bytes is not the described structure: %s" % impl[:120]
        return None


CHECK = C03()
