# C19 — serde (JSON) representations round-trip.
# Stream: values in the token form of coq/Model/Show.v (generator lib/gen_codec.py), addresses, indices, amounts.
# Oracle, written independently of the crate and of the Coq model:
#   * `json T x`       : the implementation's text must be json.loads-equal to python's own construction of the expected
#                        JSON from the tokens (mapping below, written from serde's documented conventions) AND byte-equal to
#                        python's compact dump of it;
#   * `json_rt T x`    : from_str(to_string(x)) == x, i.e. `OK 1`  (addresses built by hand from keys that are not valid
#                        points print but are refused on reading: `ERR`, that is C12's acceptance rule, not a round trip);
#   * `json_amt ..`    : as_pico writes the integer, as_xmr the exact 12-decimal string (python integer arithmetic); what
#                        comes back is the same amount, except that monero strings above 2^63-1 in magnitude are refused
#                        (the limit of C15); a sequence comes back iff every element does;
#   * `json_str s`     : the JSON text of a string is python's own (json.dumps, ensure_ascii=False: the same escape table);
#   * `json_addr_bad s`: the JSON string s is an Address iff python's own base58 + blob parser (lib/props/c12.py) accepts it;
#   * `json_de T j`    : (a) the implementation's own text, re-read by python and handed over as JSON tokens, must give back
#                        the value (this is also how the MODEL's reader is tied to serde_json's output); (b) members
#                        re-ordered at every level / unknown members added: still the same value; (c) other mutations
#                        (dropped, duplicated, renamed members, wrong types, out-of-range numbers, positional form, enum
#                        shapes): correspondence only (the model must be exactly as strict as serde's derive).
import json
import framework
from framework import Check, Case, Infra
import gen_codec as G
from props import c12 as A

RCTN = ["Null", "Full", "Simple", "Bulletproof", "Bulletproof2", "Clsag", "BulletproofPlus"]


# ------------------------------------------------------------------ tokens -> expected JSON (python objects)
class R:
    def __init__(self, toks):
        self.t, self.i = toks, 0

    def w(self):
        x = self.t[self.i]
        self.i += 1
        return x

    def n(self):
        return int(self.w())

    def b(self):
        h = self.w()
        return [] if h == "-" else list(bytes.fromhex(h))

    def lst(self, f):
        return [f(self) for _ in range(self.n())]


def j_n(r):
    return r.n()


def j_b(r):
    return r.b()


def j_key(r):
    return {"key": r.b()}


def j_ctkey(r):
    return {"mask": {"key": r.b()}}


def j_key64(r):
    b = r.b()
    assert len(b) == 2048
    return {"keys": [{"key": b[i:i + 32]} for i in range(0, 2048, 32)]}


def j_txin(r):
    w = r.w()
    if w == "gen":
        return {"Gen": {"height": r.n()}}
    assert w == "key"
    return {"ToKey": {"amount": r.n(), "key_offsets": r.lst(j_n), "k_image": {"image": r.b()}}}


def j_target(r):
    w = r.w()
    if w == "tk":
        return {"ToKey": {"key": r.b()}}
    assert w == "tt"
    return {"ToTaggedKey": {"key": r.b(), "view_tag": r.n()}}


def j_txout(r):
    return {"amount": r.n(), "target": j_target(r)}


def j_prefix(r):
    return {"version": r.n(), "unlock_time": r.n(), "inputs": r.lst(j_txin), "outputs": r.lst(j_txout), "extra": r.b()}


def j_sig(r):
    return {"c": j_key(r), "r": j_key(r)}


def j_rcttype(r):
    return RCTN[r.n()]


def j_ecdh(r):
    w = r.w()
    if w == "es":
        return {"Standard": {"mask": j_key(r), "amount": j_key(r)}}
    assert w == "eb"
    return {"Bulletproof": {"amount": r.b()}}


def j_boro(r):
    return {"s0": j_key64(r), "s1": j_key64(r), "ee": j_key(r)}


def j_rangesig(r):
    return {"asig": j_boro(r), "Ci": j_key64(r)}


def j_mgsig(r):
    return {"ss": r.lst(lambda r: r.lst(j_key)), "cc": j_key(r)}


def j_clsag(r):
    return {"s": r.lst(j_key), "c1": j_key(r), "D": j_key(r)}


def j_bp(r):
    d = {}
    for k in ("A", "S", "T1", "T2", "taux", "mu"):
        d[k] = j_key(r)
    d["L"] = r.lst(j_key)
    d["R"] = r.lst(j_key)
    for k in ("a", "b", "t"):
        d[k] = j_key(r)
    return d


def j_bpp(r):
    d = {}
    for k in ("A", "A1", "B", "r1", "s1", "d1"):
        d[k] = j_key(r)
    d["L"] = r.lst(j_key)
    d["R"] = r.lst(j_key)
    return d


def j_rct_base(r):
    return {"rct_type": j_rcttype(r), "txn_fee": r.n(), "pseudo_outs": r.lst(j_key), "ecdh_info": r.lst(j_ecdh),
            "out_pk": r.lst(j_ctkey)}


def j_rct_prunable(r):
    return {"range_sigs": r.lst(j_rangesig), "bulletproofs": r.lst(j_bp), "bulletproofplus": r.lst(j_bpp),
            "MGs": r.lst(j_mgsig), "Clsags": r.lst(j_clsag), "pseudo_outs": r.lst(j_key)}


def j_rct_sig(r):
    w = r.w()
    if w == "none":
        return {"sig": None, "p": None}
    assert w == "base"
    b = j_rct_base(r)
    w = r.w()
    if w == "pnone":
        return {"sig": b, "p": None}
    assert w == "p"
    return {"sig": b, "p": j_rct_prunable(r)}


def j_tx(r):
    return {"prefix": j_prefix(r), "signatures": r.lst(lambda r: r.lst(j_sig)), "rct_signatures": j_rct_sig(r)}


def j_header(r):
    return {"major_version": r.n(), "minor_version": r.n(), "timestamp": r.n(), "prev_id": r.b(), "nonce": r.n()}


def j_block(r):
    return {"header": j_header(r), "miner_tx": j_tx(r), "tx_hashes": r.lst(j_b)}


def j_index(r):
    return {"major": r.n(), "minor": r.n()}


def addr_fields(toks):
    net, t, spend, view = toks
    kind, pid = (("int", bytes.fromhex(t[4:])) if t.startswith("int:") else (t, b""))
    return net, kind, pid, bytes.fromhex(spend), bytes.fromhex(view)


def j_address(r):
    toks = [r.w(), r.w(), r.w(), r.w()]
    return A.b58_enc(A.blob_of(*addr_fields(toks))).decode()


PY = {"varint": j_n, "u8": j_n, "u32": j_n, "hash": j_b, "hash8": j_b, "key": j_key, "ctkey": j_ctkey, "key64": j_key64,
      "bytesvec": j_b, "txin": j_txin, "target": j_target, "txout": j_txout, "prefix": j_prefix, "signature": j_sig,
      "rcttype": j_rcttype, "ecdh": j_ecdh, "borosig": j_boro, "rangesig": j_rangesig, "mgsig": j_mgsig, "clsag": j_clsag,
      "bulletproof": j_bp, "bpplus": j_bpp, "rct_base": j_rct_base, "rct_prunable": j_rct_prunable, "rct_sig": j_rct_sig,
      "tx": j_tx, "header": j_header, "block": j_block, "index": j_index, "address": j_address}


def expected_json(T, toks):
    r = R(toks)
    v = PY[T](r)
    assert r.i == len(toks), "generator produced a malformed description for " + T
    return v


def compact(v):
    return json.dumps(v, separators=(",", ":"), ensure_ascii=False)


# ------------------------------------------------------------------ JSON values in token form (for json_de)
class Obj(list):
    """a JSON object as a list of [key, value] pairs (order and duplicates matter to the reader)"""


def to_pairs(v):
    if isinstance(v, dict):
        return Obj([k, to_pairs(x)] for k, x in v.items())
    if isinstance(v, list):
        return [to_pairs(x) for x in v]
    return v


def jtoks(v, out=None):
    out = [] if out is None else out
    if v is None:
        out.append("n")
    elif v is True:
        out.append("t")
    elif v is False:
        out.append("f")
    elif isinstance(v, int):
        out.append("i%d" % v)
    elif isinstance(v, str):
        out.append("s" + (v.encode().hex() or "-"))
    elif isinstance(v, Obj):
        out.append("o%d" % len(v))
        for k, x in v:
            out.append("s" + (k.encode().hex() or "-"))
            jtoks(x, out)
    elif isinstance(v, list):
        out.append("a%d" % len(v))
        for x in v:
            jtoks(x, out)
    else:
        raise Infra("not a JSON value: %r" % (v,))
    return out


def nodes(v, path=()):
    """paths of all nodes; a path is a tuple of indices (into pairs / elements)"""
    yield path, v
    if isinstance(v, Obj):
        for i, (k, x) in enumerate(v):
            yield from nodes(x, path + (i,))
    elif isinstance(v, list):
        for i, x in enumerate(v):
            yield from nodes(x, path + (i,))


def replace_at(v, path, f):
    """copy of v with the node at path replaced by f(node)"""
    if not path:
        return f(v)
    i = path[0]
    if isinstance(v, Obj):
        return Obj([k, replace_at(x, path[1:], f)] if j == i else [k, x] for j, (k, x) in enumerate(v))
    return [replace_at(x, path[1:], f) if j == i else x for j, x in enumerate(v)]


def reorder_all(v, rng):
    if isinstance(v, Obj):
        l = [[k, reorder_all(x, rng)] for k, x in v]
        rng.shuffle(l)
        return Obj(l)
    if isinstance(v, list):
        return [reorder_all(x, rng) for x in v]
    return v


def add_unknown_all(v, rng, is_enum_shape):
    """add a member no struct has, in every object that is a struct (not in the one-member objects that select a variant)"""
    if isinstance(v, Obj):
        l = [[k, add_unknown_all(x, rng, is_enum_shape)] for k, x in v]
        if not (len(v) == 1 and v[0][0] in is_enum_shape):
            l.insert(rng.randint(0, len(l)), ["zz_unknown", rng.choice([None, 1, "x", [], Obj()])])
        return Obj(l)
    if isinstance(v, list):
        return [add_unknown_all(x, rng, is_enum_shape) for x in v]
    return v


VARIANT_NAMES = {"Gen", "ToKey", "ToTaggedKey", "Standard", "Bulletproof"}
SCALARS = [None, True, 0, 1, 255, 256, -1, 2 ** 32 - 1, 2 ** 32, 2 ** 63, 2 ** 64 - 1, 2 ** 64, -2 ** 63, -2 ** 63 - 1, "1", "", "Null"]


def mutate(v, rng):
    """one structural mutation; returns (class, value)"""
    ns = list(nodes(v))
    objs = [(p, x) for p, x in ns if isinstance(x, Obj)]
    arrs = [(p, x) for p, x in ns if isinstance(x, list) and not isinstance(x, Obj)]
    leaves = [(p, x) for p, x in ns if not isinstance(x, list)]
    c = rng.random()
    if objs and c < 0.55:
        p, o = rng.choice(objs)
        m = rng.choice(["drop", "dup", "dup-end", "unknown", "rename", "positional", "second", "value"])
        if m == "drop" and o:
            i = rng.randrange(len(o))
            return "drop-member", replace_at(v, p, lambda o: Obj(x for j, x in enumerate(o) if j != i))
        if m == "dup" and o:
            i = rng.randrange(len(o))
            return "dup-member", replace_at(v, p, lambda o: Obj(list(o[:i + 1]) + [o[i]] + list(o[i + 1:])))
        if m == "dup-end" and o:
            i = rng.randrange(len(o))
            return "dup-member", replace_at(v, p, lambda o: Obj(list(o) + [[o[i][0], rng.choice([None, 0, o[i][1]])]]))
        if m == "unknown":
            return "unknown-member", replace_at(v, p, lambda o: Obj(list(o) + [["nonce2", rng.choice(SCALARS)]]))
        if m == "rename" and o:
            i = rng.randrange(len(o))
            nk = rng.choice([o[i][0].lower(), o[i][0].upper(), o[i][0] + "_", "", "key", "amount"])
            return "rename-member", replace_at(v, p, lambda o: Obj([nk, x] if j == i else [k, x] for j, (k, x) in enumerate(o)))
        if m == "positional":
            k = rng.choice([0, 0, 0, 1, -1])
            def pos(o):
                l = [x for _, x in o]
                return l + [None] if k == 1 else (l[:-1] if k == -1 and l else l)
            return "positional-form", replace_at(v, p, pos)
        if m == "second":
            return "second-member", replace_at(v, p, lambda o: Obj(list(o) + [[rng.choice(["Gen", "ToKey", "Null", "p"]), None]]))
        return "member-value", replace_at(v, p, lambda o: rng.choice([None, [], Obj(), 0, "ToKey"]))
    if arrs and c < 0.75:
        p, a = rng.choice(arrs)
        m = rng.choice(["shorter", "longer", "empty", "scalar"])
        if m == "shorter" and a:
            return "array-shorter", replace_at(v, p, lambda a: a[:-1])
        if m == "longer":
            return "array-longer", replace_at(v, p, lambda a: a + [a[0] if a else 0])
        if m == "empty":
            return "array-empty", replace_at(v, p, lambda a: [])
        return "array-to-scalar", replace_at(v, p, lambda a: rng.choice([None, 0, "", Obj()]))
    if not leaves:
        return "scalar", rng.choice(SCALARS)
    p, x = rng.choice(leaves)
    if isinstance(x, str) and rng.random() < 0.5:
        alt = rng.choice([Obj([[x, None]]), Obj([[x, Obj()]]), Obj([[x, 0]]), x.lower(), x + "2", "Clsag", "Gen"])
        return "variant-shape", replace_at(v, p, lambda _: alt)
    y = rng.choice(SCALARS)
    return "scalar", replace_at(v, p, lambda _: y)


# ------------------------------------------------------------------ amounts
U64, I64MAX = 2 ** 64 - 1, 2 ** 63 - 1


def xmr_text(a):
    s, m = ("-", -a) if a < 0 else ("", a)
    return "%s%d.%012d" % (s, m // 10 ** 12, m % 10 ** 12)


def amt_expected(line):
    w = line.split(" ")
    sg, kind, args = w[1], w[2], w[3:]
    base = kind.split("_")[0]

    def js(a):
        return a if base == "pico" else xmr_text(a)

    def back_ok(a):
        return True if base == "pico" else abs(a) <= I64MAX

    if kind in ("pico", "xmr"):
        a = int(args[0])
        return compact({"v": js(a)}), (str(a) if back_ok(a) else "ERR")
    if kind in ("pico_opt", "xmr_opt"):
        if args[0] == "none":
            return compact({"v": None}), "none"
        a = int(args[0])
        return compact({"v": js(a)}), (str(a) if back_ok(a) else "ERR")
    l = [int(x) for x in args]
    return compact({"v": [js(a) for a in l]}), (" ".join([str(len(l))] + [str(a) for a in l]) if all(back_ok(a) for a in l) else "ERR")


def addr_bad_expected(s):
    d = A.b58_dec(s)
    r = None if d is None else A.parse_blob(d)
    if r is None:
        return "ERR"
    net, t, spend, view = r
    return "OK %s %s %s %s" % (net, t, spend.hex(), view.hex())


class C19(Check):
    pid = "C19"
    rule = ("ops json / json_rt on values in token form: transactions over the C03 grid (7 RingCT types x ring sizes x in/out "
            "counts, v1) and seeded random shapes (versions 0-3, Gen/ToKey mixes), blocks, headers, prefixes, txin/txout/target, "
            "every RingCT record on its own (key, ctkey, key64, ecdh, borosig, rangesig, mgsig, clsag, bulletproof, bpplus, "
            "rct_base, rct_prunable, rct_sig), hashes, varint/u8/u32 boundaries, subaddress indices, addresses (9 network x type "
            "x valid key pairs; hand-built addresses with invalid keys as the refusing class); json_amt: as_pico/as_xmr plain, opt, "
            "slice/vec for Amount {0,1,10^12-1,10^12,2^63-1,2^63,2^64-1,random} and SignedAmount {0,+-1,+-(2^63-1),-2^63,random}; "
            "json_str: every character U+0000..U+00FF, UTF-8 length boundaries, random strings rich in controls, quote, backslash; "
            "json_addr_bad: valid texts, one-character changes, truncation/extension, foreign characters, escapes, invalid keys "
            "under a correct checksum; json_de: the implementation's own output re-read (python json.loads -> JSON tokens), "
            "members re-ordered / unknown members added at every level, and single structural mutations (dropped, duplicated, "
            "renamed member, positional form, enum shapes, wrong type, out-of-range number, array length).  non-trivial = "
            "distinct case line")
    level_note = ("theorems are about the Gallina data model Model/Json.v (serde, serde_derive, serde_json, serde-big-array, "
                  "fixed-hash's and curve25519-dalek's serde impls are MODELLED, not verified); the tie to the derives and to "
                  "src/util/amount.rs `mod serde`, src/util/address.rs `mod serde_impl` is the correspondence check: byte "
                  "equality of serde_json::to_string with the model's printer, and agreement of from_str with the model's "
                  "reader on accepted and on mutated JSON values; JSON TEXT parsing is serde_json's / python's, not modelled")
    evalA_sample = 150

    def __init__(self):
        self.expect = {}       # line -> exact expected implementation result
        self.expect_json = {}  # line -> (T, toks)
        self.costly = set()    # lines whose model evaluation reaches an Ed25519 key test

    # ---------------------------------------------------------------- generator
    def gen(self, tier, rng):
        thorough = tier == "thorough"
        cs, seen = [], set()

        def add(line, cls, expect=None, costly=False):
            if line in seen:
                return
            seen.add(line)
            cs.append(Case(line, cls))
            if expect is not None:
                self.expect[line] = expect
            if costly:
                self.costly.add(line)

        values = []      # (T, toks, class)

        # ---- transactions, blocks, components
        shapes = G.grid_shapes()
        rng.shuffle(shapes)
        for sh in shapes[:(90 if not thorough else len(shapes))]:
            values.append(("tx", G.tx_desc(rng, **sh), "tx-grid"))
        for _ in range(160 if not thorough else 3000):
            values.append(("tx", G.tx_desc(rng, **G.random_shape(rng, small=True)), "tx-random"))
        for _ in range(6 if not thorough else 100):
            values.append(("tx", G.tx_desc(rng, **G.random_shape(rng, small=False)), "tx-random-large"))
        for n in (0, 1, 2, 3, 127, 128):
            values.append(("block", G.block_desc(rng, n), "block"))
        for _ in range(12 if not thorough else 200):
            values.append(("block", G.block_desc(rng, rng.randint(0, 5), G.tx_desc(rng, **G.random_shape(rng))), "block"))
        # prefix and rct_sig cut out of transactions
        for T, toks, cls in list(values):
            if T != "tx" or rng.random() > 0.5:
                continue
            r = R(toks)
            j_prefix(r)
            k = r.i
            r.lst(lambda r: r.lst(j_sig))
            values.append(("prefix", toks[:k], "prefix"))
            rct = toks[r.i:]
            values.append(("rct_sig", rct, "rct_sig"))
            if rct[0] == "base":
                r2 = R(rct)
                r2.w()
                j_rct_base(r2)
                values.append(("rct_base", rct[1:r2.i], "rct_base"))
                if rct[r2.i] == "p":
                    values.append(("rct_prunable", rct[r2.i + 1:], "rct_prunable"))
        for _ in range(60 if not thorough else 1500):
            values.append(("txin", G.txin(rng, rng.choice(["gen", "key"]), rng.choice([0, 1, 2, 16, 127, 128])), "txin"))
            values.append(("txout", G.txout(rng, rng.random() < 0.5), "txout"))
            values.append(("target", G.txout(rng, rng.random() < 0.5)[1:], "target"))
            values.append(("header", G.header_desc(rng), "header"))
            values.append(("signature", G.signature(rng), "signature"))
            values.append(("key", [G.key(rng)], "key"))
            values.append(("ctkey", [G.key(rng)], "ctkey"))
            values.append(("hash", [G.key(rng)], "hash"))
            values.append(("hash8", [G.hexb(rng, 8)], "hash8"))
            values.append(("ecdh", rng.choice([["es", G.key(rng), G.key(rng)], ["eb", G.hexb(rng, 8)]]), "ecdh"))
            values.append(("bytesvec", [G.hexb(rng, rng.choice([0, 1, 2, 33, 127, 128, 255, 256]))], "bytesvec"))
            values.append(("index", [str(rng.choice([0, 1, 2 ** 32 - 1, rng.getrandbits(32)])),
                                     str(rng.choice([0, 1, 2 ** 32 - 1, rng.getrandbits(32)]))], "index"))
        for _ in range(20 if not thorough else 300):
            lr = (rng.choice([0, 1, 6, 7]), rng.choice([0, 1, 6, 7]))
            values.append(("bulletproof", G.bulletproof(rng, *lr), "bulletproof"))
            values.append(("bpplus", G.bpplus(rng, *lr), "bpplus"))
            n = rng.choice([0, 1, 2, 11])
            values.append(("clsag", G.lst([[G.key(rng)] for _ in range(n)]) + [G.key(rng), G.key(rng)], "clsag"))
            rows, cols = rng.choice([0, 1, 2, 11]), rng.choice([0, 1, 2, 3])
            values.append(("mgsig", G.lst([G.lst([[G.key(rng)] for _ in range(cols)]) for _ in range(rows)]) + [G.key(rng)],
                           "mgsig"))
        for _ in range(3 if not thorough else 30):
            values.append(("rangesig", G.rangesig(rng), "rangesig"))
            values.append(("borosig", G.rangesig(rng)[:3], "borosig"))
            values.append(("key64", [G.hexb(rng, 2048)], "key64"))
        values.append(("key64", ["00" * 2048], "key64"))
        values.append(("key64", ["".join("%02x" % (i % 256) for i in range(2048))], "key64"))
        for t in range(7):
            values.append(("rcttype", [str(t)], "rcttype"))
        for T, top in (("varint", 64), ("u32", 32), ("u8", 8)):
            for v in {0, 1, 2, 127, 128, 255, 2 ** 31, 2 ** 32 - 1, 2 ** 53, 2 ** 53 + 1, 2 ** 63 - 1, 2 ** 63, 2 ** 64 - 1}:
                if v < 2 ** top:
                    values.append((T, [str(v)], T))
            values.append((T, [str(2 ** top - 1)], T))
            for _ in range(10):
                values.append((T, [str(rng.getrandbits(top))], T))
        values.append(("index", ["0", "0"], "index"))
        values.append(("index", [str(2 ** 32 - 1), str(2 ** 32 - 1)], "index"))

        # ---- addresses: 9 (network, type) x valid key pairs
        keys = list(A.REPO_KEYS) + [k for k in A.SPECIAL_KEYS if A.pk_valid(k)]
        keys += [A.random_key(rng) for _ in range(4 if not thorough else 60)]
        addr_values = []
        for net in ("main", "test", "stage"):
            for kind in ("std", "sub", "int"):
                for _ in range(3 if not thorough else 30):
                    t = kind if kind != "int" else "int:" + rng.choice(["0000000000000000", "ffffffffffffffff", G.hexb(rng, 8)])
                    addr_values.append([net, t, rng.choice(keys).hex(), rng.choice(keys).hex()])
        addr_values.append(["main", "std", A.REPO_KEYS[0].hex(), A.REPO_KEYS[1].hex()])
        # one field varied at a time, back to back: same keys / other payment id, same payment id / other key, other network, type
        for rep in range(2 if not thorough else 20):
            s0, v0, s1, v1 = (rng.choice(keys).hex() for _ in range(4))
            p0, p1 = G.hexb(rng, 8), G.hexb(rng, 8)
            n0 = rng.choice(["main", "test", "stage"])
            n1 = rng.choice([n for n in ("main", "test", "stage") if n != n0])
            for (net, t, s_, v_) in ((n0, "int:" + p0, s0, v0), (n0, "int:" + p1, s0, v0), (n0, "int:" + p0, s0, v0),
                                     (n0, "int:" + p0, s1, v0), (n0, "int:" + p0, s0, v1), (n1, "int:" + p0, s0, v0),
                                     (n0, "std", s0, v0), (n0, "sub", s0, v0), (n0, "int:" + p0, s0, v0),
                                     (n0, "int:0000000000000000", s0, v0)):
                addr_values.append([net, t, s_, v_])
        bad_keys = [k for k in A.SPECIAL_KEYS if not A.pk_valid(k)] + [A.random_key(rng, valid=False) for _ in range(3)]

        # ---- json + json_rt
        for T, toks, cls in values:
            a = " ".join(toks)
            add("json %s %s" % (T, a), "json/" + cls)
            self.expect_json["json %s %s" % (T, a)] = (T, toks)
            add("json_rt %s %s" % (T, a), "rt/" + cls, expect="OK 1")
        for toks in addr_values:
            a = " ".join(toks)
            add("json address " + a, "json/address")
            self.expect_json["json address " + a] = ("address", toks)
            add("json_rt address " + a, "rt/address", expect="OK 1", costly=True)
        for i, bk in enumerate(bad_keys):
            good = rng.choice(keys).hex()
            toks = [rng.choice(["main", "test", "stage"]), rng.choice(["std", "sub", "int:0102030405060708"])] + \
                ([bk.hex(), good] if i % 2 else [good, bk.hex()])
            a = " ".join(toks)
            add("json address " + a, "json/address-invalid-key")
            self.expect_json["json address " + a] = ("address", toks)
            add("json_rt address " + a, "rt/address-invalid-key", expect="ERR", costly=True)

        # ---- amounts through the helper modules
        us = [0, 1, 9, 10, 10 ** 12 - 1, 10 ** 12, 10 ** 12 + 1, I64MAX - 1, I64MAX, I64MAX + 1, U64 - 1, U64,
              10 ** 19, 123456789012345678]
        us += [rng.getrandbits(rng.choice([8, 20, 40, 50, 63, 64])) for _ in range(40 if not thorough else 2000)]
        ss = [0, 1, -1, 10 ** 12, -10 ** 12, 10 ** 12 - 1, -(10 ** 12 - 1), I64MAX, -I64MAX, -I64MAX - 1, I64MAX - 1, -I64MAX + 1]
        ss += [rng.getrandbits(rng.choice([8, 20, 40, 50, 63])) * rng.choice([1, -1]) for _ in range(40 if not thorough else 2000)]
        for sg, vals in (("u", us), ("s", ss)):
            for base in ("pico", "xmr"):
                for a in vals:
                    add("json_amt %s %s %d" % (sg, base, a), "amt/%s-%s" % (sg, base))
                    add("json_amt %s %s_opt %d" % (sg, base, a), "amt/%s-%s-opt" % (sg, base))
                add("json_amt %s %s_opt none" % (sg, base), "amt/%s-%s-opt" % (sg, base))
                add("json_amt %s %s_vec" % (sg, base), "amt/%s-%s-vec" % (sg, base))
                for a in vals[:14]:
                    add("json_amt %s %s_vec %d" % (sg, base, a), "amt/%s-%s-vec" % (sg, base))
                small = [a for a in vals if abs(a) <= I64MAX]
                for _ in range(30 if not thorough else 500):
                    n = rng.choice([2, 3, 5, 17])
                    pool = small if rng.random() < 0.7 else vals
                    add("json_amt %s %s_vec %s" % (sg, base, " ".join(str(rng.choice(pool)) for _ in range(n))),
                        "amt/%s-%s-vec" % (sg, base))

        # long amount sequences (a reader that pre-sizes from a capped size hint, a fixed buffer): 1023 .. 1025, 4097, 65537
        for sg in ("u", "s"):
            for base in ("pico", "xmr"):
                for n in (255, 256, 257, 1023, 1024, 1025, 4097) + ((65537,) if thorough else ()):
                    add("json_amt %s %s_vec %s" % (sg, base, " ".join(str((7 * k + n) % 1000003) for k in range(n))),
                        "amt/%s-%s-vec-long" % (sg, base))

        # ---- address strings
        texts = [A.b58_enc(A.blob_of(*addr_fields(t))) for t in addr_values[:12]] + list(A.REPO_ADDRS)
        for s in texts:
            add("json_addr_bad " + s.hex(), "addr-text/valid", costly=True)
        for s in texts[:6]:
            for i in sorted(rng.sample(range(len(s)), 6)):
                c = A.ALPHA[(A.ALPHA.index(s[i]) + 1) % 58]
                add("json_addr_bad " + (s[:i] + bytes([c]) + s[i + 1:]).hex(), "addr-text/one-char", costly=True)
                add("json_addr_bad " + (s[:i] + rng.choice([b"0", b"O", b"I", b"l", b" ", b"\"", b"\\", b"\n", b"\xc3\xa9"]) +
                                        s[i + 1:]).hex(), "addr-text/foreign-char")
            for m in (s + b"\n", s + b"\r\n", s + b"\r", b"\n" + s, s + b"\t", s[:-1], s[:-11], s[:11], s + b"1", s + s[:11], b" " + s, s + b" ", s.lower(), s[1:], b"", s + b"\x00",
                      b"\"" + s + b"\"", s[:40] + b"\xff" + s[41:]):
                add("json_addr_bad " + (m.hex() or "-"), "addr-text/length-or-foreign", costly=len(m) >= 95)
        # a block of the base58 text re-spelt as value + 256^n (same residue; the last, short block can always be)
        for t in addr_values[:9]:
            for alt in A.block_respellings(A.blob_of(*addr_fields(t)))[-3:]:
                add("json_addr_bad " + alt.hex(), "addr-text/block-overflow-respelling", costly=True)
        # other spellings of the SAME address that the crate can parse elsewhere (Address::from_hex) must not be accepted as
        # the JSON form: hex of the blob, 0x-prefixed, upper case
        for t in addr_values[:6]:
            blob = A.blob_of(*addr_fields(t))
            for m in (blob.hex().encode(), b"0x" + blob.hex().encode(), blob.hex().upper().encode(), b"0X" + blob.hex().encode()):
                add("json_addr_bad " + m.hex(), "addr-text/hex-spelling", costly=True)
        for bk in bad_keys:
            good = rng.choice(keys)
            for net, kind in (("main", "std"), ("stage", "sub"), ("test", "int")):
                for sp, vw in ((bk, good), (good, bk)):
                    s = A.b58_enc(A.blob_of(net, kind, b"\x01" * 8, sp, vw))
                    add("json_addr_bad " + s.hex(), "addr-text/invalid-key-correct-checksum", costly=True)
        # an unknown tag / wrong length under a correct checksum
        for body in (bytes([17]) + keys[0] + keys[1], bytes([18]) + keys[0] + keys[1] + b"\x00", bytes([19]) + keys[0] + keys[1]):
            add("json_addr_bad " + A.b58_enc(A.with_checksum(body)).hex(), "addr-text/tag-or-length", costly=True)
        for line in [c.line for c in cs if c.line.startswith("json_addr_bad ")]:
            self.expect[line] = addr_bad_expected(A.unhx(line.split(" ")[1]))

        # ---- the printer's string escapes (never needed by the values above: tied separately)
        for cp in list(range(0, 0x100)) + [0x2028, 0x2029, 0xfeff, 0xfffd, 0x1f600, 0x10ffff, 0x7ff, 0x800, 0xffff, 0x10000]:
            add("json_str " + chr(cp).encode().hex(), "str/single-char")
        add("json_str -", "str/empty")
        add("json_str " + "".join(chr(c) for c in range(0x30)).encode().hex(), "str/all-controls")
        for _ in range(150 if not thorough else 3000):
            n = rng.randint(1, 40)
            t = "".join(chr(rng.choice([rng.randrange(0x20), 0x22, 0x5c, 0x2f, 0x7f, rng.randrange(0x20, 0x7f), rng.randrange(0x80, 0x800),
                                        rng.randrange(0x800, 0xd800), rng.randrange(0x10000, 0x110000)])) for _ in range(n))
            add("json_str " + t.encode().hex(), "str/random")

        # ---- json_de: the implementation's own text re-read, re-ordered, with unknown members; structural mutations
        small = [(T, toks, cls) for T, toks, cls in values if sum(len(t) for t in toks) < 6000]
        rng.shuffle(small)
        reread = small[:(400 if not thorough else 6000)] + [("address", t, "address") for t in addr_values[:10]]
        texts = self.impl_query(["json %s %s" % (T, " ".join(toks)) for T, toks, _ in reread])
        for (T, toks, cls), r in zip(reread, texts):
            w = r.split(" ")
            if w[0] != "OK":
                continue          # reported by the oracle on the `json` case itself
            try:
                v = to_pairs(json.loads(A.unhx(w[1]).decode()))
            except Exception:
                continue
            exp = "OK " + " ".join(toks)
            costly = T == "address"
            add("json_de %s %s" % (T, " ".join(jtoks(v))), "de/reread-" + cls, expect=exp, costly=costly)
            if costly:
                continue
            add("json_de %s %s" % (T, " ".join(jtoks(reorder_all(v, rng)))), "de/reordered", expect=exp)
            add("json_de %s %s" % (T, " ".join(jtoks(add_unknown_all(v, rng, VARIANT_NAMES)))), "de/unknown-members", expect=exp)
            if len(toks) < 60:
                for _ in range(4 if not thorough else 12):
                    c, m = mutate(v, rng)
                    add("json_de %s %s" % (T, " ".join(jtoks(m))), "de-mut/" + c)
        # hand-written shapes of the enum / option conventions
        for T, v, exp in (
                ("rcttype", Obj([["Null", None]]), "OK 0"), ("rcttype", "Clsag", "OK 5"), ("rcttype", Obj([["Clsag", 0]]), "ERR"),
                ("rcttype", "clsag", "ERR"), ("rcttype", Obj(), "ERR"), ("rcttype", 5, "ERR"),
                ("rct_sig", Obj(), "OK none"), ("rct_sig", [None, None], "OK none"), ("rct_sig", [None], "ERR"),
                ("rct_sig", Obj([["sig", None]]), "OK none"), ("rct_sig", Obj([["p", None], ["sig", None]]), "OK none"),
                ("txin", "Gen", "ERR"), ("txin", Obj([["Gen", Obj([["height", 5]])]]), "OK gen 5"),
                ("txin", Obj([["Gen", [5]]]), "OK gen 5"), ("txin", Obj([["Gen", Obj([["height", 5]])], ["x", None]]), "ERR"),
                ("txin", Obj([["Gen", Obj([["height", 5], ["height", 5]])]]), "ERR"),
                ("txin", Obj([["Gen", Obj([["height", 2 ** 64]])]]), "ERR"), ("txin", Obj([["gen", Obj([["height", 5]])]]), "ERR"),
                ("index", [1, 2], "OK 1 2"), ("index", [1, 2, 3], "ERR"), ("index", Obj([["major", 1]]), "ERR"),
                ("index", Obj([["major", 1], ["minor", 2 ** 32]]), "ERR"), ("index", Obj([["minor", 2], ["major", 1]]), "OK 1 2"),
                ("u8", 255, "OK 255"), ("u8", 256, "ERR"), ("u8", -1, "ERR"), ("u8", "1", "ERR"), ("u8", None, "ERR"),
                ("varint", 2 ** 64 - 1, "OK %d" % (2 ** 64 - 1)), ("varint", 2 ** 64, "ERR"), ("varint", [1], "ERR"),
                ("hash8", [1] * 8, "OK 0101010101010101"), ("hash8", [1] * 7, "ERR"), ("hash8", [1] * 9, "ERR"),
                ("hash8", [1] * 7 + [256], "ERR"), ("bytesvec", [], "OK -"), ("bytesvec", [0, 255], "OK 00ff")):
            add("json_de %s %s" % (T, " ".join(jtoks(v))), "de/conventions", expect=exp)
        return cs

    def evalA_ok(self, line):
        return line not in self.costly

    # ---------------------------------------------------------------- oracle
    def oracle(self, case, impl, ctx):
        w = impl.split(" ")
        if w[0] in ("PANIC", "ABORT", "TIMEOUT"):
            return "implementation did not return a value or an error: " + w[0]
        line = case.line
        op = line.split(" ", 1)[0]
        if op == "json":
            T, toks = self.expect_json[line]
            if w[0] != "OK":
                return "serialising a %s failed: %s" % (T, impl[:100])
            text = A.unhx(w[1])
            want = expected_json(T, toks)
            try:
                got = json.loads(text.decode())
            except Exception as e:
                return "to_string produced text that is not JSON: %s" % e
            if got != want:
                return "JSON of the %s differs from the expected representation: %s vs %s" % (T, text[:200], compact(want)[:200])
            if text != compact(want).encode():
                return "JSON text of the %s is not the compact form in declaration order: %s" % (T, text[:200])
            return None
        if op == "json_str":
            t = A.unhx(line.split(" ")[1]).decode()
            want = json.dumps(t, ensure_ascii=False).encode()
            if w[0] != "OK" or A.unhx(w[1]) != want:
                return "string %r written as %s, expected %r" % (t, impl[:100], want)
            return None
        if op == "json_amt":
            text, back = amt_expected(line)
            if w[0] != "OK" or A.unhx(w[1]) != text.encode():
                return "amount helper wrote %s, expected %s" % (impl[:160], text[:160])
            if " ".join(w[2:]) != back:
                return "amount helper read back %s from %s, expected %s" % (" ".join(w[2:])[:100], text[:100], back[:100])
            return None
        exp = self.expect.get(line)
        if exp is not None and impl != exp:
            return "%s: implementation %s, required %s" % (line[:120], impl[:200], exp[:200])
        return None

    def neighbours(self, case, rng):
        w = case.line.split(" ")
        out = []
        if w[0] == "json" and w[1] != "address":
            out.append(Case("json_rt " + " ".join(w[1:])))
        if w[0] == "json_amt" and len(w) == 4 and w[3] != "none":
            a = int(w[3])
            lo, hi = (0, U64) if w[1] == "u" else (-I64MAX - 1, I64MAX)
            for d in (-2, -1, 1, 2):
                if lo <= a + d <= hi:
                    out.append(Case("json_amt %s %s %d" % (w[1], w[2], a + d)))
        return out

    # ---------------------------------------------------------------- evaluator A on a few key-testing cases
    def extra_coverage(self, cases, impl, model):
        if not cases or not model:
            return {}
        costly = [i for i, c in enumerate(cases) if c.line in self.costly and
                  (c.line.startswith("json_rt address") and self.expect.get(c.line) == "OK 1")][:3]
        bad = framework.run_evalA([(cases[i].line, model[i]) for i in costly], "C19-keys", shard=1)
        if bad:
            raise Infra("evaluators A and B disagree on %r" % cases[costly[bad[0]]].line[:300])
        return {"evaluatorA_key_testing_cases": len(costly),
                "evaluatorA_sampling": "uniform sample of the cases that do not reach an Ed25519 key test (and are shorter "
                                       "than 4000 characters) + %d address round trips, one coqc each" % len(costly)}


CHECK = C19()
