# C10 — key derivation is cofactor-cleared Diffie-Hellman for every curve point.
# Correspondence stream + DIRECT oracle: the independent python Ed25519/Keccak (props/edref.py) recomputes
# 8*(a*B), checks it equals (8a mod l)*B' for the prime-order component B' of B, and rebuilds one-time keys.
from framework import Case
from props import edref as ed
from props.curve_common import CurveCheck, hx, le, rand_point, P, L

ONE = le(1).hex()
T1 = "c7176a703d4dd84fba3c0b760d10670f2a2053fa2c39ccc64ec7fd7792ac037a"
# k = 1 (mod l), k = 0 (mod 8): multiplication by k projects onto the prime-order subgroup
PROJ = 8 * pow(8, L - 2, L)
assert PROJ % L == 1 and PROJ % 8 == 0


class C10(CurveCheck):
    pid = "C10"
    profiles = ("release", "dev")      # dev = overflow checks and debug assertions on (index / position arithmetic)
    rule = ("derive (KeyGenerator::from_key(..).rv and from_random(..).rv): scalars {0,1,2,7,8,l-1,l-2,(l-1)/2,random} x "
            "points B'+T for ALL eight small-order points T (B' random prime-order), the eight pure torsion points, "
            "G and random prime-order points; onetime (one_time_key, get_rvn_scalar, check, P - Hs*G) for output indices "
            "{0,1,127,128,255,256,16383,16384,2^32,2^64-1,random} with spend keys with and without torsion component; "
            "sendrecv (sender from_random(vG,S,r) vs receiver from_key((v,S),rG)) on random wallets; "
            "non-trivial = distinct case line")
    level_note = ("theorems are about the Gallina model (Model/Derive.v, the source as it is after the fix: commit "
                  "'key derivation clears the cofactor on the point') and hold for EVERY group satisfying the EdLaws record "
                  "(_partial); that curve25519-dalek's / the executable model's arithmetic is such a group is NOT proved, "
                  "it is checked by computation: model = implementation = independent python reference on every case. "
                  "Evaluator A (coqc vm_compute) re-evaluates one derive case per run (two in the thorough tier; >= 25 s per scalar multiplication), no uniform sample")
    evalA_lines = ("derive %s %s" % (ONE, T1),)
    evalA_lines_thorough = ("derive %s %s" % (le(2).hex(), ed.compress(ed.B).hex()),)

    def gen_cases(self, tier, rng):
        q = tier == "quick"
        cs = []
        T = ed.torsion_points()
        G = ed.compress(ed.B)
        # corpus: the vector of onetime_key.rs tests (view key, spend key from its secret, tx pubkey, index 1)
        cs.append(Case("derive %s %s" % (ONE, T1), "corpus"))
        cs.append(Case("derive %s %s" % (le(2).hex(), G.hex()), "corpus"))
        cs.append(Case("onetime %s bcfdda53205318e1c14fa0ddca1a45df363bb427972981d0249d0f4652a7df07 "
                       "5d1402db663eda8cef4f6782b66321e4a990f746aca249c973e098ba2c0837c1 1"
                       % hx(ed.compress(ed.mul(int.from_bytes(bytes.fromhex(
                           "e5f4301d32f3bdaef814a835a18aaaa24b13cc76cf01a832a7852faf9322e907"), "little"), ed.B))), "corpus"))
        fixed = [0, 1, 2, 7, 8, L - 1, L - 2, (L - 1) // 2, (L + 1) // 8 if (L + 1) % 8 == 0 else (L + 3) // 8]

        def scalars(n):
            return fixed + [rng.randrange(L) for _ in range(n)]
        # every scalar class x every torsion offset
        for rep in range(3 if q else 12):
            Bp = rand_point(rng)
            for a in scalars(2):
                for i, t in enumerate(T):
                    cs.append(Case("derive %s %s" % (hx(le(a)), hx(ed.compress(ed.add(Bp, t)))), "derive:B'+T%d" % i))
        for a in scalars(3):
            for i, t in enumerate(T):
                cs.append(Case("derive %s %s" % (hx(le(a)), hx(ed.compress(t))), "derive:pure-torsion"))
            cs.append(Case("derive %s %s" % (hx(le(a)), hx(G)), "derive:basepoint"))
        for _ in range(30 if q else 500):
            cs.append(Case("derive %s %s" % (hx(le(rng.randrange(L))), hx(ed.compress(rand_point(rng)))),
                           "derive:prime-order"))
        # structured scalars (limb patterns) and keys whose y is next to the field prime or next to zero
        XY = ed.extreme_y_points()
        SS = ed.structured_scalars(rng)
        for k, a in enumerate(SS if not q else SS[::3]):
            cs.append(Case("derive %s %s" % (hx(le(a)), hx(ed.compress(rand_point(rng)) if k % 3 else XY[k % len(XY)])), "derive:structured-scalar"))
        for k, B_ in enumerate(XY):
            for a in (1, 8, rng.randrange(L), SS[(7 * k) % len(SS)]):
                cs.append(Case("derive %s %s" % (hx(le(a)), hx(B_)), "derive:extreme-y-key"))
            cs.append(Case("onetime %s %s %s %d" % (hx(XY[(k + 1) % len(XY)]), hx(le(rng.randrange(1, L))), hx(B_), k), "onetime:extreme-y-key"))
            cs.append(Case("sendrecv %s %s %s %d" % (hx(le(rng.randrange(1, L))), hx(le(rng.randrange(1, L))), hx(B_), k), "sendrecv:extreme-y-key"))
        # rejected operands
        cs.append(Case("derive %s %s" % (hx(le(L)), hx(G)), "derive:rejected"))
        cs.append(Case("derive %s %s" % (ONE, hx(le(1 | (1 << 255)))), "derive:rejected"))
        cs.append(Case("derive %s %s" % (ONE, hx(le(P + 1))), "derive:rejected"))
        cs.append(Case("derive %s %s" % (ONE, hx(le(2))), "derive:rejected"))
        # one-time keys
        idxs = [0, 1, 127, 128, 255, 256, 16383, 16384, 2**32, 2**64 - 1]
        for _ in range(6 if q else 40):
            a = rng.randrange(L)
            S = rand_point(rng, T if rng.getrandbits(1) else None)
            B = rand_point(rng, T if rng.getrandbits(1) else None)
            for i in idxs + [rng.getrandbits(rng.choice([7, 14, 21, 32, 64]))]:
                cs.append(Case("onetime %s %s %s %d" % (hx(ed.compress(S)), hx(le(a)), hx(ed.compress(B)), i), "onetime"))
        # degenerate shared secrets: the transaction key is one of the eight small-order points (8*(a*T) is the neutral element for
        # every a) or the view scalar is 0; the one-time key is still Hs(O || n)*G + S and must be recognised like any other
        for t in T:
            for a in (1, 2, L - 1, rng.randrange(L)):
                S = rand_point(rng, T if rng.getrandbits(1) else None)
                for i in (0, 1, 128, rng.getrandbits(16)):
                    cs.append(Case("onetime %s %s %s %d" % (hx(ed.compress(S)), hx(le(a)), hx(ed.compress(t)), i), "onetime:small-order-tx-key"))
        for t in T:
            cs.append(Case("onetime %s %s %s %d" % (hx(ed.compress(t)), hx(le(rng.randrange(L))), hx(ed.compress(rand_point(rng))), 3),
                           "onetime:small-order-spend-key"))
        for i in (0, 5, 300):
            cs.append(Case("onetime %s %s %s %d" % (hx(ed.compress(rand_point(rng))), hx(le(0)), hx(ed.compress(rand_point(rng))), i),
                           "onetime:zero-view-scalar"))
            cs.append(Case("sendrecv %s %s %s %d" % (hx(le(0)), hx(le(rng.randrange(L))), hx(ed.compress(rand_point(rng))), i), "sendrecv:zero-tx-secret"))
            cs.append(Case("sendrecv %s %s %s %d" % (hx(le(rng.randrange(L))), hx(le(0)), hx(ed.compress(rand_point(rng))), i), "sendrecv:zero-view-secret"))
        # consecutive calls that share all arguments but one (a derivation remembered under the transaction key alone, or under
        # the scalar alone, shows here)
        for _ in range(8 if q else 60):
            a1, a2 = rng.randrange(1, L), rng.randrange(1, L)
            B1, B2 = ed.compress(rand_point(rng)), ed.compress(rand_point(rng))
            S1, S2 = ed.compress(rand_point(rng)), ed.compress(rand_point(rng))
            for (a, B) in ((a1, B1), (a2, B1), (a1, B1), (a1, B2), (a1, B1)):
                cs.append(Case("derive %s %s" % (hx(le(a)), hx(B)), "derive:shared-args"))
            i = rng.choice([0, 1, 300])
            for (S, a, B, j) in ((S1, a1, B1, i), (S1, a2, B1, i), (S1, a1, B1, i), (S2, a1, B1, i), (S1, a1, B1, i), (S1, a1, B2, i),
                                 (S1, a1, B1, i), (S1, a1, B1, i + 1), (S1, a1, B1, i)):
                cs.append(Case("onetime %s %s %s %d" % (hx(S), hx(le(a)), hx(B), j), "onetime:shared-args"))
        for _ in range(60 if q else 500):
            r, v = rng.choice([1, L - 1, rng.randrange(L), rng.randrange(L)]), rng.choice([1, rng.randrange(L)])
            S = rand_point(rng, T if rng.random() < 0.3 else None)
            cs.append(Case("sendrecv %s %s %s %d" % (hx(le(r)), hx(le(v)), hx(ed.compress(S)),
                                                    rng.choice(idxs + [rng.getrandbits(16)])), "sendrecv"))
        return cs

    def oracle(self, case, impl, ctx):
        w = case.line.split(" ")
        r = impl.split(" ")
        if r[0] in ("PANIC", "ABORT", "TIMEOUT"):
            return "implementation did not return: " + r[0]
        if w[0] == "derive":
            a, Bb = bytes.fromhex(w[1]), bytes.fromhex(w[2])
            B = ed.decompress_strict(Bb)
            if int.from_bytes(a, "little") >= L or B is None:
                return None if impl == "ERR" else "operand must be rejected, got " + impl
            a = int.from_bytes(a, "little")
            want = hx(ed.compress(ed.mul(8, ed.mul(a, B))))
            Bp = ed.mul(PROJ, B)                       # prime-order component B' of B = B' + T
            assert ed.mul(8, ed.sub(B, Bp)) == ed.O
            want2 = hx(ed.compress(ed.mul(8 * a % L, Bp)))
            if want != want2:
                return "reference inconsistent (8*(a*B) != (8a mod l)*B')"
            if impl != "OK %s %s" % (want, want):
                return "derivation must be 8*(a*B) = %s for from_key and from_random, implementation returned %s" % (want, impl)
            return None
        if w[0] == "onetime":
            S, a, B, i = ed.decompress_strict(bytes.fromhex(w[1])), int.from_bytes(bytes.fromhex(w[2]), "little"), \
                ed.decompress_strict(bytes.fromhex(w[3])), int(w[4])
            if S is None or B is None or a >= L:
                return None if impl == "ERR" else "operand must be rejected, got " + impl
            D = ed.compress(ed.mul(8, ed.mul(a, B)))
            h = ed.hash_to_scalar(D + ed.varint(i))
            Pt = ed.add(ed.mul(h, ed.B), S)
            want = "OK %s %s 1 %s" % (hx(ed.compress(Pt)), hx(le(h)), w[1])
            if impl != want:
                return "one-time key must be Hs(8aB||i)G + S: %s, implementation returned %s" % (want, impl)
            return None
        if w[0] == "sendrecv":
            rr, v = int.from_bytes(bytes.fromhex(w[1]), "little"), int.from_bytes(bytes.fromhex(w[2]), "little")
            S, i = ed.decompress_strict(bytes.fromhex(w[3])), int(w[4])
            if S is None or rr >= L or v >= L:
                return None if impl == "ERR" else "operand must be rejected, got " + impl
            R = ed.mul(rr, ed.B)
            D = ed.compress(ed.mul(8 * rr * v % L, ed.B))
            h = ed.hash_to_scalar(D + ed.varint(i))
            Pt = ed.add(ed.mul(h, ed.B), S)
            want = "OK %s %s 1 %s" % (hx(ed.compress(R)), hx(ed.compress(Pt)), w[3])
            if impl != want:
                return "sender key must be recognised by the receiver: %s, implementation returned %s" % (want, impl)
            return None
        return None

    def neighbours(self, case, rng):
        w = case.line.split(" ")
        out = []
        T = ed.torsion_points()
        if w[0] == "derive":
            B = ed.decompress_strict(bytes.fromhex(w[2]))
            if B is not None:
                for t in T:
                    out.append(Case("derive %s %s" % (w[1], hx(ed.compress(ed.add(B, t))))))
            for a in (0, 1, 2, 8, L - 1):
                out.append(Case("derive %s %s" % (hx(le(a)), w[2])))
        return out


CHECK = C10()
