# C14 — VarInt bijection.  Correspondence stream + direct oracle against textbook LEB128 (Spec/Leb128.v).
import itertools
from framework import Check, Case


def hx(bs):
    return bytes(bs).hex() if bs else "-"


class C14(Check):
    pid = "C14"
    rule = ("varint_sweep P: ALL 65536 two-byte suffixes after prefix P compared in aggregate (count, sums, rolling hash of every "
            "outcome) with the model and an independent python decoder - thorough: every one-byte P, i.e. EVERY string of length 3; "
            "both tiers: P = 7/8/9 continuation bytes (the 9/10/11-byte boundary, exhaustively in the last two bytes); "
            "varint_dec on EVERY byte string of length <= 2 (thorough: also all of length 3 over a 48-value byte alphabet, "
            "random length-3..12 strings), all 9/10/11-byte boundary patterns fill^k++[last], a 0x00 at every position, "
            "0..3 trailing bytes; varint_enc / round-trip for 2^(7k)-1, 2^(7k), 2^(7k)+1, 2^64-1 and seeded random u64; "
            "non-trivial = distinct case line; classes counted in input_classes")
    level_note = ("theorems are about the Gallina model Model/Varint.v; tie to src/consensus/encode.rs is the "
                  "correspondence check (exhaustive on <=2-byte inputs)")
    evalA_sample = 1500

    def gen(self, tier, rng):
        cs = []
        # exhaustive short strings
        cs.append(Case("varint_dec -", "len0"))
        for a in range(256):
            cs.append(Case("varint_dec %02x" % a, "len1"))
        for a in range(256):
            for b in range(256):
                cs.append(Case("varint_dec %02x%02x" % (a, b), "len2"))
        fills = [0x80, 0xff, 0x81]
        lasts = [0, 1, 2, 0x7f, 0x80, 0xff]
        for k in range(0, 12):
            for f in fills:
                for l in lasts:
                    for trail in ([], [0x00], [0xff, 0x01]):
                        cs.append(Case("varint_dec " + hx([f] * k + [l] + trail), "boundary"))
        # long runs of continuation bytes (12..48 bytes): groups far beyond the tenth must still be accounted for
        for k in list(range(12, 49)):
            for f in (0x80, 0xff, 0x81):
                for l in (0x00, 0x01, 0x7f):
                    cs.append(Case("varint_dec " + hx([f] * k + [l]), "long-run"))
            cs.append(Case("varint_dec " + hx([0x81] + [0x80] * (k - 1) + [0x01]), "long-run"))
            cs.append(Case("varint_dec " + hx([0x80] * 9 + [0x81] + [0x80] * (k - 10) + [0x01]), "long-run"))
        # a zero at each position of an otherwise valid long varint
        base = [0xff] * 9 + [0x01]
        for i in range(10):
            b = list(base); b[i] = 0x00
            cs.append(Case("varint_dec " + hx(b), "zero-at"))
            b = list(base); b[i] = 0x80
            cs.append(Case("varint_dec " + hx(b), "zero-group-at"))
        alpha = [0, 1, 2, 0x3f, 0x40, 0x7e, 0x7f, 0x80, 0x81, 0x82, 0xbf, 0xc0, 0xfe, 0xff]
        if tier == "thorough":
            alpha = sorted(set(alpha + list(range(0, 256, 8)) + [0x7d, 0x83, 0xfd]))
        for t in itertools.product(alpha, repeat=3):
            cs.append(Case("varint_dec " + hx(t), "len3-alphabet"))
        nrand = 20000 if tier == "quick" else 400000
        for _ in range(nrand):
            n = rng.choice([3, 4, 5, 6, 7, 8, 9, 10, 11, 12, 12, 19, 20, 21, 30])
            # mostly continuation bytes so that long varints are actually reached
            b = [rng.choice([rng.randint(0x80, 0xff), rng.randint(0, 255), 0x80, 0xff]) for _ in range(n - 1)]
            b.append(rng.choice([rng.randint(0, 0x7f), 0, 1, 2, rng.randint(0, 255)]))
            cs.append(Case("varint_dec " + hx(b), "random"))
        # exhaustive sweep of ALL strings prefix ++ [b1, b2]: every 3-byte string (256 one-byte prefixes) in the thorough tier,
        # and the 2 suffix bytes after boundary prefixes (8- and 9-byte runs of continuation bytes) in both tiers
        sweeps = [[0xff] * 8, [0x80] * 8, [0xff] * 9, [0x80] * 9, [0xff] * 7, [0x81] * 8]
        if tier == "thorough":
            sweeps += [[a] for a in range(256)]
        else:
            sweeps += [[a] for a in (0x00, 0x01, 0x7f, 0x80, 0x81, 0xff)]
        for pre in sweeps:
            cs.append(Case("varint_sweep " + hx(pre), "sweep-65536-suffixes"))
        # encoder and round trip
        vals = set([0, 1, 127, 128, 255, 256, 300, 5000000000, 2**64 - 1, 2**63, 2**63 - 1, 2**32, 2**32 - 1])
        for k in range(1, 10):
            vals.update([2**(7 * k) - 1, 2**(7 * k), 2**(7 * k) + 1])
        for _ in range(5000 if tier == "quick" else 200000):
            vals.add(rng.getrandbits(rng.choice([7, 8, 14, 21, 32, 49, 56, 57, 63, 64])))
        for v in sorted(vals):
            cs.append(Case("varint_enc %d" % v, "enc"))
            cs.append(Case("varint_rt %d" % v, "roundtrip"))
        return cs

    def oracle_queries(self, case, impl):
        w = impl.split(" ")
        if case.line.startswith("varint_dec") and w[0] == "OK":
            return ["leb128 " + w[1]]
        if case.line.startswith("varint_enc"):
            return ["leb128 " + case.line.split(" ")[1]]
        return []

    @staticmethod
    def py_dec(s):
        """independent minimal-LEB128-on-u64 decoder: (value, consumed) or None"""
        v, shift = 0, 0
        for i, b in enumerate(s):
            if b == 0 and i > 0:
                return None
            v |= (b & 0x7f) << shift
            shift += 7
            if b < 0x80:
                return (v, i + 1) if v < 2 ** 64 else None
        return None

    def sweep_ref(self, pre):
        nok, sv, sc, hh, m = 0, 0, 0, 7, 2305843009213693951
        # the decision depends on the suffix only through (b1, b2); the prefix part is decoded once per b1 when possible
        for b12 in range(65536):
            r = self.py_dec(pre + bytes([b12 >> 8, b12 & 0xff]))
            if r is None:
                hh = (hh * 1000003 + 1) % m
            else:
                nok += 1; sv += r[0]; sc += r[1]
                hh = (hh * 1000003 + (r[0] * 16 + r[1])) % m
        return "OK %d %d %d %d" % (nok, sv, sc, hh)

    def oracle(self, case, impl, ctx):
        op, arg = case.line.split(" ")
        if op == "varint_sweep":
            pre = b"" if arg == "-" else bytes.fromhex(arg)
            want = self.sweep_ref(pre)
            if impl != want:
                return "exhaustive sweep after prefix %s: implementation %s, independent minimal-LEB128 decoder %s" % (arg, impl, want)
            return None
        w = impl.split(" ")
        if w[0] in ("PANIC", "ABORT", "TIMEOUT"):
            return "implementation did not return: " + w[0]
        if op == "varint_dec":
            if w[0] == "OK":
                n, k = int(w[1]), int(w[2])
                inp = "" if arg == "-" else arg
                spec = ctx.model("leb128 %d" % n).split(" ")[1]
                if n >= 2**64 or inp[:2 * k] != spec:
                    return "decode accepted %s as %d consuming %d bytes, but LEB128(%d) = %s" % (arg, n, k, n, spec)
            return None
        if op == "varint_enc":
            n = int(arg)
            spec = ctx.model("leb128 %d" % n).split(" ")[1]
            if w[0] != "OK" or w[1] != spec or int(w[2]) * 2 != len(spec):
                return "encode(%d) = %s but LEB128 = %s with %d bytes" % (n, impl, spec, len(spec) // 2)
            return None
        if op == "varint_rt":
            if impl != "OK %s" % arg:
                return "decode(encode(%s)) gave %s" % (arg, impl)
        return None

    def neighbours(self, case, rng):
        op, arg = case.line.split(" ")
        out = []
        if op == "varint_dec" and arg != "-":
            b = list(bytes.fromhex(arg))
            for i in range(len(b)):
                for v in (0, 1, 0x7f, 0x80, 0xff, b[i] ^ 0x80):
                    c = list(b); c[i] = v
                    out.append(Case("varint_dec " + hx(c)))
            for k in range(len(b)):
                out.append(Case("varint_dec " + hx(b[:k])))
        return out


CHECK = C14()
