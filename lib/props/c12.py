# C12 — address text form.  Correspondence stream + a direct oracle written independently of both the crate and the
# Coq model: own Monero base58, own Keccak-256 (original 0x01 padding; NOT sha3), own Ed25519 point-encoding test,
# own tag table, own LEB128 and hex readers.  The oracle computes, for every case, the exact result line that the
# property demands (accepted <=> canonical; dump/text = Monero's), and checks the two property statements
# "accepted => canonical re-encoding equals the input" and "formatted text equals python's" explicitly.
import framework
from framework import Check, Case
from props import edref as ed        # only for addr_of_keys (scalar multiplication of the base point)

# ------------------------------------------------------------------ Keccak-256 (pure python)
_RC = [0x0000000000000001, 0x0000000000008082, 0x800000000000808A, 0x8000000080008000, 0x000000000000808B,
       0x0000000080000001, 0x8000000080008081, 0x8000000000008009, 0x000000000000008A, 0x0000000000000088,
       0x0000000080008009, 0x000000008000000A, 0x000000008000808B, 0x800000000000008B, 0x8000000000008089,
       0x8000000000008003, 0x8000000000008002, 0x8000000000000080, 0x000000000000800A, 0x800000008000000A,
       0x8000000080008081, 0x8000000000008080, 0x0000000080000001, 0x8000000080008008]
_M = (1 << 64) - 1


def _rol(x, n):
    n %= 64
    return ((x << n) | (x >> (64 - n))) & _M if n else x


def _f1600(A):
    for rc in _RC:
        C = [A[x][0] ^ A[x][1] ^ A[x][2] ^ A[x][3] ^ A[x][4] for x in range(5)]
        D = [C[(x - 1) % 5] ^ _rol(C[(x + 1) % 5], 1) for x in range(5)]
        A = [[A[x][y] ^ D[x] for y in range(5)] for x in range(5)]
        B = [[0] * 5 for _ in range(5)]
        x, y = 1, 0
        B[0][0] = A[0][0]
        cur = A[1][0]
        for t in range(24):
            # rho + pi along the standard (x,y) -> (y, 2x+3y) walk
            X, Y = y, (2 * x + 3 * y) % 5
            nxt = A[X][Y]
            B[X][Y] = _rol(cur, (t + 1) * (t + 2) // 2)
            cur = nxt
            x, y = X, Y
        A = [[B[x][y] ^ ((~B[(x + 1) % 5][y]) & B[(x + 2) % 5][y]) for y in range(5)] for x in range(5)]
        A[0][0] ^= rc
    return A


def keccak256(m):
    rate = 136
    p = bytearray(m)
    p.append(0x01)
    while len(p) % rate:
        p.append(0)
    p[-1] |= 0x80
    A = [[0] * 5 for _ in range(5)]
    for off in range(0, len(p), rate):
        for i in range(rate // 8):
            A[i % 5][i // 5] ^= int.from_bytes(p[off + 8 * i: off + 8 * i + 8], "little")
        A = _f1600(A)
    out = b"".join(A[i % 5][i // 5].to_bytes(8, "little") for i in range(4))
    return out


assert keccak256(b"").hex() == "c5d2460186f7233c927e7db2dcc703c0e500b653ca82273b7bfad8045d85a470"

# ------------------------------------------------------------------ Monero base58 (pure python)
ALPHA = b"123456789ABCDEFGHJKLMNPQRSTUVWXYZabcdefghijkmnopqrstuvwxyz"
SIZES = [0, 2, 3, 5, 6, 7, 9, 10, 11]


def b58_enc(b):
    out = bytearray()
    for off in range(0, len(b), 8):
        blk = b[off:off + 8]
        n = int.from_bytes(blk, "big")
        k = SIZES[len(blk)]
        ds = []
        for _ in range(k):
            n, r = divmod(n, 58)
            ds.append(ALPHA[r])
        out.extend(reversed(ds))
    return bytes(out)


_KEY_BY_FIRST = {}


def key_with_first_byte(b0):
    """a canonical public key whose first byte is b0 (deterministic)"""
    if b0 not in _KEY_BY_FIRST:
        import random as _r
        g = _r.Random(1000 + b0)
        while True:
            k = bytes([b0]) + bytes(g.getrandbits(8) for _ in range(31))
            if pk_valid(k):
                _KEY_BY_FIRST[b0] = k
                break
    return _KEY_BY_FIRST[b0]


def block_respellings(b):
    """texts that re-spell one block of b58_enc(b) as the numeral of value + m*256^n (m = 1, 2) where that fits the block"""
    txt = b58_enc(b)
    out, pos, rest = [], 0, len(b)
    while rest > 0:
        n = min(8, rest)
        k = SIZES[n]
        val = 0
        for c in txt[pos:pos + k]:
            val = val * 58 + ALPHA.index(c)
        for m in (1, 2):
            v2 = val + m * 256 ** n
            if v2 < 58 ** k:
                ds, x = [], v2
                for _ in range(k):
                    x, r_ = divmod(x, 58)
                    ds.append(ALPHA[r_])
                out.append(txt[:pos] + bytes(reversed(ds)) + txt[pos + k:])
        pos += k
        rest -= n
    return out


def b58_dec(s):
    """None = refused"""
    out = bytearray()
    for off in range(0, len(s), 11):
        blk = s[off:off + 11]
        if len(blk) not in SIZES:
            return None
        size = SIZES.index(len(blk))
        n = 0
        for c in blk:
            d = ALPHA.find(bytes([c]))
            if d < 0:
                return None
            n = n * 58 + d
        if n >= 256 ** size:
            return None
        out.extend(n.to_bytes(size, "big"))
    return bytes(out)


# ------------------------------------------------------------------ Ed25519 point encodings (pure python)
P = 2 ** 255 - 19
D = (-121665 * pow(121666, P - 2, P)) % P
SQM1 = pow(2, (P - 1) // 4, P)


def pk_valid(k):
    """32 bytes, canonical y < p, on the curve, and no 'negative zero' x"""
    if len(k) != 32:
        return False
    v = int.from_bytes(k, "little")
    sign, y = v >> 255, v & ((1 << 255) - 1)
    if y >= P:
        return False
    u, w = (y * y - 1) % P, (D * y * y + 1) % P
    x2 = u * pow(w, P - 2, P) % P
    x = pow(x2, (P + 3) // 8, P)
    if (x * x - x2) % P:
        x = x * SQM1 % P
    if (x * x - x2) % P:
        return False
    if x == 0 and sign == 1:
        return False
    return True


def random_key(rng, valid=True):
    while True:
        k = bytes(rng.getrandbits(8) for _ in range(32))
        if pk_valid(k) == valid:
            return k


# ------------------------------------------------------------------ the address layout, from the Monero reference
TAGS = {("main", "std"): 18, ("main", "int"): 19, ("main", "sub"): 42,
        ("test", "std"): 53, ("test", "int"): 54, ("test", "sub"): 63,
        ("stage", "std"): 24, ("stage", "int"): 25, ("stage", "sub"): 36}
INV = {v: k for k, v in TAGS.items()}


def hx(b):
    return bytes(b).hex() if b else "-"


def unhx(s):
    return b"" if s == "-" else bytes.fromhex(s)


def blob_of(net, kind, pid, spend, view):
    body = bytes([TAGS[(net, kind)]]) + spend + view + (pid if kind == "int" else b"")
    return body + keccak256(body)[:4]


def with_checksum(body):
    return bytes(body) + keccak256(bytes(body))[:4]


def parse_blob(b):
    """None, or (net, typestring, spend, view): accepted exactly when b is the canonical blob of an address"""
    if len(b) < 1 or b[0] not in INV:
        return None
    net, kind = INV[b[0]]
    if len(b) != (77 if kind == "int" else 69):
        return None
    spend, view = b[1:33], b[33:65]
    if not (pk_valid(spend) and pk_valid(view)):
        return None
    if keccak256(b[:-4])[:4] != b[-4:]:
        return None
    t = ("int:" + b[65:73].hex()) if kind == "int" else kind
    return net, t, spend, view


def dump_line(b):
    r = parse_blob(b)
    if r is None:
        return "ERR"
    net, t, spend, view = r
    return "OK %s %s %s %s %s %s" % (net, t, spend.hex(), view.hex(), b.hex(), b58_enc(b).hex())


_HEXV = {c: i for i, c in enumerate(b"0123456789abcdef")}
_HEXV.update({c: 10 + i for i, c in enumerate(b"ABCDEF")})


def hex_read(s):
    """optional lower-case 0x prefix, then an even number of hex digits in either case"""
    if s[:2] == b"0x":
        s = s[2:]
    if len(s) % 2 or any(c not in _HEXV for c in s):
        return None
    return bytes(_HEXV[s[i]] * 16 + _HEXV[s[i + 1]] for i in range(0, len(s), 2))


def leb128(n):
    out = bytearray()
    while True:
        g, n = n & 0x7f, n >> 7
        if n:
            out.append(g | 0x80)
        else:
            out.append(g)
            return bytes(out)


def vec_read(b):
    """consensus Vec<u8> filling the whole input: minimal LEB128 length < 2^64, at most 32 MiB, then exactly that many bytes"""
    n, sh, i = 0, 0, 0
    while True:
        if i >= len(b):
            return None
        c = b[i]
        i += 1
        n |= (c & 0x7f) << sh
        sh += 7
        if not c & 0x80:
            break
    if n >= 2 ** 64 or leb128(n) != b[:i] or n > 32 * 1024 * 1024 or len(b) - i != n:
        return None
    return b[i:]


def expected(line):
    w = line.split(" ")
    op = w[0]
    if op == "b58_enc":
        return "OK " + hx(b58_enc(unhx(w[1])))
    if op == "b58_dec":
        d = b58_dec(unhx(w[1]))
        return "ERR" if d is None else "OK " + hx(d)
    if op == "addr_from_bytes":
        return dump_line(unhx(w[1]))
    if op == "addr_from_str":
        d = b58_dec(unhx(w[1]))
        return "ERR" if d is None else dump_line(d)
    if op == "addr_from_hex":
        d = hex_read(unhx(w[1]))
        return "ERR" if d is None else dump_line(d)
    if op == "addr_dec":
        d = vec_read(unhx(w[1]))
        return "ERR" if d is None else dump_line(d)
    if op == "addr_fmt":
        net, t, spend, view = w[1], w[2], unhx(w[3]), unhx(w[4])
        kind, pid = (("int", bytes.fromhex(t[4:])) if t.startswith("int:") else (t, b""))
        b = blob_of(net, kind, pid, spend, view)
        disp = {"std": b"Standard address", "sub": b"Subaddress", "int": b"Integrated address"}[kind]
        # blob, text, as_hex, consensus bytes, ToHex::encode_hex, ToHex::encode_hex_upper, Display of the AddressType
        return "OK %s %s %s %s %s %s %s" % (b.hex(), b58_enc(b).hex(), b.hex().encode().hex(), (leb128(len(b)) + b).hex(),
                                            b.hex().encode().hex(), b.hex().upper().encode().hex(), disp.hex())
    if op == "addr_of_keys":
        # from_keypair / from_viewpair: the standard address of (spend*G, view*G), independent python Ed25519
        v, s = unhx(w[2]), unhx(w[3])
        if not all(len(k) == 32 and int.from_bytes(k, "little") < ed.L for k in (v, s)):
            return "ERR"
        pub = lambda k: ed.compress(ed.mul(int.from_bytes(k, "little"), ed.B))
        t = b58_enc(blob_of(w[1], "std", b"", pub(s), pub(v))).hex()
        return "OK %s %s" % (t, t)
    return None


# keys and address strings that appear in /repo/src/util/address.rs tests
REPO_KEYS = [
    bytes([226, 187, 17, 117, 6, 188, 105, 177, 58, 207, 205, 42, 205, 229, 251, 129, 118, 253, 21, 245, 49, 67, 36, 75,
           62, 12, 80, 90, 244, 194, 108, 210]),
    bytes([220, 115, 195, 55, 189, 88, 136, 78, 63, 32, 41, 33, 168, 205, 245, 3, 139, 234, 109, 64, 198, 179, 53, 108,
           247, 77, 183, 25, 172, 59, 113, 115]),
    bytes([17, 81, 127, 230, 166, 35, 81, 36, 161, 94, 154, 206, 60, 98, 195, 62, 12, 11, 234, 133, 228, 196, 77, 3, 68,
           188, 84, 78, 94, 109, 238, 44]),
    bytes([115, 212, 211, 204, 198, 30, 73, 70, 235, 52, 160, 200, 39, 215, 134, 239, 249, 129, 47, 156, 14, 116, 18, 191,
           112, 207, 139, 208, 54, 59, 92, 115]),
    bytes([212, 104, 103, 28, 131, 98, 226, 228, 37, 244, 133, 145, 213, 157, 184, 232, 6, 146, 127, 69, 187, 95, 33, 143,
           9, 102, 181, 189, 230, 223, 231, 7]),
    bytes([154, 155, 57, 25, 23, 70, 165, 134, 222, 126, 85, 60, 127, 96, 21, 243, 108, 152, 150, 87, 66, 59, 161, 121,
           206, 130, 170, 233, 69, 102, 128, 103]),
]
REPO_ADDRS = [
    b"4ADT1BtbxqEWeMKp9GgPr2NeyJXXtNxvoDawpyA4WpzFcGcoHUvXeijE66DNfohE9r1bQYaBiQjEtKE7CtkTdLwiDznFzra",
    b"4Byr22j9M2878Mtyb3fEPcBNwBZf5EXqn1Yi6VzR46618SFBrYysab2Cs1474CVDbsh94AJq7vuV3Z2DRq4zLcY3LHzo1Nbv3d8J6VhvCV",
    b"8AW7SotwFrqfAKnibspuuhfowW4g3asvpQvdrTmPcpNr2GmXPtBBSxUPZQATAt8Vw2hiX9GDyxB4tMNgHjwt8qYsCeFDVvn",
]
# boundary encodings of a compressed point
SPECIAL_KEYS = [
    (1).to_bytes(32, "little"),                                   # identity (x = 0, y = 1): valid
    (P - 1).to_bytes(32, "little"),                               # (0, -1), order 2: valid
    ((1 << 255) | 1).to_bytes(32, "little"),                      # identity with the sign bit: "negative zero", refused
    ((1 << 255) | (P - 1)).to_bytes(32, "little"),                # (0,-1) with sign bit: refused
    (P).to_bytes(32, "little"),                                   # y = p  (non-canonical 0)
    (P + 1).to_bytes(32, "little"),                               # y = p+1 (non-canonical identity)
    (2 ** 255 - 1).to_bytes(32, "little"),                        # y = 2^255-1 (non-canonical 18)
    bytes(32),                                                    # y = 0: x^2 = -1: valid point of order 4
    (2).to_bytes(32, "little"),                                   # y = 2: not on the curve
    bytes([0xff] * 32),
    bytes.fromhex("8b655970153799af2aeadc9ff1add0ea6c7251d54154cfa92c173a0dd39c1f94"),   # the second generator H of src/util/key.rs
    bytes.fromhex("5866666666666666666666666666666666666666666666666666666666666666"),   # the base point G
]


class C12(Check):
    pid = "C12"
    rule = ("addresses: 9 (network,type) combinations x valid key pairs (keys of the repository tests, boundary point "
            "encodings, seeded random valid encodings) built by the constructor of the type and formatted (addr_fmt: blob, text, "
            "as_hex, consensus, ToHex lower/upper, type name) and parsed back in blob, base58, hex and consensus "
            "form; every blob byte position x {+1, xor 0x80, 0x00, 0xff} with the old and with a recomputed checksum; all 256 "
            "tags at both lengths with a correct checksum; truncation to every length 0..80 and extension by 1..16 bytes (plain "
            "and with the checksum recomputed at the new end); non-canonical / off-curve keys under a correct checksum; base58: "
            "every character position x {next alphabet character, 0, O, I, l, two-byte UTF-8}, block overflow, values 256^n-1 "
            "and 256^n in every tail width, illegal lengths, empty string, random byte strings of length 0..100 and random "
            "alphabet strings; hex: upper/mixed case, 0x / 0X / double prefix, odd length, bad digit; consensus: non-minimal "
            "or wrong length prefix, trailing byte, oversized length; addr_of_keys: from_keypair/from_viewpair on boundary and "
            "random secret keys, refused scalars.  non-trivial = distinct case line")
    level_note = ("theorems are about the Gallina models Model/Base58.v and Model/Address.v, for every hash function with "
                  "32-byte output and every key-acceptance predicate that implies length 32; the tie to "
                  "src/util/address.rs + base58-monero 2.1.0 is the correspondence check with H = Keccak-256 model and "
                  "valid_pk = Ed25519 decompress/recompress model")
    evalA_sample = 0          # the uniform sample of the framework is replaced by the targeted one in extra_coverage

    # ---------------------------------------------------------------- generator
    def gen(self, tier, rng):
        thorough = tier == "thorough"
        cs = []
        seen = set()

        def add(line, cls):
            if line not in seen:
                seen.add(line)
                cs.append(Case(line, cls))

        def all_forms(b, cls, forms=("bytes", "str", "hex", "dec")):
            if "bytes" in forms:
                add("addr_from_bytes " + hx(b), cls + "/blob")
            if "str" in forms:
                add("addr_from_str " + hx(b58_enc(b)), cls + "/text")
            if "hex" in forms:
                add("addr_from_hex " + hx(b.hex().encode()), cls + "/hex")
            if "dec" in forms:
                add("addr_dec " + hx(leb128(len(b)) + b), cls + "/consensus")

        # corpus: the address strings of the repository's tests
        for a in REPO_ADDRS:
            add("addr_from_str " + hx(a), "corpus")
            add("b58_dec " + hx(a), "corpus")
            d = b58_dec(a)
            all_forms(d, "corpus")
            add("b58_enc " + hx(d), "corpus")

        valid = list(REPO_KEYS) + [k for k in SPECIAL_KEYS if pk_valid(k)]
        invalid = [k for k in SPECIAL_KEYS if not pk_valid(k)]
        nkeys = 24 if not thorough else 400
        valid += [random_key(rng) for _ in range(nkeys)]
        invalid += [random_key(rng, False) for _ in range(8 if not thorough else 100)]
        pids = [bytes(8), bytes([0xff] * 8), bytes([88, 118, 184, 183, 41, 150, 255, 151])]

        # 9 combinations x key pairs x payment ids, formatted and parsed back in all four forms
        blobs = []
        npairs = 8 if not thorough else 200
        for (net, kind) in TAGS:
            for j in range(npairs):
                s, v = valid[(2 * j) % len(valid)], valid[(2 * j + 1 + j // len(valid)) % len(valid)]
                if j >= 4:
                    s, v = rng.choice(valid), rng.choice(valid)
                pid = pids[j % 3] if j < 3 else bytes(rng.getrandbits(8) for _ in range(8))
                t = "int:" + pid.hex() if kind == "int" else kind
                add("addr_fmt %s %s %s %s" % (net, t, s.hex(), v.hex()), "format")
                b = blob_of(net, kind, pid, s, v)
                all_forms(b, "roundtrip")
                blobs.append(b)
        # one field varied at a time, back to back (an address has five: network, type, payment id, spend key, view key): the
        # same keys with another payment id, the same payment id with another spend / view key, another network, another type -
        # formatted, and parsed back in every form, in that order
        for rep in range(3 if not thorough else 30):
            s0, v0, s1, v1 = (rng.choice(valid) for _ in range(4))
            p0, p1 = (bytes(rng.getrandbits(8) for _ in range(8)) for _ in range(2))
            n0 = rng.choice(["main", "test", "stage"])
            n1 = rng.choice([n for n in ("main", "test", "stage") if n != n0])
            seq = [(n0, "int", p0, s0, v0), (n0, "int", p1, s0, v0), (n0, "int", p0, s0, v0), (n0, "int", p0, s1, v0),
                   (n0, "int", p0, s0, v1), (n0, "int", p0, s0, v0), (n1, "int", p0, s0, v0), (n0, "std", p0, s0, v0),
                   (n0, "sub", p0, s0, v0), (n0, "int", p0, s0, v0), (n0, "int", bytes(8), s0, v0), (n0, "int", p0[:7] + bytes([p0[7] ^ 1]), s0, v0)]
            for (net, kind, pid, s, v) in seq:
                t = "int:" + pid.hex() if kind == "int" else kind
                add("addr_fmt %s %s %s %s" % (net, t, s.hex(), v.hex()), "one-field-varied/format")
            for (net, kind, pid, s, v) in seq:
                all_forms(blob_of(net, kind, pid, s, v), "one-field-varied")
        # the leading characters of the text depend on the tag AND on the first byte of the spend key: every tag with spend keys
        # whose first byte runs over the whole range (every value in the thorough tier), formatted and read back as text
        firsts = range(256) if thorough else sorted(set(range(0, 256, 5)) | set(range(200, 256, 2)) | {255})
        for (net, kind) in TAGS:
            for b0 in firsts:
                s_, v_ = key_with_first_byte(b0), valid[b0 % len(valid)]
                pid = bytes([b0]) * 8
                t = "int:" + pid.hex() if kind == "int" else kind
                add("addr_fmt %s %s %s %s" % (net, t, s_.hex(), v_.hex()), "tag-x-first-key-byte/format")
                add("addr_from_str " + hx(b58_enc(blob_of(net, kind, pid, s_, v_))), "tag-x-first-key-byte/text")
        # constructors from secret keys: from_keypair and from_viewpair (the doc-test key pair of src/util/key.rs first)
        add("addr_of_keys main 8163466f1883598e6dd14027b8da727057165da91485834314f5500a65846f09 "
            "77916d0cd56ed1920aef6ca56d8a41bac915b68e4c46a589e0956e27a7b77404", "from-keys")
        sks = [0, 1, 2, ed.L - 1, ed.L - 2, 2 ** 252]
        for j in range(30 if not thorough else 300):
            v_, s_ = (sks[j % 6], sks[(j // 6) % 6]) if j < 12 else (rng.randrange(ed.L), rng.randrange(ed.L))
            add("addr_of_keys %s %s %s" % (("main", "test", "stage")[j % 3], v_.to_bytes(32, "little").hex(),
                                           s_.to_bytes(32, "little").hex()), "from-keys")
        for bad in (ed.L, ed.L + 1, 2 ** 256 - 1):
            add("addr_of_keys main %s %s" % (bad.to_bytes(32, "little").hex(), (1).to_bytes(32, "little").hex()), "from-keys-rejected")
            add("addr_of_keys test %s %s" % ((1).to_bytes(32, "little").hex(), bad.to_bytes(32, "little").hex()), "from-keys-rejected")
        add("addr_of_keys main %s %s" % ("01" * 31, "01" * 32), "from-keys-rejected")
        # formatting is defined for any 32-byte field content (PublicKey has a public field)
        for k in invalid[:6]:
            add("addr_fmt main std %s %s" % (k.hex(), valid[0].hex()), "format-unchecked-key")

        # mutation base set: one blob per (network,type) (thorough: three)
        base = (blobs[::npairs] + blobs[1::npairs]) if not thorough else (blobs[::npairs] + blobs[1::npairs] + blobs[2::npairs] + blobs[5::npairs])
        for bi, b in enumerate(base):
            for i in range(len(b)):
                for f in (lambda x: (x + 1) & 0xff, lambda x: x ^ 0x80, lambda x: 0x00, lambda x: 0xff):
                    m = bytearray(b)
                    m[i] = f(m[i])
                    if bytes(m) == b:
                        continue
                    all_forms(bytes(m), "byte-mutation", ("bytes", "str") if bi % 3 == 0 else ("bytes",))
                    if i < len(b) - 4:
                        all_forms(with_checksum(m[:-4]), "byte-mutation-rechecksum", ("bytes",))
            # several bytes changed together (a comparison that accumulates differences can cancel them): the same delta on two,
            # three or all four checksum bytes, checksum bytes permuted / reversed / rotated / complemented / zeroed, the checksum of
            # another blob, and pairs of body bytes changed by the same delta with the old checksum kept
            n = len(b)
            cpos = list(range(n - 4, n))
            for delta in (0x01, 0x80, 0xff, 0x5a):
                for k in range(2, 5):
                    for start in range(0, 5 - k):
                        m = bytearray(b)
                        for q in cpos[start:start + k]:
                            m[q] ^= delta
                        all_forms(bytes(m), "checksum-multibyte-xor", ("bytes", "str") if bi % 3 == 0 else ("bytes",))
                for (q1, q2) in ((n - 4, n - 2), (n - 4, n - 1), (n - 3, n - 1), (1, 2), (1, 33), (32, 64), (0, n - 1), (5, n - 4)):
                    m = bytearray(b)
                    m[q1] ^= delta
                    m[q2] ^= delta
                    all_forms(bytes(m), "pair-xor-same-delta", ("bytes",))
                m = bytearray(b)
                for q in cpos:
                    m[q] = (m[q] + delta) & 0xff
                all_forms(bytes(m), "checksum-multibyte-add", ("bytes",))
            c4 = b[-4:]
            for alt in (c4[::-1], c4[1:] + c4[:1], c4[2:] + c4[:2], bytes(x ^ 0xff for x in c4), bytes(4), b"\xff" * 4,
                        bytes([c4[1], c4[0], c4[2], c4[3]]), bytes([c4[0], c4[1], c4[3], c4[2]]), base[(bi + 1) % len(base)][-4:],
                        with_checksum(b[:-4] + b"\x00")[-4:], with_checksum(b[1:-4])[-4:], with_checksum(b[:-5])[-4:]):
                if alt != c4:
                    all_forms(b[:-4] + alt, "checksum-replaced", ("bytes", "str") if bi % 3 == 0 else ("bytes",))
            for ln in range(0, 81):
                t = (b + bytes((7 * k + 3) & 0xff for k in range(16)))[:ln]
                all_forms(t, "truncate-extend", ("bytes", "str") if bi < 3 else ("bytes",))
                if ln >= 5:
                    all_forms(with_checksum(t[:-4]), "truncate-extend-rechecksum", ("bytes", "dec") if bi < 3 else ("bytes",))
            # bytes INSERTED (not replaced) with the checksum recomputed over the longer body: after the tag (the tag re-spelt as
            # a longer varint: t|0x80 00, t|0x80 80 00), between and inside the keys, before the payment id, before the checksum
            body = b[:-4]
            spots = sorted(set([0, 1, 2, 16, 32, 33, 34, 64, 65, 66, len(body) - 8, len(body) - 1, len(body)]))
            for i in spots:
                if not 0 <= i <= len(body):
                    continue
                for ins in (b"\x00", b"\x80", b"\x80\x00", b"\x01", b"\xff"):
                    all_forms(with_checksum(body[:i] + ins + body[i:]), "byte-insertion-rechecksum", ("bytes", "str", "dec") if bi < 3 else ("bytes", "str"))
            for sp in (bytes([body[0] | 0x80, 0x00]), bytes([body[0] | 0x80, 0x80, 0x00]), bytes([body[0] | 0x80, 0x80, 0x80, 0x00]),
                       bytes([body[0] | 0x80, 0x01]), bytes([body[0], 0x00])):
                all_forms(with_checksum(sp + body[1:]), "tag-respelt-as-longer-varint", ("bytes", "str", "dec"))
            for ext in range(1, 17):
                e = b + bytes(rng.getrandbits(8) for _ in range(ext))
                all_forms(e, "extend", ("bytes", "str", "hex", "dec") if bi < 3 else ("bytes", "str", "dec"))
                all_forms(b + b[-4:] * (ext // 4) + b[-4:][:ext % 4], "extend-repeat-checksum", ("bytes",))
        # consensus form: the length prefix is part of the spelling - longer / shorter than the blob, with and without the bytes it
        # promises, non-minimal, zero
        for b in base:
            for k in (1, 2, 3, 8, 50, 178, 2 ** 14, 2 ** 32):
                add("addr_dec " + hx(leb128(len(b) + k) + b), "consensus-prefix-too-long/no-data")
                if k <= 178:
                    add("addr_dec " + hx(leb128(len(b) + k) + b + bytes(k)), "consensus-prefix-too-long/zero-data")
                    add("addr_dec " + hx(leb128(len(b) + k) + b + b[-4:] * (k // 4 + 1)), "consensus-prefix-too-long/checksum-data")
            for k in (1, 4, 8, len(b)):
                add("addr_dec " + hx(leb128(len(b) - k) + b), "consensus-prefix-too-short")
            add("addr_dec " + hx(bytes([0x80 | len(b), 0x00]) + b), "consensus-prefix-non-minimal")
            add("addr_dec " + hx(b), "consensus-no-prefix")
        # all 256 tags at both lengths under a correct checksum
        s, v = valid[0], valid[1]
        for tag in range(256):
            for ln in (65, 73):
                body = bytes([tag]) + s + v + bytes(range(ln - 65))
                all_forms(with_checksum(body), "all-tags", ("bytes", "str") if tag in INV else ("bytes",))
        # keys: invalid encodings in either slot under a correct checksum; valid special points
        for k in invalid:
            for (net, kind) in TAGS:
                pid = pids[2] if kind == "int" else b""
                all_forms(with_checksum(bytes([TAGS[(net, kind)]]) + k + valid[2] + pid), "bad-spend-key", ("bytes",))
                all_forms(with_checksum(bytes([TAGS[(net, kind)]]) + valid[2] + k + pid), "bad-view-key", ("bytes",))
        for k in valid:
            all_forms(with_checksum(bytes([18]) + k + k), "key-encodings", ("bytes",))
        for _ in range(300 if not thorough else 20000):
            k = bytes(rng.getrandbits(8) for _ in range(32))
            all_forms(with_checksum(bytes([18]) + k + valid[0]), "random-key-bytes", ("bytes",))

        # ---- base58 text
        nxt = {ALPHA[i]: ALPHA[(i + 1) % 58] for i in range(58)}
        texts = [b58_enc(b) for b in base[:3 if not thorough else 9]]
        for ti, t in enumerate(texts):
            for i in range(len(t)):
                for rep in (bytes([nxt[t[i]]]), b"0", b"O", b"I", b"l", "é".encode(), b" "):
                    m = t[:i] + rep + t[i + 1:]
                    add("b58_dec " + hx(m), "text-mutation")
                    add("addr_from_str " + hx(m), "text-mutation")
            for ln in range(len(t) + 1):
                add("b58_dec " + hx(t[:ln]), "text-truncate")
                add("addr_from_str " + hx(t[:ln]), "text-truncate")
            for extra in (b"1", b"11", b"z", b"1111111", b"11111111111"):
                add("addr_from_str " + hx(t + extra), "text-extend")
                add("addr_from_str " + hx(extra + t), "text-extend")
            # white space and line terminators around an otherwise valid text: only the canonical spelling is an address
            for pre, post in ((b"", b"\n"), (b"", b"\r\n"), (b"", b"\r"), (b"\n", b""), (b"", b"\t"), (b"\t", b""), (b"", b"\n\n"),
                              (b" ", b" "), (b"", b"\x0b"), (b"", b"\x0c"), (b"\xef\xbb\xbf", b""), (b"", b"\xc2\xa0")):
                add("addr_from_str " + hx(pre + t + post), "text-whitespace")
                add("b58_dec " + hx(pre + t + post), "text-whitespace")
        add("b58_dec -", "text-empty")
        add("addr_from_str -", "text-empty")
        add("b58_enc -", "text-empty")
        for n in range(0, 9):
            for val in (0, 1, 57, 58, 256 ** n - 1, 256 ** n, 256 ** n + 1, 58 ** SIZES[n] - 1):
                k = SIZES[n]
                if val >= 58 ** k and k > 0:
                    continue
                ds, x = [], val
                for _ in range(k):
                    x, r = divmod(x, 58)
                    ds.append(ALPHA[r])
                txt = bytes(reversed(ds))
                add("b58_dec " + hx(txt), "block-boundary")
                add("b58_dec " + hx(b"1" * 11 + txt), "block-boundary")
                if val < 256 ** n:
                    add("b58_enc " + hx(val.to_bytes(n, "big")), "block-boundary")
        for ln in range(0, 36):
            for ch in (b"1", b"z", b"2"):
                add("b58_dec " + hx(ch * ln), "illegal-length-or-overflow")
        # every block of a valid address text re-spelt as the numeral of (value + 256^n): same residue modulo 256^n, so a decoder
        # that cuts a block down to its n bytes without the range check reads the same address from a second spelling.  The
        # last, short block (5 bytes in 7 symbols) can ALWAYS be re-spelt this way, a full block in about a third of the cases
        for b in blobs[::max(1, len(blobs) // 18)][:18]:
            for alt in block_respellings(b):
                add("addr_from_str " + hx(alt), "block-overflow-respelling")
                add("b58_dec " + hx(alt), "block-overflow-respelling")
        add("b58_dec " + hx(b"jpXCZedGfVQ"), "block-boundary")      # 2^64-1
        add("b58_dec " + hx(b"jpXCZedGfVR"), "block-boundary")      # 2^64
        for _ in range(5000 if not thorough else 150000):
            n = rng.choice([rng.randint(0, 100), rng.randint(0, 17), 8, 16, 69, 77])
            b = bytes(rng.choice([rng.getrandbits(8), 0, 0xff]) for _ in range(n))
            add("b58_enc " + hx(b), "random-bytes")
            add("b58_dec " + hx(b58_enc(b)), "random-text-canonical")
        for _ in range(9000 if not thorough else 300000):
            n = rng.choice([rng.randint(0, 40), 11, 22, rng.choice([2, 3, 5, 6, 7, 9, 10, 13, 14, 16, 17, 18, 20, 21])])
            top = rng.choice([58, 58, 30, 8, 2])
            t = bytes(ALPHA[rng.randrange(top)] if rng.random() < 0.97 else rng.getrandbits(7) for _ in range(n))
            add("b58_dec " + hx(t), "random-text")
        for _ in range(300 if not thorough else 5000):
            n = rng.randint(1, 24)
            add("b58_dec " + hx(bytes(rng.getrandbits(8) for _ in range(n))), "random-raw-bytes-as-text")

        # ---- hex form
        for b in base[:3]:
            h = b.hex().encode()
            for m in (h.upper(), b"0x" + h, b"0x" + h.upper(), b"0X" + h, b"0x0x" + h, h[:-1], b"0x" + h[:-1], h + b"0",
                      h[:10] + b"g" + h[11:], h[:10] + b"G" + h[11:], b" " + h, h + b" ", h[:20].upper() + h[20:],
                      b"0x", b"", h[:40] + b"\xc3\xa9" + h[42:], h + h[-8:], b"x" + h, b"00" + h,
                      h.replace(b"a", b"A").replace(b"c", b"C").replace(b"e", b"E"), h[:60] + b"\xff" + h[61:]):
                add("addr_from_hex " + hx(m), "hex-form")
        # ---- consensus form
        for b in base[:3]:
            n = len(b)
            for m in (leb128(n) + b + b"\x00", leb128(n + 1) + b, leb128(n - 1) + b, bytes([0x80 | n, 0x00]) + b,
                      b"\xff\xff\xff\xff\x0f" + b, b"\x81\x80\x80\x10" + b, b"\xff" * 9 + b"\x01" + b, b"\xff" * 10 + b,
                      leb128(n), leb128(n) + b[:-1], b, b"\x00", b"", b"\x00" + b, leb128(n) + b + b,
                      b"\x80\x80\x80\x10" + b, b"\x80\x80\x80\x10", leb128(2 ** 64 - 1) + b, leb128(2 ** 64) + b):
                add("addr_dec " + hx(m), "consensus-form")
        return cs

    # ---------------------------------------------------------------- oracle
    def oracle(self, case, impl, ctx):
        w = impl.split(" ")
        if w[0] in ("PANIC", "ABORT", "TIMEOUT"):
            return "implementation did not return: " + w[0]
        c = case.line.split(" ")
        op = c[0]
        # the two statements of the property, checked on what the implementation returned
        if w[0] == "OK" and op.startswith("addr_") and op not in ("addr_fmt", "addr_of_keys"):
            canon, text = unhx(w[5]), unhx(w[6])
            arg = unhx(c[1])
            if op == "addr_from_bytes" and canon != arg:
                return "blob %s accepted but the canonical bytes of the address returned are %s" % (c[1], w[5])
            if op == "addr_from_str" and text != arg:
                return "text %r accepted but the address returned prints as %r" % (arg, text)
            if op == "addr_dec" and leb128(len(canon)) + canon != arg:
                return "consensus bytes %s accepted but the address returned serialises to %s" % (c[1], (leb128(len(canon)) + canon).hex())
            if op == "addr_from_hex" and canon.hex() != (arg[2:] if arg[:2] == b"0x" else arg).decode("latin1").lower():
                return "hex text %r accepted but the address returned has bytes %s" % (arg, w[5])
            if text != b58_enc(canon):
                return "printed text %r is not the Monero base58 of %s" % (text, w[5])
        if w[0] == "OK" and op == "b58_dec" and b58_enc(unhx(w[1])) != unhx(c[1]):
            return "base58 text %r accepted but its bytes re-encode to %r" % (unhx(c[1]), b58_enc(unhx(w[1])))
        # conformance to the independent implementation (acceptance and every output field)
        exp = expected(case.line)
        if exp is not None and impl != exp:
            return "%s: implementation %s, reference %s" % (case.line[:80], impl[:300], exp[:300])
        return None

    def neighbours(self, case, rng):
        c = case.line.split(" ")
        out = []
        if len(c) == 2 and c[1] != "-":
            b = bytearray(unhx(c[1]))
            for i in range(len(b)):
                for v in (b[i] ^ 1, b[i] ^ 0x80, 0, 0xff):
                    m = bytearray(b)
                    m[i] = v
                    out.append(Case("%s %s" % (c[0], hx(m))))
            for k in range(len(b)):
                out.append(Case("%s %s" % (c[0], hx(b[:k]))))
        return out

    # ---------------------------------------------------------------- evaluator A, targeted
    def extra_coverage(self, cases, impl, model):
        """The kernel-evaluated model (coqc vm_compute) needs ~10 s per public-key decompression, so a uniform sample is
        not affordable.  Cheap cases (no key test reached) are sampled widely; a few key-testing cases are evaluated
        one per coqc process so that they run in parallel."""
        if not cases or not model:
            return {}
        cheap, costly = [], []
        named = []       # addr_of_keys costs two scalar multiplications (~25 s each in vm_compute): only the first one
        for i, c in enumerate(cases):
            op = c.line.split(" ")[0]
            if op == "addr_of_keys":
                if not named:
                    named.append(i)
                continue
            if op in ("b58_enc", "b58_dec", "addr_fmt"):
                cheap.append(i)
            else:
                d = None
                w = c.line.split(" ")
                if op == "addr_from_bytes":
                    d = unhx(w[1])
                elif op == "addr_from_str":
                    d = b58_dec(unhx(w[1]))
                if op in ("addr_from_bytes", "addr_from_str") and (d is None or len(d) < 65 or d[0] not in INV or
                                                                   (INV[d[0]][1] == "int" and len(d) < 73)):
                    cheap.append(i)
                else:
                    costly.append(i)
        import random
        r = random.Random(len(cases))
        r.shuffle(cheap)
        r.shuffle(costly)
        cheap, costly = sorted(cheap[:600]), sorted(costly[:8] + named)
        bad = framework.run_evalA([(cases[i].line, model[i]) for i in cheap], "C12-cheap", shard=60)
        if bad:
            raise framework.Infra("evaluators A and B disagree on %r" % cases[cheap[bad[0]]].line[:300])
        bad = framework.run_evalA([(cases[i].line, model[i]) for i in costly], "C12-keys", shard=1)
        if bad:
            raise framework.Infra("evaluators A and B disagree on %r" % cases[costly[bad[0]]].line[:300])
        return {"evaluatorA_cases_crosschecked": len(cheap) + len(costly),
                "evaluatorA_sampling": "targeted: %d cases that stop before a key test + %d key-testing cases "
                                       "(one coqc each)" % (len(cheap), len(costly))}


CHECK = C12()
