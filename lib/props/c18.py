# C18 — amount arithmetic is exact or refuses.  Correspondence stream (both cargo profiles) + direct oracle computed
# here with python integers (truncating division written out), never by asking the model.
from framework import Check, Case

U_MAX = 2**64 - 1
I_MIN, I_MAX = -2**63, 2**63 - 1
OPS = ("add", "sub", "mul", "div", "rem")
FORMS = ("checked", "operator", "assign")


def tquot(a, b):
    q = abs(a) // abs(b)
    return q if (a >= 0) == (b >= 0) else -q


def exact(op, a, b):
    if op == "add":
        return a + b
    if op == "sub":
        return a - b
    if op == "mul":
        return a * b
    if op == "div":
        return tquot(a, b)
    return a - b * tquot(a, b)


def expected(t, op, form, a, b):
    lo, hi = (0, U_MAX) if t == "u" else (I_MIN, I_MAX)
    if op in OPS:
        none = "NONE" if form == "checked" else "PANIC"
        if op in ("div", "rem") and b == 0:
            return none
        r = exact(op, a, b)
        return ("OK %d" % r) if lo <= r <= hi else none
    if op == "to_signed":
        return ("OK %d" % a) if a <= I_MAX else "ERR"
    if op == "to_unsigned":
        return ("OK %d" % a) if a >= 0 else "ERR"
    if op == "positive_sub":
        return ("OK %d" % (a - b)) if 0 <= b <= a else "NONE"
    if op == "checked_abs":
        return ("OK %d" % abs(a)) if abs(a) <= I_MAX else "NONE"
    if op == "signum":
        return "OK %d" % ((a > 0) - (a < 0))
    if op == "is_negative":
        return "OK true" if a < 0 else "OK false"
    if op == "is_positive":
        return "OK true" if a > 0 else "OK false"
    raise ValueError(op)


U_SPECIAL = sorted(set([0, 1, 2, 3, 7, 10, 255, 256, 10**12, 2**31 - 1, 2**31, 2**32 - 1, 2**32, 2**32 + 1, 4294967297,
                        6700417, 641, 2**63 - 2, 2**63 - 1, 2**63, 2**63 + 1, U_MAX - 2, U_MAX - 1, U_MAX,
                        U_MAX // 2, U_MAX // 3, U_MAX // 10, 3037000499, 3037000500, 4294967295 * 4294967297]))
S_SPECIAL = sorted(set([0, 1, -1, 2, -2, 3, -3, 7, -7, 10, -10, 10**12, -10**12, I_MIN, I_MIN + 1, I_MIN + 2, I_MAX - 2,
                        I_MAX - 1, I_MAX, 2**31, -2**31, 2**32 - 1, 2**32, 2**32 + 1, -(2**32) - 1, -(2**32), -(2**32) + 1,
                        3037000499, 3037000500, -3037000499, -3037000500, I_MAX // 2, I_MIN // 2, I_MAX // 3,
                        2**62, -2**62, 2**62 - 1]))


class C18(Check):
    pid = "C18"
    profiles = ("release", "dev")
    evalA_sample = 1000
    rule = ("amt_op for Amount (u64) and SignedAmount (i64): every pair from a list of special operands (0, +-1, +-2, MIN, "
            "MIN+1, MAX-1, MAX, 2^31, 2^32+-1, sqrt boundaries, ...) x {add,sub,mul,div,rem} x {checked,operator,assign}; "
            "pairs constructed so that the exact result lies within +-2 of 0 / 2^64-1 / -2^63 / 2^63-1 (add, sub, mul by "
            "factor search, div/rem around (MIN,-1) and zero divisors); seeded random pairs of mixed bit widths; "
            "to_signed / to_unsigned / positive_sub / checked_abs / signum / is_negative / is_positive on specials, "
            "boundaries and random values; every case in BOTH cargo profiles (release: overflow checks off, dev: on); "
            "non-trivial = distinct case line; the oracle is exact python integer arithmetic")
    level_note = ("theorems are about the Gallina model Model/Amount.v (std checked_*/wrapping_rem behaviour is modelled, "
                  "not derived); tie to src/util/amount.rs is the correspondence check in release and dev profiles")

    def _pairs(self, t, tier, rng):
        lo, hi = (0, U_MAX) if t == "u" else (I_MIN, I_MAX)
        sp = U_SPECIAL if t == "u" else S_SPECIAL
        inr = lambda v: lo <= v <= hi
        out = []   # (op, a, b, cls)
        for a in sp:
            for b in sp:
                for op in OPS:
                    out.append((op, a, b, "special-pair"))
        nb = 1500 if tier == "quick" else 12000
        bounds = [lo, hi]
        widths = [1, 2, 8, 16, 31, 32, 33, 48, 62, 63, 64]

        def rnd():
            w = rng.choice(widths)
            v = rng.getrandbits(w)
            if t == "s":
                v = v - (1 << (w - 1)) if w > 1 else -v
            return min(max(v, lo), hi)
        for _ in range(nb):
            a = rng.choice([rnd(), rng.choice(sp)])
            bd = rng.choice(bounds)
            for dl in (-2, -1, 0, 1, 2):
                b = bd + dl - a                     # a + b = bd + dl
                if inr(b):
                    out.append(("add", a, b, "near-boundary"))
                b = a - (bd + dl)                   # a - b = bd + dl
                if inr(b):
                    out.append(("sub", a, b, "near-boundary"))
            if a not in (0,):
                q = bd // a if a > 0 or bd % a == 0 else bd // a + 1
                for dl in (-2, -1, 0, 1, 2):
                    b = q + dl                      # a * b close to bd
                    if inr(b):
                        out.append(("mul", a, b, "near-boundary"))
            # quotient / remainder next to the boundaries and to zero
            for b in (0, 1, -1, 2, -2, a, a + 1, a - 1, -a, hi, lo, lo + 1):
                if inr(b):
                    out.append(("div", a, b, "div-rem-edge"))
                    out.append(("rem", a, b, "div-rem-edge"))
        nr = 4000 if tier == "quick" else 300000
        for _ in range(nr):
            out.append((rng.choice(OPS), rnd(), rnd(), "random"))
        return out

    def gen(self, tier, rng):
        cs = []
        # the former finding F6 and its neighbours first
        for form in FORMS:
            for op in ("rem", "div"):
                cs.append(Case("amt_op s %s %s %d -1" % (op, form, I_MIN), "corpus-min-minus1"))
                cs.append(Case("amt_op s %s %s %d 0" % (op, form, I_MIN), "corpus-min-minus1"))
        for t in ("u", "s"):
            for (op, a, b, cls) in self._pairs(t, tier, rng):
                if cls == "random":
                    cs.append(Case("amt_op %s %s %s %d %d" % (t, op, rng.choice(FORMS), a, b), cls))
                else:
                    for form in FORMS:
                        cs.append(Case("amt_op %s %s %s %d %d" % (t, op, form, a, b), cls))
        # conversions and the rest
        uvals = list(U_SPECIAL) + [rng.getrandbits(rng.choice([8, 32, 62, 63, 64])) for _ in range(500)]
        for a in uvals:
            cs.append(Case("amt_op u to_signed fn %d 0" % a, "conversion"))
        svals = list(S_SPECIAL) + [rng.getrandbits(rng.choice([8, 32, 62, 63, 64])) - rng.choice([0, 2**7, 2**31, 2**63])
                                   for _ in range(500)]
        svals = [v for v in svals if I_MIN <= v <= I_MAX]
        for a in svals:
            for op in ("to_unsigned", "checked_abs", "signum", "is_negative", "is_positive"):
                cs.append(Case("amt_op s %s fn %d 0" % (op, a), "conversion" if op == "to_unsigned" else "unary"))
        for a in S_SPECIAL:
            for b in S_SPECIAL:
                cs.append(Case("amt_op s positive_sub fn %d %d" % (a, b), "positive_sub"))
        for _ in range(2000 if tier == "quick" else 100000):
            a = rng.choice(svals)
            b = rng.choice([a, a - 1, a + 1, rng.choice(svals), 0, -1, 1])
            if I_MIN <= b <= I_MAX:
                cs.append(Case("amt_op s positive_sub fn %d %d" % (a, b), "positive_sub"))
        seen = set()
        for c in cs:
            if c.line in seen:
                c.nontrivial = False
            seen.add(c.line)
        return cs

    def oracle(self, case, impl, ctx):
        w = case.line.split(" ")
        _, t, op, form, a, b = w
        exp = expected(t, op, form, int(a), int(b))
        if impl.split(" ")[0] in ("ABORT", "TIMEOUT"):
            return "implementation did not return: " + impl
        if impl != exp:
            what = "exact integer result" if op in OPS else "property"
            return "%s %s(%s, %s) as %s returned %s, the %s demands %s" % (
                "Amount" if t == "u" else "SignedAmount", op, a, b, form, impl, what, exp)
        return None

    def neighbours(self, case, rng):
        w = case.line.split(" ")
        _, t, op, form, a, b = w
        a, b = int(a), int(b)
        lo, hi = (0, U_MAX) if t == "u" else (I_MIN, I_MAX)
        out = []
        for da in (-2, -1, 0, 1, 2):
            for db in (-2, -1, 0, 1, 2):
                if lo <= a + da <= hi and lo <= b + db <= hi:
                    for f in (FORMS if op in OPS else ("fn",)):
                        out.append(Case("amt_op %s %s %s %d %d" % (t, op, f, a + da, b + db)))
        return out

    def extra_coverage(self, cases, impl, model):
        hist = {}
        for c, m in zip(cases, model):
            w = c.line.split(" ")
            k = "%s/%s/%s" % (w[1], w[3], m.split(" ")[0])
            hist[k] = hist.get(k, 0) + 1
        return {"type_form_outcome_histogram": hist}


CHECK = C18()
