# C17 — Keccak-256 with the original padding; hash-to-scalar = little-endian digest mod l.
# Oracle: an independent pure-python Keccak-256 (hashlib.sha3_256 uses the SHA-3 domain suffix and is NOT the same
# function) and python big-int reduction.
from framework import Check, Case

L = 2**252 + 27742317777372353535851937790883648493
M64 = (1 << 64) - 1

_RC = []
_ROT = [[0] * 5 for _ in range(5)]


def _init():
    # round constants from the degree-8 LFSR of the Keccak reference, rotation offsets from the (x,y) walk
    r = 1
    for _ in range(24):
        c = 0
        for j in range(7):
            r = ((r << 1) ^ ((r >> 7) * 0x71)) % 256
            if r & 2:
                c ^= 1 << ((1 << j) - 1)
        _RC.append(c)
    x, y = 1, 0
    for t in range(24):
        _ROT[x][y] = ((t + 1) * (t + 2) // 2) % 64
        x, y = y, (2 * x + 3 * y) % 5


_init()


def _rol(v, n):
    n %= 64
    return ((v << n) | (v >> (64 - n))) & M64 if n else v


def keccak_f(a):
    """a[x][y], 5x5 lanes"""
    for rc in _RC:
        c = [a[x][0] ^ a[x][1] ^ a[x][2] ^ a[x][3] ^ a[x][4] for x in range(5)]
        d = [c[(x - 1) % 5] ^ _rol(c[(x + 1) % 5], 1) for x in range(5)]
        a = [[a[x][y] ^ d[x] for y in range(5)] for x in range(5)]
        b = [[0] * 5 for _ in range(5)]
        for x in range(5):
            for y in range(5):
                b[y][(2 * x + 3 * y) % 5] = _rol(a[x][y], _ROT[x][y])
        a = [[b[x][y] ^ ((~b[(x + 1) % 5][y]) & M64 & b[(x + 2) % 5][y]) for y in range(5)] for x in range(5)]
        a[0][0] ^= rc
    return a


def keccak256(msg, suffix=0x01):
    """sponge with rate 136 bytes; suffix 0x01 = original Keccak padding (0x06 would be SHA-3)"""
    rate = 136
    p = bytearray(msg)
    p.append(suffix)
    while len(p) % rate:
        p.append(0)
    p[-1] |= 0x80
    a = [[0] * 5 for _ in range(5)]
    for off in range(0, len(p), rate):
        blk = p[off:off + rate]
        for i in range(rate // 8):
            a[i % 5][i // 5] ^= int.from_bytes(blk[8 * i:8 * i + 8], "little")
        a = keccak_f(a)
    out = b"".join(a[i % 5][i // 5].to_bytes(8, "little") for i in range(4))
    return out


# self-test of the oracle against published vectors (Keccak-256 of "" and "abc"; SHA3-256 of "" to make sure the
# suffix parameter really distinguishes the two functions)
assert keccak256(b"").hex() == "c5d2460186f7233c927e7db2dcc703c0e500b653ca82273b7bfad8045d85a470"
assert keccak256(b"abc").hex() == "4e03657aea45a94fc7d47ba826c8d667c0d1e6e33a64a036ec44f58fa12d6c45"
assert keccak256(b"", 0x06).hex() == "a7ffc6f8bf1ed76651c14756a061d662f580ff4de43b49fa82d80a4b80f8434a"


# ---- a faster variant for checks that hash a lot (C06): the same permutation as straight-line code on 25 local
# variables (lane i = x + 5y), generated from the same tables; self-tested against the plain version above.
def _gen_fast():
    ind = "        "
    src = ["def keccak_f_fast(s):", "    " + ",".join("a%d" % i for i in range(25)) + " = s", "    for rc in _RC:"]
    for x in range(5):
        src.append(ind + "c%d = a%d^a%d^a%d^a%d^a%d" % (x, x, x + 5, x + 10, x + 15, x + 20))
    for x in range(5):
        src.append(ind + "d%d = c%d ^ ((c%d<<1 | c%d>>63) & M64)" % (x, (x - 1) % 5, (x + 1) % 5, (x + 1) % 5))
    for x in range(5):
        for y in range(5):
            r = _ROT[x][y]
            t = "(a%d^d%d)" % (x + 5 * y, x)
            e = t if r == 0 else "((%s<<%d | %s>>%d) & M64)" % (t, r, t, 64 - r)
            src.append(ind + "b%d = %s" % (y + 5 * ((2 * x + 3 * y) % 5), e))
    for y in range(5):
        for x in range(5):
            src.append(ind + "a%d = b%d ^ (~b%d & b%d)" % (x + 5 * y, x + 5 * y, (x + 1) % 5 + 5 * y, (x + 2) % 5 + 5 * y))
    src.append(ind + "a0 ^= rc")
    src.append("    return [" + ",".join("a%d" % i for i in range(25)) + "]")
    env = {"_RC": _RC, "M64": M64}
    exec("\n".join(src), env)
    return env["keccak_f_fast"]


keccak_f_fast = _gen_fast()


def keccak256_fast(msg):
    rate = 136
    p = bytearray(msg)
    p.append(0x01)
    p.extend(b"\x00" * (-len(p) % rate))
    p[-1] |= 0x80
    a = [0] * 25
    for off in range(0, len(p), rate):
        for i in range(17):
            a[i] ^= int.from_bytes(p[off + 8 * i:off + 8 * i + 8], "little")
        a = keccak_f_fast(a)
    return b"".join(a[i].to_bytes(8, "little") for i in range(4))


for _n in (0, 1, 3, 64, 135, 136, 137, 271, 272, 273, 500):
    _m = bytes((7 * i + _n) % 256 for i in range(_n))
    assert keccak256_fast(_m) == keccak256(_m)


def hx(bs):
    return bytes(bs).hex() if bs else "-"


class C17(Check):
    pid = "C17"
    rule = ("keccak on one random message of EVERY length 0..1100, additionally all-zero and all-0xff messages of every "
            "length within +-3 of every multiple of 136 up to 1100 (thorough: three contents for every length 0..1100 "
            "plus 200 random lengths up to 20000; quick: 6 such), plus published vectors; h2s on the digests 0, 1, l-1, l, l+1, 2l, 15l..16l+1, 2^252, 2^255, "
            "2^256-1 and seeded random 32-byte strings; non-trivial = distinct case line")
    level_note = ("theorems are about the Gallina model Model/Keccak.v, proved equal on bit strings to the FIPS 202 sponge over "
                  "a bit-level Keccak-p[1600,24] (Spec/Sponge.v, Spec/KeccakF.v, Spec/Pad.v; no domain suffix); the tie to "
                  "src/cryptonote/hash.rs (tiny-keccak, curve25519-dalek reduction) is the correspondence check")
    evalA_sample = 400   # mostly cheap h2s cases; about 20 of them are keccak cases (30 ms per permutation in the VM)

    def gen(self, tier, rng):
        cs = []
        seen = set()

        def add(line, cls):
            if line not in seen:
                seen.add(line)
                cs.append(Case(line, cls))

        add("keccak -", "kat")
        add("keccak " + b"abc".hex(), "kat")
        add("keccak " + b"The quick brown fox jumps over the lazy dog".hex(), "kat")
        # messages that LOOK like an encoding of other data: hex text with and without prefix, base58 text, JSON, decimal digits -
        # the hash is of the bytes given, whatever they spell
        for t in (b"0x", b"0x00", b"0X00", b"0x0", b"0xdeadbeef", b"0x" + b"ab" * 32, b"0x" + b"00" * 64, b"00", b"deadbeef", b"ab" * 32,
                  b"DEADBEEF", b"0x00 ", b" 0x00", b"0x00\n", b"\"0x00\"", b"[1,2,3]", b"{\"a\":1}", b"null", b"1234567890", b"-1",
                  b"4ADT1BtbxqEWeMKp9GgPr2NeyJXXtNxvoDawpyA4WpzFcGcoHUvXeijE66DNfohE9r1bQYaBiQjEtKE7CtkTdLwiDznFzra",
                  b"base64:AAAA", b"AAAA", b"=?utf-8?", b"%30%78", b"\\x00", b"0b1010", b"0o17", b"#00ff00"):
            add("keccak " + t.hex(), "text-that-looks-like-an-encoding")
        # the domain-separation salts of the source as messages and as message prefixes (a hash that treats them specially)
        for salt in (b"view_tag", b"SubAddr\x00", b"commitment_mask", b"amount", b"ViewTag", b"subaddr"):
            for tail in (b"", b"\x00", b"\x01" * 32, b"\x02" * 32 + b"\x00", b"\x03" * 40):
                add("keccak " + (salt + tail).hex(), "source-salt-as-message")
        for n in range(0, 1101):
            boundary = n % 136 in (133, 134, 135, 0, 1, 2, 3)
            cls = "len-boundary" if boundary else "len"
            add("keccak " + hx(rng.getrandbits(8 * n).to_bytes(n, "little") if n else b""), cls)
            if tier == "thorough" or boundary:
                add("keccak " + hx(b"\x00" * n), cls + "-zeros")
                add("keccak " + hx(b"\xff" * n), cls + "-ff")
        for _ in range(6 if tier == "quick" else 200):
            n = rng.randint(1101, 20000)
            add("keccak " + hx(rng.getrandbits(8 * n).to_bytes(n, "little")), "long")
        # hash-to-scalar on chosen digests
        vals = [0, 1, 2, L - 2, L - 1, L, L + 1, 2 * L - 1, 2 * L, 2 * L + 1, 2**252 - 1, 2**252, 2**252 + 1, 2**253,
                2**254, 2**255 - 20, 2**255 - 19, 2**255 - 1, 2**255, 2**255 + 1, 2**256 - 1, 2**256 - 2,
                15 * L - 1, 15 * L, 15 * L + 1, 16 * L - 1, 8 * L, 8 * L - 1]
        # 16*l > 2^256? l is a little above 2^252, so 15*l < 2^256 < 16*l: keep only representable values
        for v in vals:
            if 0 <= v < 2**256:
                add("h2s " + v.to_bytes(32, "little").hex(), "h2s-boundary")
        for k in range(1, 16):
            for d in (-1, 0, 1):
                v = k * L + d
                if v < 2**256:
                    add("h2s " + v.to_bytes(32, "little").hex(), "h2s-multiple-of-l")
        for i in range(256):
            add("h2s " + (1 << i).to_bytes(32, "little").hex(), "h2s-single-bit")
        for _ in range(20000 if tier == "quick" else 300000):
            add("h2s " + rng.getrandbits(256).to_bytes(32, "little").hex(), "h2s-random")
        # the trait default method Hashable::hash_to_scalar (= int_le(self.hash()) mod l) on hashable objects: public keys
        # (hash = Keccak of the 32 key bytes) and the transactions / prefixes of the repository's test data
        import os
        keys = ["5866666666666666666666666666666666666666666666666666666666666666",
                "0100000000000000000000000000000000000000000000000000000000000000",
                "8b655970153799af2aeadc9ff1add0ea6c7251d54154cfa92c173a0dd39c1f94",
                "c9a3f86aae465f0e56513864510f3997561fa2c9e85ea21dc2292309f3cd6022"]
        for k in keys:
            cs.append(Case("trait_h2s pk " + k, "trait-h2s-pk"))
        here = os.path.dirname(os.path.dirname(os.path.dirname(os.path.abspath(__file__))))
        for l in list(open(os.path.join(here, "corpus", "tx_ids.txt")))[:8]:
            h = l.split()[0]
            if len(h) < 6000:
                cs.append(Case("trait_h2s tx " + h, "trait-h2s-tx"))
        return cs

    def evalA_ok(self, line):
        return not line.startswith("trait_h2s")        # key validation / long transactions are slow under vm_compute

    def oracle(self, case, impl, ctx):
        if case.line.startswith("trait_h2s "):
            _, T, arg = case.line.split(" ")
            w = impl.split(" ")
            if T == "pk":
                d = keccak256(bytes.fromhex(arg))
                want = "OK " + (int.from_bytes(d, "little") % L).to_bytes(32, "little").hex()
                if impl != want:
                    return "Hashable::hash_to_scalar of a public key: implementation %s, int_le(Keccak(key)) mod l = %s" % (impl[:100], want)
            elif w[0] != "OK":
                return "Hashable::hash_to_scalar of a parsable transaction did not return: " + impl[:60]
            return None
        op, arg = case.line.split(" ")
        w = impl.split(" ")
        if w[0] in ("PANIC", "ABORT", "TIMEOUT"):
            return "implementation did not return: " + w[0]
        b = b"" if arg == "-" else bytes.fromhex(arg)
        if op == "keccak":
            d = keccak256(b)
            want = "OK %s %d" % (d.hex(), int.from_bytes(d, "little") % L)
            if impl != want:
                return "hash of a %d-byte message: implementation %s, reference Keccak-256 / mod l gives %s" % (
                    len(b), impl[:200], want)
        elif op == "h2s":
            s = int.from_bytes(b, "little") % L
            want = "OK %d %s" % (s, s.to_bytes(32, "little").hex())
            if impl != want:
                return "scalar of digest %s: implementation %s, int_le mod l gives %s" % (arg, impl[:200], want)
        return None

    def neighbours(self, case, rng):
        if case.line.startswith("trait_h2s "):
            return []
        op, arg = case.line.split(" ")
        out = []
        b = b"" if arg == "-" else bytes.fromhex(arg)
        if op == "keccak":
            for n in range(max(0, len(b) - 3), len(b) + 4):
                out.append(Case("keccak " + hx((b + b"\x00" * 8)[:n])))
            for n in (0, 1, 135, 136, 137, 271, 272, 273):
                out.append(Case("keccak " + hx(b"\x00" * n)))
        else:
            v = int.from_bytes(b, "little")
            for d in (-1, 1, L, -L):
                if 0 <= v + d < 2**256:
                    out.append(Case("h2s " + (v + d).to_bytes(32, "little").hex()))
        return out


CHECK = C17()
