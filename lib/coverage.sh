#!/bin/sh
# coverage.sh — DEV AID (not part of any registered check): which lines of /repo/src do the correspondence streams execute?
# Builds the harness with source-based coverage (nightly toolchain's llvm-tools), replays the case lines dumped by
# `VERIF_DUMP_CASES=1 ./check Cxx quick` (build/cases/*.lines) and prints an llvm-cov report restricted to /repo/src.
set -e
cd "$(dirname "$0")/.."
TOOLS=/root/.rustup/toolchains/nightly-x86_64-unknown-linux-gnu/lib/rustlib/x86_64-unknown-linux-gnu/bin
export CARGO_TARGET_DIR=$PWD/build/cargo-cov CARGO_NET_OFFLINE=true
(cd harness && RUSTFLAGS="-C instrument-coverage --cfg monero_rs_verif -Awarnings" cargo +nightly build --offline --release --quiet)
rm -rf build/cov; mkdir -p build/cov
for f in build/cases/*.lines; do
  n=$(basename $f .lines)
  split -l 20000 -d "$f" build/cov/$n.part.
  for p in build/cov/$n.part.*; do
    LLVM_PROFILE_FILE=build/cov/$n-%p-%m.profraw timeout 1200 build/cargo-cov/release/mrs-harness < $p > /dev/null || true
    rm -f $p
  done
done
$TOOLS/llvm-profdata merge -sparse build/cov/*.profraw -o build/cov/all.profdata
$TOOLS/llvm-cov report build/cargo-cov/release/mrs-harness -instr-profile=build/cov/all.profdata $(find /repo/src -name '*.rs') 2>/dev/null | tee build/cov/report.txt
$TOOLS/llvm-cov show build/cargo-cov/release/mrs-harness -instr-profile=build/cov/all.profdata $(find /repo/src -name '*.rs') -show-line-counts-or-regions 2>/dev/null > build/cov/show.txt
