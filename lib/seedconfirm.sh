#!/bin/sh
# seedconfirm.sh <dir with patch.diff demo.rs meta.json> <property id> <name>
# Confirms in a scratch worktree of /repo: suite passes with the change; demo fails with it and passes without it.
# Copies the confirmed seed to /verif/seeded/<name>/ with the confirmation recorded in meta.json.
src="$1"; pid="$2"; name="$3"
feat=""; [ "$pid" = "C19" ] && feat="--features serde"
wt=/tmp/confirm-$name; export CARGO_TARGET_DIR=/tmp/confirm-target
git -C /repo worktree remove --force $wt 2>/dev/null
git -C /repo worktree add -q --detach $wt HEAD || exit 2
cd $wt
git apply "$src/patch.diff" || { echo "PATCH-DOES-NOT-APPLY"; git -C /repo worktree remove --force $wt; exit 2; }
suite=$(cargo test --offline 2>&1 | grep -E "^test result" | grep -vc " 0 failed")
suite_ok=false; [ "$suite" = "0" ] && suite_ok=true
if [ -n "$feat" ]; then s2=$(cargo test --offline $feat 2>&1 | grep -E "^test result" | grep -vc " 0 failed"); [ "$s2" = "0" ] || suite_ok=false; fi
cp "$src/demo.rs" tests/demo_seed.rs
with=$(cargo test --offline $feat --test demo_seed 2>&1 | grep -E "^test result" | head -1)
git checkout -q -- src
without=$(cargo test --offline $feat --test demo_seed 2>&1 | grep -E "^test result" | head -1)
cd /; git -C /repo worktree remove --force $wt
fails_with=false; echo "$with" | grep -q "FAILED" && fails_with=true
passes_without=false; echo "$without" | grep -q "test result: ok" && passes_without=true
echo "$name: suite_ok=$suite_ok demo_fails_with=$fails_with demo_passes_without=$passes_without"
if $suite_ok && $fails_with && $passes_without; then
  mkdir -p /verif/seeded/$name
  cp "$src/patch.diff" "$src/demo.rs" /verif/seeded/$name/
  python3 - "$src/meta.json" /verif/seeded/$name/meta.json "$pid" <<'PY'
import json,sys
m=json.load(open(sys.argv[1])); m["property"]=sys.argv[3]
m["confirmed_by_me"]={"suite_passes_with_change":True,"demo_fails_with_change":True,"demo_passes_without_change":True,
 "how":"lib/seedconfirm.sh: scratch worktree of /repo HEAD, git apply patch.diff, cargo test --offline (full suite), tests/demo_seed.rs with and without the patch"}
json.dump(m,open(sys.argv[2],"w"),indent=1)
PY
  echo "CONFIRMED $name"
else
  echo "NOT-CONFIRMED $name ($with | $without)"
fi
