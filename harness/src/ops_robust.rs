// C04 (robustness): operations on parsed objects, and the text parsers that have no op elsewhere.
// Public API of the crate only.  Mirror of coq/Model/OpsRobust.v (which answers from the decoder alone).
//
//   parsed_ops [@sizes] <tx|block|prefix|header> <hex>
//       crate::ops_codec::dp::<T>; on success every public operation offered on the parsed value is run
//       (serialize, hash / Hashable, Block::id / tx_root / serialize_hashable, ExtraField::try_parse and
//       RawExtraField::try_parse, RawExtraField::from(parsed extra) when the extra parsed completely,
//       Display formatting of the object and of its parts, check_outputs with a fixed view pair and the index
//       ranges 0..2 x 0..3).  Result: OK | ERR (parse error).  A panic anywhere becomes PANIC in main.
//   psyn [@sizes] <T> <prefix hex> <unit hex> <count> <suffix hex>
//       the same on the input  prefix ++ unit^count ++ suffix  built here (inputs too big for a protocol line
//       of the model evaluator)
//   parsed_scan [@sizes] <tx|block|prefix> <hex> <maj_lo> <maj_hi> <min_lo> <min_hi>
//       output scanning of whatever parses, with the caller's index ranges major = maj_lo..maj_hi, minor = min_lo..min_hi
//       (empty, reversed, near u32::MAX ... ; a non-empty table is limited to 4096 entries): Transaction::check_outputs,
//       TransactionPrefix::check_outputs (without / with the RingCT base), SubKeyChecker::new + check_outputs_with on both,
//       and every accessor of the OwnedTxOut values found.  Result: OK | ERR (parse error), never the scan result.
//   hexparse <hash|hash8|pid> <text as hex>      Hash / Hash8 / PaymentId :: from_hex        -> OK <bytes> | ERR
//   denom <text as hex>                          Denomination::from_str                     -> OK <name> | ERR
use crate::{show_hex, unhex};
use hex::FromHex;
use monero::blockdata::transaction::{ExtraField, RawExtraField};
use monero::consensus::encode::{deserialize_partial, serialize};
use monero::cryptonote::hash::{Hash, Hash8, Hashable};
use monero::util::address::PaymentId;
use monero::cryptonote::onetime_key::SubKeyChecker;
use monero::util::key::{PrivateKey, PublicKey, ViewPair};
use std::ops::Range;
use monero::{Block, BlockHeader, Denomination, Transaction, TransactionPrefix};
use std::hint::black_box;
use std::str::FromStr;

// scanning costs one scalar multiplication per output; keep the wall clock of the adversarial stream bounded
const SCAN_MAX_OUTPUTS: usize = 4096;

fn fmt_len<T: std::fmt::Display>(x: &T) -> usize {
    black_box(format!("{}", x)).len()
}

fn view_pair() -> ViewPair {
    let mut one = [0u8; 32];
    one[0] = 1;
    let mut g = [0x66u8; 32];
    g[0] = 0x58; // the Ed25519 base point
    ViewPair {
        view: PrivateKey::from_slice(&one).unwrap(),
        spend: PublicKey::from_slice(&g).unwrap(),
    }
}

fn extra_ops(raw: &RawExtraField) {
    let e = raw.try_parse();
    black_box(fmt_len(&e));
    black_box(e.tx_pubkey());
    black_box(e.tx_additional_pubkeys());
    match ExtraField::try_parse(raw) {
        Ok(f) => {
            black_box(serialize(&f));
            // C16_ok_idempotent: a complete parse re-serialises to the same length, so the conversion is within the cap
            let back = RawExtraField::from(f);
            black_box(back.0.len());
        }
        Err(f) => {
            black_box(serialize(&f));
        }
    }
}

fn prefix_ops(p: &TransactionPrefix) {
    black_box(serialize(p));
    black_box(p.hash());
    black_box(p.hash_to_scalar());
    black_box(fmt_len(p));
    black_box((p.nb_inputs(), p.nb_outputs()));
    for i in p.inputs.iter() {
        black_box(serialize(i));
    }
    for o in p.outputs.iter() {
        black_box(o.target.as_one_time_key());
        black_box(fmt_len(&o.amount));
    }
    extra_ops(&p.extra);
    if p.outputs.len() <= SCAN_MAX_OUTPUTS {
        let _ = black_box(p.check_outputs(&view_pair(), 0..2, 0..3, None));
    }
}

fn tx_ops(tx: &Transaction) {
    black_box(serialize(tx));
    black_box(tx.hash());
    black_box(tx.hash_to_scalar());
    black_box(fmt_len(tx));
    black_box((tx.nb_inputs(), tx.nb_outputs()));
    prefix_ops(tx.prefix());
    if let Some(b) = &tx.rct_signatures.sig {
        black_box(serialize(b));
        black_box(b.hash());
        black_box(fmt_len(b));
    }
    black_box(fmt_len(&tx.rct_signatures));
    if tx.prefix.outputs.len() <= SCAN_MAX_OUTPUTS {
        if let Ok(owned) = black_box(tx.check_outputs(&view_pair(), 0..2, 0..3)) {
            for o in owned.iter() {
                black_box((o.index(), o.sub_index(), o.tx_pubkey(), o.amount(), o.blinding_factor(), o.commitment()));
            }
        }
    }
}

fn header_ops(h: &BlockHeader) {
    black_box(serialize(h));
    black_box(fmt_len(h));
}

fn block_ops(b: &Block) {
    black_box(serialize(b));
    black_box(b.id());
    black_box(b.tx_root());
    black_box(b.serialize_hashable());
    black_box(fmt_len(b));
    header_ops(&b.header);
    tx_ops(&b.miner_tx);
}

fn parsed_ops(ty: &str, b: &[u8]) -> Option<String> {
    macro_rules! go {
        ($t:ty, $f:expr) => {
            match crate::ops_codec::dp::<$t>(b) {
                Ok((x, _)) => {
                    $f(&x);
                    "OK".to_string()
                }
                Err(e) => crate::err_shown(&e),
            }
        };
    }
    Some(match ty {
        "tx" => go!(Transaction, tx_ops),
        "block" => go!(Block, block_ops),
        "prefix" => go!(TransactionPrefix, prefix_ops),
        "header" => go!(BlockHeader, header_ops),
        _ => return None,
    })
}

fn touch_owned(owned: &[monero::OwnedTxOut]) -> usize {
    for o in owned.iter() {
        black_box((o.index(), o.out().amount.0, o.sub_index(), o.tx_pubkey(), o.amount(), o.blinding_factor(), o.commitment()));
    }
    owned.len()
}

fn scan_prefix(p: &TransactionPrefix, base: Option<&monero::util::ringct::RctSigBase>, maj: Range<u32>, min: Range<u32>) -> usize {
    let pair = view_pair();
    let mut found = 0;
    if let Ok(o) = black_box(p.check_outputs(&pair, maj.clone(), min.clone(), None)) {
        found += touch_owned(&o);
    }
    if let Ok(o) = black_box(p.check_outputs(&pair, maj.clone(), min.clone(), base)) {
        found += touch_owned(&o);
    }
    let checker = SubKeyChecker::new(&pair, maj, min);
    if let Ok(o) = black_box(p.check_outputs_with(&checker, base)) {
        found += touch_owned(&o);
    }
    found
}

fn scan_tx(tx: &Transaction, maj: Range<u32>, min: Range<u32>) -> usize {
    let pair = view_pair();
    let mut found = 0;
    if let Ok(o) = black_box(tx.check_outputs(&pair, maj.clone(), min.clone())) {
        found += touch_owned(&o);
    }
    let checker = SubKeyChecker::new(&pair, maj.clone(), min.clone());
    if let Ok(o) = black_box(tx.check_outputs_with(&checker)) {
        found += touch_owned(&o);
    }
    found + scan_prefix(tx.prefix(), tx.rct_signatures.sig.as_ref(), maj, min)
}

fn parsed_scan(ty: &str, b: &[u8], maj: Range<u32>, min: Range<u32>) -> Option<String> {
    let found;
    match ty {
        "tx" => match crate::ops_codec::dp::<Transaction>(b) {
            Ok((x, _)) => found = scan_tx(&x, maj, min),
            Err(_) => return Some("ERR".into()),
        },
        "block" => match crate::ops_codec::dp::<Block>(b) {
            Ok((x, _)) => found = scan_tx(&x.miner_tx, maj, min),
            Err(_) => return Some("ERR".into()),
        },
        "prefix" => match crate::ops_codec::dp::<TransactionPrefix>(b) {
            Ok((x, _)) => found = scan_prefix(&x, None, maj, min),
            Err(_) => return Some("ERR".into()),
        },
        _ => return None,
    }
    if std::env::var_os("MRS_SCAN_DEBUG").is_some() {
        eprintln!("parsed_scan: {} owned outputs reported", found);
    }
    Some("OK".into())
}

fn strip_sizes<'a, 'b>(args: &'a [&'b str]) -> Result<&'a [&'b str], String> {
    if let Some(a) = args.first() {
        if a.starts_with('@') {
            if *a != crate::ops_codec::sizes() {
                return Err("SIZES-MISMATCH".into());
            }
            return Ok(&args[1..]);
        }
    }
    Ok(args)
}

pub fn run(op: &str, args: &[&str]) -> Option<String> {
    match op {
        "parsed_ops" => {
            let args = match strip_sizes(args) {
                Ok(a) => a,
                Err(e) => return Some(e),
            };
            if args.len() != 2 {
                return None;
            }
            let b = unhex(args[1])?;
            parsed_ops(args[0], &b)
        }
        "parsed_scan" => {
            let args = match strip_sizes(args) {
                Ok(a) => a,
                Err(e) => return Some(e),
            };
            if args.len() != 6 {
                return None;
            }
            let b = unhex(args[1])?;
            let n: Vec<u32> = args[2..].iter().filter_map(|a| a.parse().ok()).collect();
            if n.len() != 4 {
                return None;
            }
            // the table costs one scalar multiplication per entry: the generator keeps non-empty tables small
            let rows = n[1].saturating_sub(n[0]) as u64;
            let cols = n[3].saturating_sub(n[2]) as u64;
            // (an empty minor range does not make a huge major range free: SubKeyChecker::new still iterates over it)
            if rows > 4096 || cols > 4096 || rows * cols > 4096 {
                return None;
            }
            parsed_scan(args[0], &b, n[0]..n[1], n[2]..n[3])
        }
        "psyn" => {
            let args = match strip_sizes(args) {
                Ok(a) => a,
                Err(e) => return Some(e),
            };
            if args.len() != 5 {
                return None;
            }
            let pre = unhex(args[1])?;
            let unit = unhex(args[2])?;
            let count: usize = args[3].parse().ok()?;
            let suf = unhex(args[4])?;
            let total = pre.len().checked_add(unit.len().checked_mul(count)?)?.checked_add(suf.len())?;
            if total > 64 * 1024 * 1024 {
                return None;
            }
            let mut b = Vec::with_capacity(total);
            b.extend_from_slice(&pre);
            for _ in 0..count {
                b.extend_from_slice(&unit);
            }
            b.extend_from_slice(&suf);
            parsed_ops(args[0], &b)
        }
        "hexparse" => {
            if args.len() != 2 {
                return None;
            }
            let t = unhex(args[1])?;
            Some(match args[0] {
                "hash" => match Hash::from_hex(&t) {
                    Ok(h) => format!("OK {}", show_hex(&h.0)),
                    Err(e) => crate::err_shown(&e),
                },
                "hash8" => match Hash8::from_hex(&t) {
                    Ok(h) => format!("OK {}", show_hex(&h.0)),
                    Err(e) => crate::err_shown(&e),
                },
                "pid" => match PaymentId::from_hex(&t) {
                    Ok(h) => format!("OK {}", show_hex(&h.0)),
                    Err(e) => crate::err_shown(&e),
                },
                _ => return None,
            })
        }
        "denom" => {
            if args.len() != 1 {
                return None;
            }
            let s = String::from_utf8(unhex(args[0])?).ok()?; // a &str is valid UTF-8 by construction
            Some(match Denomination::from_str(&s) {
                Ok(d) => format!("OK {}", d),
                Err(e) => crate::err_shown(&e),
            })
        }
        _ => None,
    }
}
