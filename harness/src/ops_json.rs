// C19: serde / serde_json representations (mirror of coq/Model/OpsJson.v).  Public API of the crate only:
// the derived / hand-written Serialize + Deserialize impls reached through serde_json::{to_string, from_str},
// and the amount helper modules reached through `#[serde(with = ...)]` on small wrapper structs.
use crate::ops_codec::{parse_all, show, Tok, Toks, P};
use crate::{show_hex, unhex};
use curve25519_dalek::edwards::CompressedEdwardsY;
use monero::blockdata::transaction::{RawExtraField, TxIn, TxOut, TxOutTarget};
use monero::consensus::encode::VarInt;
use monero::cryptonote::hash::{Hash, Hash8};
use monero::cryptonote::subaddress::Index;
use monero::util::address::{Address, AddressType, PaymentId};
use monero::util::amount::SignedAmount;
use monero::util::ringct::*;
use monero::{Amount, Block, BlockHeader, Network, PublicKey, Transaction, TransactionPrefix};
use serde::de::DeserializeOwned;
use serde::{Deserialize, Serialize};

// ------------------------------------------------------------------ token forms of Index and Address
impl Tok for Index {
    fn show(&self, out: &mut Toks) {
        out.push(self.major.to_string());
        out.push(self.minor.to_string());
    }
    fn parse(p: &mut P) -> Option<Self> {
        Some(Index { major: u32::parse(p)?, minor: u32::parse(p)? })
    }
}

fn net(s: &str) -> Option<Network> {
    match s {
        "main" => Some(Network::Mainnet),
        "test" => Some(Network::Testnet),
        "stage" => Some(Network::Stagenet),
        _ => None,
    }
}
fn net_s(n: Network) -> &'static str {
    match n {
        Network::Mainnet => "main",
        Network::Testnet => "test",
        Network::Stagenet => "stage",
    }
}
// a PublicKey from its public field: no validation, exactly what a caller can build
fn pk(p: &mut P) -> Option<PublicKey> {
    Some(PublicKey { point: CompressedEdwardsY(p.arr::<32>()?) })
}
impl Tok for Address {
    fn show(&self, out: &mut Toks) {
        out.push(net_s(self.network).to_string());
        out.push(match &self.addr_type {
            AddressType::Standard => "std".to_string(),
            AddressType::SubAddress => "sub".to_string(),
            AddressType::Integrated(p) => format!("int:{}", show_hex(&p.0)),
        });
        out.push(show_hex(self.public_spend.as_bytes()));
        out.push(show_hex(self.public_view.as_bytes()));
    }
    fn parse(p: &mut P) -> Option<Self> {
        let network = net(p.word()?)?;
        let t = p.word()?;
        let addr_type = match t {
            "std" => AddressType::Standard,
            "sub" => AddressType::SubAddress,
            _ => {
                let b = unhex(t.strip_prefix("int:")?)?;
                if b.len() != 8 {
                    return None;
                }
                AddressType::Integrated(PaymentId::from_slice(&b))
            }
        };
        Some(Address { network, addr_type, public_spend: pk(p)?, public_view: pk(p)? })
    }
}

// ------------------------------------------------------------------ JSON text from the token form of a JSON value
fn jstr(w: &str, out: &mut String) -> Option<()> {
    let s = String::from_utf8(unhex(w.strip_prefix('s')?)?).ok()?;
    out.push_str(&serde_json::to_string(&s).ok()?);
    Some(())
}
fn jtext(p: &mut P, out: &mut String) -> Option<()> {
    let w = p.word()?;
    match w {
        "n" => out.push_str("null"),
        "t" => out.push_str("true"),
        "f" => out.push_str("false"),
        _ => match w.as_bytes().first()? {
            b'i' => {
                let d = &w[1..];
                let digits = d.strip_prefix('-').unwrap_or(d);
                if digits.is_empty() || !digits.bytes().all(|c| c.is_ascii_digit()) {
                    return None;
                }
                out.push_str(d)
            }
            b's' => jstr(w, out)?,
            b'a' => {
                let n: usize = w[1..].parse().ok()?;
                out.push('[');
                for i in 0..n {
                    if i > 0 {
                        out.push(',')
                    }
                    jtext(p, out)?;
                }
                out.push(']')
            }
            b'o' => {
                let n: usize = w[1..].parse().ok()?;
                out.push('{');
                for i in 0..n {
                    if i > 0 {
                        out.push(',')
                    }
                    jstr(p.word()?, out)?;
                    out.push(':');
                    jtext(p, out)?;
                }
                out.push('}')
            }
            _ => return None,
        },
    }
    Some(())
}
fn json_text_of_tokens(t: &[&str]) -> Option<String> {
    let mut p = P { t, i: 0 };
    let mut out = String::new();
    jtext(&mut p, &mut out)?;
    if p.i == t.len() {
        Some(out)
    } else {
        None
    }
}

// ------------------------------------------------------------------ ops, generic in the type
fn op_generic<T: Tok + Serialize + DeserializeOwned>(op: &str, args: &[&str]) -> Option<String> {
    match op {
        "json" => {
            let x: T = parse_all(args)?;
            Some(match serde_json::to_string(&x) {
                Ok(s) => format!("OK {}", show_hex(s.as_bytes())),
                Err(e) => crate::err_shown(&e),
            })
        }
        "json_rt" => {
            let x: T = parse_all(args)?;
            // read the JSON back along three routes (text, reader, serde_json::Value): all must give the value back
            Some(match serde_json::to_string(&x) {
                Ok(s) => {
                    let want = show(&x);
                    let a = serde_json::from_str::<T>(&s).map(|y| show(&y) == want);
                    let b = serde_json::from_reader::<_, T>(s.as_bytes()).map(|y| show(&y) == want);
                    let c = serde_json::to_value(&x).and_then(serde_json::from_value::<T>).map(|y| show(&y) == want);
                    match (a, b, c) {
                        (Ok(a), Ok(b), Ok(c)) => format!("OK {}", (a && b && c) as u8),
                        (Err(_), Err(_), Err(_)) => "ERR".into(),
                        (a, b, c) => format!("ROUTES-DISAGREE:text={}:reader={}:value={}", a.is_ok(), b.is_ok(), c.is_ok()),
                    }
                }
                Err(e) => crate::err_shown(&e),
            })
        }
        "json_de" => {
            // arbitrary (possibly non-canonical) JSON: the text deserializer only.  serde_json's Value route is stricter on
            // non-canonical shapes (e.g. it refuses the positional form of a struct variant), which is a property of serde_json,
            // not of the crate; canonical output is read along all three routes in json_rt.
            let text = json_text_of_tokens(args)?;
            Some(match serde_json::from_str::<T>(&text) {
                Ok(y) => format!("OK {}", show(&y)),
                Err(e) => crate::err_shown(&e),
            })
        }
        _ => None,
    }
}

// ------------------------------------------------------------------ amounts through every helper module
macro_rules! wrapper {
    ($name:ident, $ty:ty, $($attr:tt)*) => {
        #[derive(Serialize, Deserialize)]
        struct $name {
            #[serde($($attr)*)]
            v: $ty,
        }
    };
}
wrapper!(UPico, Amount, with = "monero::util::amount::serde::as_pico");
wrapper!(SPico, SignedAmount, with = "monero::util::amount::serde::as_pico");
wrapper!(UXmr, Amount, with = "monero::util::amount::serde::as_xmr");
wrapper!(SXmr, SignedAmount, with = "monero::util::amount::serde::as_xmr");
wrapper!(UPicoOpt, Option<Amount>, default, with = "monero::util::amount::serde::as_pico::opt");
wrapper!(SPicoOpt, Option<SignedAmount>, default, with = "monero::util::amount::serde::as_pico::opt");
wrapper!(UXmrOpt, Option<Amount>, default, with = "monero::util::amount::serde::as_xmr::opt");
wrapper!(SXmrOpt, Option<SignedAmount>, default, with = "monero::util::amount::serde::as_xmr::opt");
wrapper!(
    UPicoVec,
    Vec<Amount>,
    default,
    serialize_with = "monero::util::amount::serde::as_pico::slice::serialize",
    deserialize_with = "monero::util::amount::serde::as_pico::vec::deserialize_amount"
);
wrapper!(
    SPicoVec,
    Vec<SignedAmount>,
    default,
    serialize_with = "monero::util::amount::serde::as_pico::slice::serialize",
    deserialize_with = "monero::util::amount::serde::as_pico::vec::deserialize_signed_amount"
);
wrapper!(
    UXmrVec,
    Vec<Amount>,
    default,
    serialize_with = "monero::util::amount::serde::as_xmr::slice::serialize",
    deserialize_with = "monero::util::amount::serde::as_xmr::vec::deserialize_amount"
);
wrapper!(
    SXmrVec,
    Vec<SignedAmount>,
    default,
    serialize_with = "monero::util::amount::serde::as_xmr::slice::serialize",
    deserialize_with = "monero::util::amount::serde::as_xmr::vec::deserialize_signed_amount"
);

trait Amt: Sized + Copy {
    fn of(s: &str) -> Option<Self>;
    fn pico(self) -> String;
}
impl Amt for Amount {
    fn of(s: &str) -> Option<Self> {
        Some(Amount::from_pico(s.parse::<u64>().ok()?))
    }
    fn pico(self) -> String {
        self.as_pico().to_string()
    }
}
impl Amt for SignedAmount {
    fn of(s: &str) -> Option<Self> {
        Some(SignedAmount::from_pico(s.parse::<i64>().ok()?))
    }
    fn pico(self) -> String {
        self.as_pico().to_string()
    }
}

fn amt_result<W: Serialize + DeserializeOwned>(w: &W, back: fn(W) -> String) -> String {
    // read the JSON back along three routes: from the text, from a reader, and through serde_json::Value;
    // they must agree (a helper that can only borrow `&str` from an in-memory text fails on the other two)
    match serde_json::to_string(w) {
        Ok(s) => {
            let a = match serde_json::from_str::<W>(&s) {
                Ok(y) => back(y),
                Err(e) => crate::err_shown(&e),
            };
            let b = match serde_json::from_reader::<_, W>(s.as_bytes()) {
                Ok(y) => back(y),
                Err(e) => crate::err_shown(&e),
            };
            let c = match serde_json::to_value(w).and_then(serde_json::from_value::<W>) {
                Ok(y) => back(y),
                Err(e) => crate::err_shown(&e),
            };
            let r = if a == b && b == c { a } else { format!("ROUTES-DISAGREE:text={}:reader={}:value={}", a, b, c).replace(' ', "_") };
            format!("OK {} {}", show_hex(s.as_bytes()), r)
        }
        Err(e) => crate::err_shown(&e),
    }
}
fn one<A: Amt>(args: &[&str]) -> Option<A> {
    match args {
        [a] => A::of(a),
        _ => None,
    }
}
fn opt<A: Amt>(args: &[&str]) -> Option<Option<A>> {
    match args {
        ["none"] => Some(None),
        [a] => Some(Some(A::of(a)?)),
        _ => None,
    }
}
fn vec<A: Amt>(args: &[&str]) -> Option<Vec<A>> {
    args.iter().map(|a| A::of(a)).collect()
}
fn show_opt<A: Amt>(o: Option<A>) -> String {
    match o {
        Some(a) => a.pico(),
        None => "none".to_string(),
    }
}
fn show_vec<A: Amt>(v: Vec<A>) -> String {
    let mut out = vec![v.len().to_string()];
    out.extend(v.into_iter().map(|a| a.pico()));
    out.join(" ")
}

fn json_amt(sg: &str, kind: &str, args: &[&str]) -> Option<String> {
    Some(match (sg, kind) {
        ("u", "pico") => amt_result(&UPico { v: one(args)? }, |w| w.v.pico()),
        ("s", "pico") => amt_result(&SPico { v: one(args)? }, |w| w.v.pico()),
        ("u", "xmr") => amt_result(&UXmr { v: one(args)? }, |w| w.v.pico()),
        ("s", "xmr") => amt_result(&SXmr { v: one(args)? }, |w| w.v.pico()),
        ("u", "pico_opt") => amt_result(&UPicoOpt { v: opt(args)? }, |w| show_opt(w.v)),
        ("s", "pico_opt") => amt_result(&SPicoOpt { v: opt(args)? }, |w| show_opt(w.v)),
        ("u", "xmr_opt") => amt_result(&UXmrOpt { v: opt(args)? }, |w| show_opt(w.v)),
        ("s", "xmr_opt") => amt_result(&SXmrOpt { v: opt(args)? }, |w| show_opt(w.v)),
        ("u", "pico_vec") => amt_result(&UPicoVec { v: vec(args)? }, |w| show_vec(w.v)),
        ("s", "pico_vec") => amt_result(&SPicoVec { v: vec(args)? }, |w| show_vec(w.v)),
        ("u", "xmr_vec") => amt_result(&UXmrVec { v: vec(args)? }, |w| show_vec(w.v)),
        ("s", "xmr_vec") => amt_result(&SXmrVec { v: vec(args)? }, |w| show_vec(w.v)),
        _ => return None,
    })
}

pub fn run(op: &str, args: &[&str]) -> Option<String> {
    match op {
        "json_amt" => {
            let (sg, rest) = args.split_first()?;
            let (kind, rest) = rest.split_first()?;
            return json_amt(sg, kind, rest);
        }
        "json_addr_bad" => {
            let [h] = args else { return None };
            let b = unhex(h)?;
            // a JSON text is UTF-8: other byte strings cannot be the content of a JSON string at all
            return Some(match String::from_utf8(b) {
                Ok(s) => {
                    let text = serde_json::to_string(&s).ok()?;
                    let a = serde_json::from_str::<Address>(&text).map(|a| show(&a)).map_err(|_| ());
                    let b = serde_json::from_reader::<_, Address>(text.as_bytes()).map(|a| show(&a)).map_err(|_| ());
                    let c = serde_json::from_value::<Address>(serde_json::Value::String(s.clone())).map(|a| show(&a)).map_err(|_| ());
                    if a == b && b == c {
                        match a {
                            Ok(a) => format!("OK {}", a),
                            Err(_) => "ERR".to_string(),
                        }
                    } else {
                        format!("ROUTES-DISAGREE:text={}:reader={}:value={}", a.is_ok(), b.is_ok(), c.is_ok())
                    }
                }
                Err(e) => crate::err_shown(&e),
            });
        }
        "json_str" => {
            let [h] = args else { return None };
            let s = String::from_utf8(unhex(h)?).ok()?;
            return Some(format!("OK {}", show_hex(serde_json::to_string(&s).ok()?.as_bytes())));
        }
        "json" | "json_rt" | "json_de" => {}
        _ => return None,
    }
    let (ty, rest) = args.split_first()?;
    match *ty {
        "varint" => op_generic::<VarInt>(op, rest),
        "u8" => op_generic::<u8>(op, rest),
        "u32" => op_generic::<u32>(op, rest),
        "hash" => op_generic::<Hash>(op, rest),
        "hash8" => op_generic::<Hash8>(op, rest),
        "key" => op_generic::<Key>(op, rest),
        "ctkey" => op_generic::<CtKey>(op, rest),
        "key64" => op_generic::<Key64>(op, rest),
        "bytesvec" => op_generic::<RawExtraField>(op, rest),
        "txin" => op_generic::<TxIn>(op, rest),
        "target" => op_generic::<TxOutTarget>(op, rest),
        "txout" => op_generic::<TxOut>(op, rest),
        "prefix" => op_generic::<TransactionPrefix>(op, rest),
        "signature" => op_generic::<Signature>(op, rest),
        "rcttype" => op_generic::<RctType>(op, rest),
        "ecdh" => op_generic::<EcdhInfo>(op, rest),
        "borosig" => op_generic::<BoroSig>(op, rest),
        "rangesig" => op_generic::<RangeSig>(op, rest),
        "mgsig" => op_generic::<MgSig>(op, rest),
        "clsag" => op_generic::<Clsag>(op, rest),
        "bulletproof" => op_generic::<Bulletproof>(op, rest),
        "bpplus" => op_generic::<BulletproofPlus>(op, rest),
        "rct_base" => op_generic::<RctSigBase>(op, rest),
        "rct_prunable" => op_generic::<RctSigPrunable>(op, rest),
        "rct_sig" => op_generic::<RctSig>(op, rest),
        "tx" => op_generic::<Transaction>(op, rest),
        "header" => op_generic::<BlockHeader>(op, rest),
        "block" => op_generic::<Block>(op, rest),
        "index" => op_generic::<Index>(op, rest),
        "address" => op_generic::<Address>(op, rest),
        _ => None,
    }
}
