// counting global allocator: per-case peak of live heap bytes above the level at reset.
use std::alloc::{GlobalAlloc, Layout, System};
use std::sync::atomic::{AtomicUsize, Ordering::Relaxed};

pub struct Counting;
static LIVE: AtomicUsize = AtomicUsize::new(0);
static PEAK: AtomicUsize = AtomicUsize::new(0);
static BASE: AtomicUsize = AtomicUsize::new(0);

unsafe impl GlobalAlloc for Counting {
    unsafe fn alloc(&self, l: Layout) -> *mut u8 {
        let p = System.alloc(l);
        if !p.is_null() {
            let live = LIVE.fetch_add(l.size(), Relaxed) + l.size();
            PEAK.fetch_max(live, Relaxed);
        }
        p
    }
    unsafe fn dealloc(&self, p: *mut u8, l: Layout) {
        System.dealloc(p, l);
        LIVE.fetch_sub(l.size(), Relaxed);
    }
    unsafe fn realloc(&self, p: *mut u8, l: Layout, new: usize) -> *mut u8 {
        let q = System.realloc(p, l, new);
        if !q.is_null() {
            if new >= l.size() {
                let live = LIVE.fetch_add(new - l.size(), Relaxed) + (new - l.size());
                PEAK.fetch_max(live, Relaxed);
            } else {
                LIVE.fetch_sub(l.size() - new, Relaxed);
            }
        }
        q
    }
}

#[global_allocator]
static A: Counting = Counting;

pub fn reset_peak() {
    let live = LIVE.load(Relaxed);
    BASE.store(live, Relaxed);
    PEAK.store(live, Relaxed);
}
pub fn peak() -> usize {
    PEAK.load(Relaxed).saturating_sub(BASE.load(Relaxed))
}
