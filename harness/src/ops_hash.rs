// C17 (Keccak-256, hash-to-scalar) and C06 (tree hash, PoW blob, block id) operations.
use crate::{show_hex, unhex};
use monero::blockdata::block::{Block, BlockHeader};
use monero::blockdata::transaction::Transaction;
use monero::consensus::encode::deserialize;
use monero::cryptonote::hash::{keccak_256, tree_hash, Hashable};
use monero::Hash;

// little-endian 32 bytes -> decimal text (schoolbook division by 10 on base-256 digits)
fn le_to_decimal(le: &[u8]) -> String {
    let mut digits: Vec<u8> = le.iter().rev().cloned().collect(); // big-endian
    let mut out: Vec<u8> = Vec::new();
    loop {
        let mut rem: u32 = 0;
        let mut all_zero = true;
        for d in digits.iter_mut() {
            let cur = rem * 256 + (*d as u32);
            *d = (cur / 10) as u8;
            rem = cur % 10;
            if *d != 0 {
                all_zero = false;
            }
        }
        out.push(b'0' + rem as u8);
        if all_zero {
            break;
        }
    }
    out.reverse();
    String::from_utf8(out).unwrap()
}

fn hashes_of(b: &[u8]) -> Option<Vec<Hash>> {
    if b.len() % 32 != 0 {
        return None;
    }
    Some(b.chunks(32).map(Hash::from_slice).collect())
}

pub fn run(op: &str, args: &[&str]) -> Option<String> {
    match (op, args) {
        ("keccak", [h]) => {
            let m = unhex(h)?;
            let d1 = Hash::new(&m);
            let d2 = keccak_256(&m);
            let s1 = Hash::hash_to_scalar(&m).to_bytes();
            let s2 = d1.as_scalar().to_bytes();
            if d1.to_bytes() != d2 || s1 != s2 {
                return Some(format!(
                    "OK {} {} API-VARIANTS-DISAGREE {} {}",
                    show_hex(&d1.to_bytes()),
                    le_to_decimal(&s1),
                    show_hex(&d2),
                    le_to_decimal(&s2)
                ));
            }
            Some(format!("OK {} {}", show_hex(&d2), le_to_decimal(&s1)))
        }
        ("h2s", [h]) => {
            let d = unhex(h)?;
            if d.len() != 32 {
                return None;
            }
            let s = Hash::from_slice(&d).as_scalar().to_bytes();
            Some(format!("OK {} {}", le_to_decimal(&s), show_hex(&s)))
        }
        ("tree", [h]) => {
            let b = unhex(h)?;
            let hs = hashes_of(&b)?;
            if hs.is_empty() {
                return None;
            }
            let root = tree_hash(hs[0], &hs[1..]);
            Some(format!("OK {}", show_hex(&root.to_bytes())))
        }
        // blockparts <header hex> <miner tx hex> <miner tx hash hex (used by the model only)> <tx hashes hex>
        ("blockparts", [hdr, mtx, _mhash, txs]) => {
            let hdr = unhex(hdr)?;
            let mtx = unhex(mtx)?;
            let txs = unhex(txs)?;
            let header = match crate::ops_codec::ds::<BlockHeader>(&hdr) {
                Ok(h) => h,
                Err(_) => return Some("ERR".to_string()),
            };
            let miner_tx = match crate::ops_codec::ds::<Transaction>(&mtx) {
                Ok(t) => t,
                Err(_) => return Some("ERR".to_string()),
            };
            let tx_hashes = hashes_of(&txs)?;
            let mh = miner_tx.hash();
            let block = Block {
                header,
                miner_tx,
                tx_hashes,
            };
            Some(format!(
                "OK {} {} {} {}",
                show_hex(&mh.to_bytes()),
                show_hex(&block.tx_root().to_bytes()),
                show_hex(&block.serialize_hashable()),
                show_hex(&block.id().to_bytes())
            ))
        }
        _ => None,
    }
}
