// C07 (scanning), C08 (amount recovery), C09 (key recovery): mirror of coq/Model/OpsScan.v, public API of the crate only:
//   crate::ops_codec::ds::<Transaction>, ViewPair, KeyPair, Transaction::{check_outputs, check_outputs_with},
//   TransactionPrefix::{check_outputs, check_outputs_with}, SubKeyChecker::{new, check}, OwnedTxOut getters and recover_key,
//   KeyRecoverer::{new, recover}, EcdhInfo::open_commitment, PublicKey::from_private_key.
use crate::{show_hex, unhex};
use curve25519_dalek::edwards::CompressedEdwardsY;
use monero::blockdata::transaction::{Error as TxError, OwnedTxOut};
use monero::consensus::encode::deserialize;
use monero::cryptonote::hash::Hash8;
use monero::cryptonote::onetime_key::{KeyGenerator, KeyRecoverer, SubKeyChecker};
use monero::blockdata::transaction::TxOutTarget;
use monero::cryptonote::subaddress::Index;
use monero::util::key::{KeyPair, PrivateKey, PublicKey, ViewPair};
use monero::util::ringct::{EcdhInfo, Key};
use monero::{Transaction, TxOut};
use std::convert::TryInto;

fn err_key() -> Option<String> {
    Some("ERR key".to_string())
}
macro_rules! sk {
    ($h:expr) => {
        match PrivateKey::from_slice(&unhex($h)?) {
            Ok(k) => k,
            Err(_) => return err_key(),
        }
    };
}
macro_rules! pk {
    ($h:expr) => {
        match PublicKey::from_slice(&unhex($h)?) {
            Ok(k) => k,
            Err(_) => return err_key(),
        }
    };
}

fn err_name(e: TxError) -> &'static str {
    match e {
        TxError::NoTxPublicKey => "NoTxPublicKey",
        TxError::ScriptNotSupported => "ScriptNotSupported",
        TxError::MissingEcdhInfo => "MissingEcdhInfo",
        TxError::InvalidCommitment => "InvalidCommitment",
        TxError::MissingCommitment => "MissingCommitment",
    }
}

fn show_owned(o: &OwnedTxOut, out: &mut Vec<String>) {
    out.push(o.index().to_string());
    out.push(o.sub_index().major.to_string());
    out.push(o.sub_index().minor.to_string());
    out.push(show_hex(o.tx_pubkey().as_bytes()));
    out.push(match o.amount() {
        Some(a) => a.as_pico().to_string(),
        None => "-".to_string(),
    });
    out.push(match o.blinding_factor() {
        Some(y) => show_hex(&y.to_bytes()),
        None => "-".to_string(),
    });
    out.push(match o.commitment() {
        Some(c) => show_hex(c.compress().as_bytes()),
        None => "-".to_string(),
    });
}

fn show_scan(r: Result<Vec<OwnedTxOut>, TxError>) -> String {
    match r {
        Ok(l) => {
            let mut out = vec!["OK".to_string(), l.len().to_string()];
            for o in &l {
                show_owned(o, &mut out);
            }
            out.join(" ")
        }
        Err(e) => format!("ERR {}", err_name(e)),
    }
}

fn u32arg(s: &str) -> Option<u32> {
    s.parse().ok()
}

fn leb(mut n: u64) -> Vec<u8> {
    let mut v = vec![];
    while n >= 0x80 {
        v.push((n & 0x7f) as u8 | 0x80);
        n >>= 7;
    }
    v.push(n as u8);
    v
}

// TxOutTarget::check_view_tag called directly (the scanner is only one of its callers): for the main transaction key and
// every output, the answer must be  tag == Keccak("view_tag" || 8vR || varint(position))[0]  (true for untagged targets)
fn view_tag_route(tx: &Transaction, pair: &ViewPair) -> Option<String> {
    let r = match monero::blockdata::transaction::ExtraField::try_parse(&tx.prefix.extra) {
        Ok(f) => f,
        Err(f) => f,
    }
    .tx_pubkey()?;
    let kg = KeyGenerator::from_key(pair, r);
    for (i, o) in tx.prefix.outputs.iter().enumerate() {
        let want = match &o.target {
            TxOutTarget::ToTaggedKey { view_tag, .. } => {
                let mut buf = b"view_tag".to_vec();
                buf.extend_from_slice(kg.rv.as_bytes());
                buf.extend_from_slice(&leb(i as u64));
                monero::Hash::new(&buf).as_bytes()[0] == *view_tag
            }
            _ => true,
        };
        if o.target.check_view_tag(kg.rv, i) != want {
            return Some(format!("ROUTE-MISMATCH check_view_tag at output {}", i));
        }
    }
    None
}

fn scan(args: &[&str]) -> Option<String> {
    let (entry, v, s, a, b, c, d, h) = (args[0], args[1], args[2], args[3], args[4], args[5], args[6], args[7]);
    if !["tx", "prefix", "checker", "pchecker"].contains(&entry) {
        return None;
    }
    let vb = unhex(v)?;
    let sb = unhex(s)?;
    let (a, b, c, d) = (u32arg(a)?, u32arg(b)?, u32arg(c)?, u32arg(d)?);
    let bytes = unhex(h)?;
    let trunc: Option<(u64, u64)> = if args.len() == 10 {
        Some((args[8].parse().ok()?, args[9].parse().ok()?))
    } else {
        None
    };
    let view = match PrivateKey::from_slice(&vb) {
        Ok(k) => k,
        Err(_) => return err_key(),
    };
    let spend = match PublicKey::from_slice(&sb) {
        Ok(k) => k,
        Err(_) => return err_key(),
    };
    let mut tx: Transaction = match deserialize(&bytes) {
        Ok(t) => t,
        Err(_) => return Some("ERR deser".to_string()),
    };
    if let Some((k1, k2)) = trunc {
        if let Some(sig) = tx.rct_signatures.sig.as_mut() {
            let k1 = std::cmp::min(k1, sig.ecdh_info.len() as u64) as usize;
            let k2 = std::cmp::min(k2, sig.out_pk.len() as u64) as usize;
            sig.ecdh_info.truncate(k1);
            sig.out_pk.truncate(k2);
        }
    }
    let pair = ViewPair { view, spend };
    if let Some(m) = view_tag_route(&tx, &pair) {
        return Some(m);
    }
    Some(match entry {
        "tx" => show_scan(tx.check_outputs(&pair, a..b, c..d)),
        "prefix" => show_scan(tx.prefix.check_outputs(&pair, a..b, c..d, tx.rct_signatures.sig.as_ref())),
        "checker" => {
            let checker = SubKeyChecker::new(&pair, a..b, c..d);
            show_scan(tx.check_outputs_with(&checker))
        }
        _ => {
            let checker = SubKeyChecker::new(&pair, a..b, c..d);
            show_scan(tx.prefix.check_outputs_with(&checker, tx.rct_signatures.sig.as_ref()))
        }
    })
}

fn show_secret(x: &PrivateKey, out: &mut Vec<String>) {
    out.push(show_hex(&x.to_bytes()));
    out.push(show_hex(PublicKey::from_private_key(x).as_bytes()));
}

pub fn run(op: &str, args: &[&str]) -> Option<String> {
    match (op, args) {
        ("scan", a) if a.len() == 8 || a.len() == 10 => scan(a),
        ("scan_recover", [v, s, a, b, c, d, h]) => {
            let vb = unhex(v)?;
            let sb = unhex(s)?;
            let (a, b, c, d) = (u32arg(a)?, u32arg(b)?, u32arg(c)?, u32arg(d)?);
            let bytes = unhex(h)?;
            let view = match PrivateKey::from_slice(&vb) {
                Ok(k) => k,
                Err(_) => return err_key(),
            };
            let spend = match PrivateKey::from_slice(&sb) {
                Ok(k) => k,
                Err(_) => return err_key(),
            };
            let tx: Transaction = match deserialize(&bytes) {
                Ok(t) => t,
                Err(_) => return Some("ERR deser".to_string()),
            };
            let keys = KeyPair { view, spend };
            let pair = ViewPair::from(&keys);
            Some(match tx.check_outputs(&pair, a..b, c..d) {
                Ok(l) => {
                    let mut out = vec!["OK".to_string(), l.len().to_string()];
                    for o in &l {
                        out.push(o.index().to_string());
                        out.push(o.sub_index().major.to_string());
                        out.push(o.sub_index().minor.to_string());
                        out.push(show_hex(o.tx_pubkey().as_bytes()));
                        show_secret(&o.recover_key(&keys), &mut out);
                    }
                    out.join(" ")
                }
                Err(e) => format!("ERR {}", err_name(e)),
            })
        }
        ("recover", [v, s, k, pos, maj, min]) => {
            let vb = unhex(v)?;
            let sb = unhex(s)?;
            let kb = unhex(k)?;
            let pos: u64 = pos.parse().ok()?;
            let (maj, min) = (u32arg(maj)?, u32arg(min)?);
            let view = match PrivateKey::from_slice(&vb) {
                Ok(k) => k,
                Err(_) => return Some("ERR".to_string()),
            };
            let spend = match PrivateKey::from_slice(&sb) {
                Ok(k) => k,
                Err(_) => return Some("ERR".to_string()),
            };
            let txk = match PublicKey::from_slice(&kb) {
                Ok(k) => k,
                Err(_) => return Some("ERR".to_string()),
            };
            let keys = KeyPair { view, spend };
            let rec = KeyRecoverer::new(&keys, txk);
            let x = rec.recover(pos as usize, Index { major: maj, minor: min });
            let mut out = vec!["OK".to_string()];
            show_secret(&x, &mut out);
            Some(out.join(" "))
        }
        ("open", a) if a.len() == 7 || a.len() == 8 => {
            let (v, s, k, pos) = (a[0], a[1], a[2], a[3]);
            let ecdh = match (a[4], a.len()) {
                ("es", 8) => {
                    let m: [u8; 32] = unhex(a[5])?.try_into().ok()?;
                    let am: [u8; 32] = unhex(a[6])?.try_into().ok()?;
                    EcdhInfo::Standard { mask: Key { key: m }, amount: Key { key: am } }
                }
                ("eb", 7) => {
                    let am: [u8; 8] = unhex(a[5])?.try_into().ok()?;
                    EcdhInfo::Bulletproof { amount: Hash8(am) }
                }
                _ => return None,
            };
            let vb = unhex(v)?;
            let sb = unhex(s)?;
            let kb = unhex(k)?;
            let pos: u64 = pos.parse().ok()?;
            let c: [u8; 32] = unhex(a[a.len() - 1])?.try_into().ok()?;
            let (view, spend, txk) = (sk!(&show_hex(&vb)), pk!(&show_hex(&sb)), pk!(&show_hex(&kb)));
            let cand = match CompressedEdwardsY(c).decompress() {
                Some(p) => p,
                None => return Some("NOPOINT".to_string()),
            };
            let pair = ViewPair { view, spend };
            Some(match ecdh.open_commitment(&pair, &txk, pos as usize, &cand) {
                Some(o) => format!("OK {} {}", o.amount.as_pico(), show_hex(&o.blinding_factor.to_bytes())),
                None => "NONE".to_string(),
            })
        }
        ("subkey_check", [v, s, a, b, c, d, pos, p, k]) => {
            let (a, b, c, d) = (u32arg(a)?, u32arg(b)?, u32arg(c)?, u32arg(d)?);
            let pos: u64 = pos.parse().ok()?;
            let (vb, sb, pb, kb) = (unhex(v)?, unhex(s)?, unhex(p)?, unhex(k)?);
            let (view, spend, key, txk) =
                (sk!(&show_hex(&vb)), pk!(&show_hex(&sb)), pk!(&show_hex(&pb)), pk!(&show_hex(&kb)));
            let pair = ViewPair { view, spend };
            let checker = SubKeyChecker::new(&pair, a..b, c..d);
            let direct = checker.check(pos as usize, &key, &txk).copied();
            let via = checker.check_with_key_generator(KeyGenerator::from_key(&pair, txk), pos as usize, &key).copied();
            if direct != via {
                return Some("ROUTE-MISMATCH check / check_with_key_generator".to_string());
            }
            Some(match checker.check(pos as usize, &key, &txk) {
                Some(i) => format!("OK {} {}", i.major, i.minor),
                None => "NONE".to_string(),
            })
        }
        ("viewtag", [h, rv, i]) => {
            let b = unhex(h)?;
            let i: u64 = i.parse().ok()?;
            let rvb = unhex(rv)?;
            let t = match crate::ops_codec::ds::<TxOutTarget>(&b) {
                Ok(t) => t,
                Err(e) => return Some(crate::err_shown(&e)),
            };
            let rv = pk!(&show_hex(&rvb));
            Some(format!("OK {}", t.check_view_tag(rv, i as usize) as u8))
        }
        ("txout_key", [h]) => {
            let b = unhex(h)?;
            Some(match crate::ops_codec::ds::<TxOut>(&b) {
                Ok(o) => match o.get_one_time_key() {
                    Some(k) => format!("OK {}", show_hex(k.as_bytes())),
                    None => "OK -".to_string(),
                },
                Err(e) => crate::err_shown(&e),
            })
        }
        _ => None,
    }
}
