// mrs-harness: runs protocol lines against the real monero-rs library (public API only).
// One case per line on stdin, one result per line on stdout. Panics are results ("PANIC").
use std::io::{self, BufRead, Write};
use std::panic;

mod alloc;
mod ops_address;
mod ops_amount;
mod ops_basic;
mod ops_codec;
mod ops_curve;
mod ops_extra;
mod ops_hash;
mod ops_json;
mod ops_robust;
mod ops_scan;
mod ops_txid;

pub fn unhex(s: &str) -> Option<Vec<u8>> {
    if s == "-" {
        Some(vec![])
    } else {
        hex::decode(s).ok()
    }
}
pub fn show_hex(b: &[u8]) -> String {
    if b.is_empty() {
        "-".to_string()
    } else {
        hex::encode(b)
    }
}

fn run_line(line: &str) -> String {
    let mut it = line.split(' ');
    let op = it.next().unwrap_or("");
    let args: Vec<&str> = it.collect();
    if let Some(r) = ops_address::run(op, &args) {
        return r;
    }
    if let Some(r) = ops_amount::run(op, &args) {
        return r;
    }
    if let Some(r) = ops_basic::run(op, &args) {
        return r;
    }
    if let Some(r) = ops_codec::run(op, &args) {
        return r;
    }
    if let Some(r) = ops_curve::run(op, &args) {
        return r;
    }
    if let Some(r) = ops_extra::run(op, &args) {
        return r;
    }
    if let Some(r) = ops_hash::run(op, &args) {
        return r;
    }
    if let Some(r) = ops_json::run(op, &args) {
        return r;
    }
    if let Some(r) = ops_robust::run(op, &args) {
        return r;
    }
    if let Some(r) = ops_scan::run(op, &args) {
        return r;
    }
    if let Some(r) = ops_txid::run(op, &args) {
        return r;
    }
    "BADCASE".to_string()
}

/// an error answer: the error's Display and Debug texts are produced too (and dropped), so that a formatting routine that
/// panics on hostile input is exercised
pub fn err_shown<E: std::fmt::Display + std::fmt::Debug>(e: &E) -> String {
    let _ = format!("{} {:?}", e, e);
    "ERR".to_string()
}

fn main() {
    panic::set_hook(Box::new(|_| {}));
    let with_peak = std::env::args().any(|a| a == "--peak");
    let stdin = io::stdin();
    let stdout = io::stdout();
    let mut out = io::BufWriter::new(stdout.lock());
    for line in stdin.lock().lines() {
        let line = line.unwrap();
        alloc::reset_peak();
        let r = panic::catch_unwind(|| run_line(&line)).unwrap_or_else(|_| "PANIC".to_string());
        // a decoder that answered differently when fed through a reader (one byte, seven bytes, 4 KiB per call) than from the slice
        let r = if ops_codec::take_reader_mismatch() && r != "PANIC" { "READER-MISMATCH".to_string() } else { r };
        if with_peak {
            writeln!(out, "{} peak={}", r, alloc::peak()).unwrap();
        } else {
            writeln!(out, "{}", r).unwrap();
        }
    }
    out.flush().unwrap();
}
