// C15 (amount text) and C18 (amount arithmetic) operations. Public API of the crate only.
use crate::{show_hex, unhex};
use monero::{Amount, Denomination, SignedAmount};
use std::str::FromStr;

fn denom(s: &str) -> Option<Denomination> {
    match s {
        "xmr" => Some(Denomination::Monero),
        "millinero" => Some(Denomination::Millinero),
        "micronero" => Some(Denomination::Micronero),
        "nanonero" => Some(Denomination::Nanonero),
        "piconero" => Some(Denomination::Piconero),
        _ => None,
    }
}

fn opt_u(r: Option<Amount>) -> String {
    match r {
        Some(a) => format!("OK {}", a.as_pico()),
        None => "NONE".to_string(),
    }
}
fn opt_s(r: Option<SignedAmount>) -> String {
    match r {
        Some(a) => format!("OK {}", a.as_pico()),
        None => "NONE".to_string(),
    }
}

// the public constants are part of the arithmetic's vocabulary (ZERO, ONE_PICO, ONE_XMR, min_value, max_value, default)
fn consts_ok() -> bool {
    Amount::ZERO.as_pico() == 0
        && Amount::ONE_PICO.as_pico() == 1
        && Amount::ONE_XMR.as_pico() == 1_000_000_000_000
        && Amount::min_value().as_pico() == 0
        && Amount::max_value().as_pico() == u64::MAX
        && Amount::default() == Amount::ZERO
        && SignedAmount::ZERO.as_pico() == 0
        && SignedAmount::ONE_PICO.as_pico() == 1
        && SignedAmount::ONE_XMR.as_pico() == 1_000_000_000_000
        && SignedAmount::min_value().as_pico() == i64::MIN
        && SignedAmount::max_value().as_pico() == i64::MAX
        && SignedAmount::default() == SignedAmount::ZERO
}

fn op_unsigned(op: &str, form: &str, a: u64, b: u64) -> Option<String> {
    if !consts_ok() {
        return Some("ROUTE-MISMATCH amount constants".to_string());
    }
    let x = Amount::from_pico(a);
    if x.as_pico() != a || (x == Amount::from_pico(b)) != (a == b) || (x < Amount::from_pico(b)) != (a < b) {
        return Some("ROUTE-MISMATCH Amount from_pico / as_pico / Eq / Ord".to_string());
    }
    Some(match (op, form) {
        ("add", "checked") => opt_u(x.checked_add(Amount::from_pico(b))),
        ("sub", "checked") => opt_u(x.checked_sub(Amount::from_pico(b))),
        ("mul", "checked") => opt_u(x.checked_mul(b)),
        ("div", "checked") => opt_u(x.checked_div(b)),
        ("rem", "checked") => opt_u(x.checked_rem(b)),
        ("add", "operator") => format!("OK {}", (x + Amount::from_pico(b)).as_pico()),
        ("sub", "operator") => format!("OK {}", (x - Amount::from_pico(b)).as_pico()),
        ("mul", "operator") => format!("OK {}", (x * b).as_pico()),
        ("div", "operator") => format!("OK {}", (x / b).as_pico()),
        ("rem", "operator") => format!("OK {}", (x % b).as_pico()),
        ("add", "assign") => {
            let mut y = x;
            y += Amount::from_pico(b);
            format!("OK {}", y.as_pico())
        }
        ("sub", "assign") => {
            let mut y = x;
            y -= Amount::from_pico(b);
            format!("OK {}", y.as_pico())
        }
        ("mul", "assign") => {
            let mut y = x;
            y *= b;
            format!("OK {}", y.as_pico())
        }
        ("div", "assign") => {
            let mut y = x;
            y /= b;
            format!("OK {}", y.as_pico())
        }
        ("rem", "assign") => {
            let mut y = x;
            y %= b;
            format!("OK {}", y.as_pico())
        }
        ("to_signed", "fn") => match x.to_signed() {
            Ok(s) => format!("OK {}", s.as_pico()),
            Err(e) => crate::err_shown(&e),
        },
        _ => return None,
    })
}

fn op_signed(op: &str, form: &str, a: i64, b: i64) -> Option<String> {
    if !consts_ok() {
        return Some("ROUTE-MISMATCH amount constants".to_string());
    }
    let x = SignedAmount::from_pico(a);
    if x.as_pico() != a || (x == SignedAmount::from_pico(b)) != (a == b) || (x < SignedAmount::from_pico(b)) != (a < b) {
        return Some("ROUTE-MISMATCH SignedAmount from_pico / as_pico / Eq / Ord".to_string());
    }
    Some(match (op, form) {
        ("add", "checked") => opt_s(x.checked_add(SignedAmount::from_pico(b))),
        ("sub", "checked") => opt_s(x.checked_sub(SignedAmount::from_pico(b))),
        ("mul", "checked") => opt_s(x.checked_mul(b)),
        ("div", "checked") => opt_s(x.checked_div(b)),
        ("rem", "checked") => opt_s(x.checked_rem(b)),
        ("add", "operator") => format!("OK {}", (x + SignedAmount::from_pico(b)).as_pico()),
        ("sub", "operator") => format!("OK {}", (x - SignedAmount::from_pico(b)).as_pico()),
        ("mul", "operator") => format!("OK {}", (x * b).as_pico()),
        ("div", "operator") => format!("OK {}", (x / b).as_pico()),
        ("rem", "operator") => format!("OK {}", (x % b).as_pico()),
        ("add", "assign") => {
            let mut y = x;
            y += SignedAmount::from_pico(b);
            format!("OK {}", y.as_pico())
        }
        ("sub", "assign") => {
            let mut y = x;
            y -= SignedAmount::from_pico(b);
            format!("OK {}", y.as_pico())
        }
        ("mul", "assign") => {
            let mut y = x;
            y *= b;
            format!("OK {}", y.as_pico())
        }
        ("div", "assign") => {
            let mut y = x;
            y /= b;
            format!("OK {}", y.as_pico())
        }
        ("rem", "assign") => {
            let mut y = x;
            y %= b;
            format!("OK {}", y.as_pico())
        }
        ("to_unsigned", "fn") => match x.to_unsigned() {
            Ok(s) => format!("OK {}", s.as_pico()),
            Err(e) => crate::err_shown(&e),
        },
        ("positive_sub", "fn") => opt_s(x.positive_sub(SignedAmount::from_pico(b))),
        ("checked_abs", "fn") => opt_s(x.checked_abs()),
        ("signum", "fn") => format!("OK {}", x.signum()),
        ("is_negative", "fn") => format!("OK {}", x.is_negative()),
        ("is_positive", "fn") => format!("OK {}", x.is_positive()),
        _ => return None,
    })
}

pub fn run(op: &str, args: &[&str]) -> Option<String> {
    match (op, args) {
        ("amt_parse", [t, d, h]) => {
            let b = unhex(h)?;
            let s = String::from_utf8(b).ok()?; // only valid UTF-8 is a case: a &str cannot be anything else
            match *t {
                "u" => {
                    let r = if *d == "with_suffix" {
                        let (x, y) = (Amount::from_str_with_denomination(&s).ok(), s.parse::<Amount>().ok());
                        if x != y || x != Amount::from_str(&s).ok() {
                            return Some("ROUTE-MISMATCH Amount from_str / parse / from_str_with_denomination".to_string());
                        }
                        Amount::from_str(&s)
                    } else {
                        Amount::from_str_in(&s, denom(d)?)
                    };
                    Some(match r {
                        Ok(a) => format!("OK {}", a.as_pico()),
                        Err(e) => crate::err_shown(&e),
                    })
                }
                "s" => {
                    let r = if *d == "with_suffix" {
                        let (x, y) = (SignedAmount::from_str_with_denomination(&s).ok(), s.parse::<SignedAmount>().ok());
                        if x != y || x != SignedAmount::from_str(&s).ok() {
                            return Some("ROUTE-MISMATCH SignedAmount from_str / parse / from_str_with_denomination".to_string());
                        }
                        SignedAmount::from_str(&s)
                    } else {
                        SignedAmount::from_str_in(&s, denom(d)?)
                    };
                    Some(match r {
                        Ok(a) => format!("OK {}", a.as_pico()),
                        Err(e) => crate::err_shown(&e),
                    })
                }
                _ => None,
            }
        }
        ("amt_fmt", [t, d, mode, v]) => {
            let d = denom(d)?;
            let text = match *t {
                "u" => {
                    let a = Amount::from_pico(v.parse::<u64>().ok()?);
                    let mut w = String::new();
                    a.fmt_value_in(&mut w, d).ok()?;
                    if w != a.to_string_in(d) || a.to_string() != format!("{}", a) || format!("{} {}", w, d) != a.to_string_with_denomination(d) {
                        return Some("ROUTE-MISMATCH Amount fmt_value_in / to_string_in / to_string_with_denomination / to_string".to_string());
                    }
                    match *mode {
                        "plain" => a.to_string_in(d),
                        "suffix" => a.to_string_with_denomination(d),
                        "display" => format!("{}", a),
                        _ => return None,
                    }
                }
                "s" => {
                    let a = SignedAmount::from_pico(v.parse::<i64>().ok()?);
                    let mut w = String::new();
                    a.fmt_value_in(&mut w, d).ok()?;
                    if w != a.to_string_in(d) || a.to_string() != format!("{}", a) || format!("{} {}", w, d) != a.to_string_with_denomination(d) {
                        return Some("ROUTE-MISMATCH SignedAmount fmt_value_in / to_string_in / to_string_with_denomination / to_string".to_string());
                    }
                    match *mode {
                        "plain" => a.to_string_in(d),
                        "suffix" => a.to_string_with_denomination(d),
                        "display" => format!("{}", a),
                        _ => return None,
                    }
                }
                _ => return None,
            };
            Some(format!("OK {}", show_hex(text.as_bytes())))
        }
        ("amt_op", [t, o, form, a, b]) => match *t {
            "u" => op_unsigned(o, form, a.parse().ok()?, b.parse().ok()?),
            "s" => op_signed(o, form, a.parse().ok()?, b.parse().ok()?),
            _ => None,
        },
        _ => None,
    }
}
