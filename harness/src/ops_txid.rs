// C05: transaction id / prefix hash of a parsed transaction; format boundaries p, q from the library's own parsers.
use crate::{show_hex, unhex};
use monero::consensus::encode::deserialize;
use monero::cryptonote::hash::Hashable;
use monero::Transaction;

pub fn run(op: &str, args: &[&str]) -> Option<String> {
    let mut args = args;
    if let Some(a) = args.first() {
        if a.starts_with('@') {
            if *a != crate::ops_codec::sizes() {
                return Some("SIZES-MISMATCH".into());
            }
            args = &args[1..];
        }
    }
    match (op, args) {
        ("txid", [h]) => {
            let b = unhex(h)?;
            Some(match crate::ops_codec::ds::<Transaction>(&b) {
                Ok(tx) => format!("OK {} {}", show_hex(&tx.hash().0), show_hex(&tx.prefix.hash().0)),
                Err(e) => crate::err_shown(&e),
            })
        }
        ("txparts", [h]) => {
            // boundaries: p = bytes of the prefix, q = p + bytes of the RingCT base, and the RingCT type (or -)
            let b = unhex(h)?;
            Some(match crate::ops_codec::ds::<Transaction>(&b) {
                Ok(tx) => {
                    let p = monero::consensus::encode::serialize(&tx.prefix).len();
                    match &tx.rct_signatures.sig {
                        Some(base) => {
                            let q = p + monero::consensus::encode::serialize(base).len();
                            format!("OK {} {} {} {}", tx.prefix.version.0, p, q, base.rct_type)
                        }
                        None => format!("OK {} {} {} -", tx.prefix.version.0, p, p),
                    }
                }
                Err(e) => crate::err_shown(&e),
            })
        }
        ("txhash_desc", toks) => {
            let tx: Transaction = crate::ops_codec::parse_all(toks)?;
            Some(format!("OK {} {}", show_hex(&tx.hash().0), show_hex(&tx.prefix.hash().0)))
        }
        ("trait_h2s", [t, h]) => {
            let b = unhex(h)?;
            Some(match *t {
                "pk" => match monero::PublicKey::from_slice(&b) {
                    Ok(k) => format!("OK {}", show_hex(&k.hash_to_scalar().to_bytes())),
                    Err(e) => crate::err_shown(&e),
                },
                "tx" => match crate::ops_codec::ds::<Transaction>(&b) {
                    Ok(x) => format!("OK {}", show_hex(&x.hash_to_scalar().to_bytes())),
                    Err(e) => crate::err_shown(&e),
                },
                "prefix" => match crate::ops_codec::ds::<monero::TransactionPrefix>(&b) {
                    Ok(x) => format!("OK {}", show_hex(&x.hash_to_scalar().to_bytes())),
                    Err(e) => crate::err_shown(&e),
                },
                _ => return None,
            })
        }
        ("blockfull", [h]) => {
            let b = unhex(h)?;
            Some(match crate::ops_codec::ds::<monero::Block>(&b) {
                Ok(blk) => format!(
                    "OK {} {} {}",
                    show_hex(&blk.tx_root().0),
                    show_hex(&blk.serialize_hashable()),
                    show_hex(&blk.id().0)
                ),
                Err(e) => crate::err_shown(&e),
            })
        }
        _ => None,
    }
}
