// C12: base58-monero and Address text/blob/hex/consensus forms (public API only).
use crate::{show_hex, unhex};
use curve25519_dalek::edwards::CompressedEdwardsY;
use hex::{FromHex, ToHex};
use monero::consensus::encode::{deserialize, serialize};
use monero::util::address::{Address, AddressType, PaymentId};
use monero::{KeyPair, Network, PrivateKey, PublicKey, ViewPair};
use std::str::FromStr;

fn net(s: &str) -> Option<Network> {
    match s {
        "main" => Some(Network::Mainnet),
        "test" => Some(Network::Testnet),
        "stage" => Some(Network::Stagenet),
        _ => None,
    }
}
fn net_s(n: Network) -> &'static str {
    match n {
        Network::Mainnet => "main",
        Network::Testnet => "test",
        Network::Stagenet => "stage",
    }
}
fn atype_s(t: &AddressType) -> String {
    match t {
        AddressType::Standard => "std".to_string(),
        AddressType::SubAddress => "sub".to_string(),
        AddressType::Integrated(p) => format!("int:{}", show_hex(&p.0)),
    }
}
fn atype(s: &str) -> Option<AddressType> {
    match s {
        "std" => Some(AddressType::Standard),
        "sub" => Some(AddressType::SubAddress),
        _ => {
            let h = s.strip_prefix("int:")?;
            let p = unhex(h)?;
            if p.len() != 8 {
                return None;
            }
            Some(AddressType::Integrated(PaymentId::from_slice(&p)))
        }
    }
}
// a PublicKey from its public field: no validation, exactly what a caller can build
fn pk(h: &str) -> Option<PublicKey> {
    let b = unhex(h)?;
    if b.len() != 32 {
        return None;
    }
    let mut a = [0u8; 32];
    a.copy_from_slice(&b);
    Some(PublicKey {
        point: CompressedEdwardsY(a),
    })
}

fn dump<E: std::fmt::Display + std::fmt::Debug>(r: Result<Address, E>) -> String {
    match r {
        Ok(a) => format!(
            "OK {} {} {} {} {} {}",
            net_s(a.network),
            atype_s(&a.addr_type),
            show_hex(a.public_spend.as_bytes()),
            show_hex(a.public_view.as_bytes()),
            show_hex(&a.as_bytes()),
            show_hex(a.to_string().as_bytes())
        ),
        Err(e) => crate::err_shown(&e),
    }
}

pub fn run(op: &str, args: &[&str]) -> Option<String> {
    match (op, args) {
        ("b58_enc", [h]) => {
            let b = unhex(h)?;
            Some(match base58_monero::encode(&b) {
                Ok(s) => format!("OK {}", show_hex(s.as_bytes())),
                Err(e) => crate::err_shown(&e),
            })
        }
        ("b58_dec", [h]) => {
            let b = unhex(h)?;
            // `decode` takes a &str: bytes that are not UTF-8 cannot be passed at all
            Some(match String::from_utf8(b) {
                Ok(s) => match base58_monero::decode(&s) {
                    Ok(d) => format!("OK {}", show_hex(&d)),
                    Err(e) => crate::err_shown(&e),
                },
                Err(e) => crate::err_shown(&e),
            })
        }
        ("addr_from_bytes", [h]) => {
            let b = unhex(h)?;
            Some(dump(Address::from_bytes(&b)))
        }
        ("addr_from_str", [h]) => {
            let b = unhex(h)?;
            Some(match String::from_utf8(b) {
                Ok(s) => dump(Address::from_str(&s)),
                Err(e) => crate::err_shown(&e),
            })
        }
        ("addr_from_hex", [h]) => {
            let b = unhex(h)?;
            Some(dump(Address::from_hex(&b)))
        }
        ("addr_dec", [h]) => {
            let b = unhex(h)?;
            Some(dump(crate::ops_codec::ds::<Address>(&b)))
        }
        ("addr_fmt", [n, t, s, v]) => {
            // built through the constructor of its type (not a struct literal)
            let (n, t, s, v) = (net(n)?, atype(t)?, pk(s)?, pk(v)?);
            let a = match t {
                AddressType::Standard => Address::standard(n, s, v),
                AddressType::SubAddress => Address::subaddress(n, s, v),
                AddressType::Integrated(p) => Address::integrated(n, s, v, p),
            };
            Some(format!(
                "OK {} {} {} {} {} {} {}",
                show_hex(&a.as_bytes()),
                show_hex(a.to_string().as_bytes()),
                show_hex(a.as_hex().as_bytes()),
                crate::ops_codec::ser_checked_hex(&a),
                show_hex(a.encode_hex::<String>().as_bytes()),
                show_hex(a.encode_hex_upper::<String>().as_bytes()),
                show_hex(a.addr_type.to_string().as_bytes())
            ))
        }
        ("addr_of_keys", [n, v, s]) => {
            let n = net(n)?;
            let (v, s) = (unhex(v)?, unhex(s)?);
            let (view, spend) = match (PrivateKey::from_slice(&v), PrivateKey::from_slice(&s)) {
                (Ok(v), Ok(s)) => (v, s),
                _ => return Some("ERR".to_string()),
            };
            let a = Address::from_keypair(n, &KeyPair { view, spend });
            let b = Address::from_viewpair(
                n,
                &ViewPair {
                    view,
                    spend: PublicKey::from_private_key(&spend),
                },
            );
            Some(format!(
                "OK {} {}",
                show_hex(a.to_string().as_bytes()),
                show_hex(b.to_string().as_bytes())
            ))
        }
        _ => None,
    }
}
