// Consensus codec ops: dec / decs / enc / rt over a table of types (mirror of coq/Model/OpsCodec.v).
// Values are printed / parsed in the token form of coq/Model/Show.v, through public fields only.
use crate::{show_hex, unhex};
use monero::blockdata::transaction::{KeyImage, RawExtraField, TxIn, TxOut, TxOutTarget};
use monero::consensus::encode::{
    deserialize, deserialize_partial, Decodable, Encodable, VarInt,
};
use monero::cryptonote::hash::{Hash, Hash8};
use monero::util::ringct::*;
use monero::{Amount, Block, BlockHeader, Transaction, TransactionPrefix};

pub type Toks = Vec<String>;

// ------------------------------------------------------------------ show
pub trait Tok: Sized {
    fn show(&self, out: &mut Toks);
    fn parse(p: &mut P) -> Option<Self>;
}
pub struct P<'a> {
    pub t: &'a [&'a str],
    pub i: usize,
}
impl<'a> P<'a> {
    pub fn word(&mut self) -> Option<&'a str> {
        let w = self.t.get(self.i)?;
        self.i += 1;
        Some(w)
    }
    pub fn n(&mut self) -> Option<u64> {
        self.word()?.parse().ok()
    }
    pub fn b(&mut self) -> Option<Vec<u8>> {
        unhex(self.word()?)
    }
    pub fn arr<const N: usize>(&mut self) -> Option<[u8; N]> {
        let v = self.b()?;
        if v.len() != N {
            return None;
        }
        let mut a = [0u8; N];
        a.copy_from_slice(&v);
        Some(a)
    }
    pub fn list<T: Tok>(&mut self) -> Option<Vec<T>> {
        let n = self.n()?;
        let mut v = Vec::new();
        for _ in 0..n {
            v.push(T::parse(self)?);
        }
        Some(v)
    }
}
fn sn(out: &mut Toks, n: u64) {
    out.push(n.to_string());
}
fn sb(out: &mut Toks, b: &[u8]) {
    out.push(show_hex(b));
}
fn slist<T: Tok>(out: &mut Toks, l: &[T]) {
    sn(out, l.len() as u64);
    for x in l {
        x.show(out);
    }
}

impl Tok for VarInt {
    fn show(&self, out: &mut Toks) {
        sn(out, self.0)
    }
    fn parse(p: &mut P) -> Option<Self> {
        Some(VarInt(p.n()?))
    }
}
impl Tok for u8 {
    fn show(&self, out: &mut Toks) {
        sn(out, *self as u64)
    }
    fn parse(p: &mut P) -> Option<Self> {
        u8::try_from(p.n()?).ok()
    }
}
impl Tok for u32 {
    fn show(&self, out: &mut Toks) {
        sn(out, *self as u64)
    }
    fn parse(p: &mut P) -> Option<Self> {
        u32::try_from(p.n()?).ok()
    }
}
macro_rules! tok_int {
    ($t:ty, $u:ty) => {
        impl Tok for $t {
            fn show(&self, out: &mut Toks) {
                sn(out, (*self as $u) as u64)
            }
            fn parse(p: &mut P) -> Option<Self> {
                Some(<$u>::try_from(p.n()?).ok()? as $t)
            }
        }
    };
}
tok_int!(u16, u16);
tok_int!(u64, u64);
tok_int!(i8, u8);
tok_int!(i16, u16);
tok_int!(i32, u32);
tok_int!(i64, u64);
impl Tok for bool {
    fn show(&self, out: &mut Toks) {
        sn(out, *self as u64)
    }
    fn parse(p: &mut P) -> Option<Self> {
        match p.n()? {
            0 => Some(false),
            1 => Some(true),
            _ => None,
        }
    }
}
pub struct S(pub String);
impl Tok for S {
    fn show(&self, out: &mut Toks) {
        sb(out, self.0.as_bytes())
    }
    fn parse(p: &mut P) -> Option<Self> {
        String::from_utf8(p.b()?).ok().map(S)
    }
}
impl Tok for MultisigKlrki {
    fn show(&self, out: &mut Toks) {
        for k in [&self.K, &self.L, &self.R, &self.ki] {
            k.show(out)
        }
    }
    fn parse(p: &mut P) -> Option<Self> {
        Some(MultisigKlrki { K: Key::parse(p)?, L: Key::parse(p)?, R: Key::parse(p)?, ki: Key::parse(p)? })
    }
}
impl Tok for MultisigOut {
    fn show(&self, out: &mut Toks) {
        slist(out, &self.c)
    }
    fn parse(p: &mut P) -> Option<Self> {
        Some(MultisigOut { c: p.list()? })
    }
}
impl Tok for Hash {
    fn show(&self, out: &mut Toks) {
        sb(out, &self.0)
    }
    fn parse(p: &mut P) -> Option<Self> {
        Some(Hash(p.arr::<32>()?))
    }
}
impl Tok for Hash8 {
    fn show(&self, out: &mut Toks) {
        sb(out, &self.0)
    }
    fn parse(p: &mut P) -> Option<Self> {
        Some(Hash8(p.arr::<8>()?))
    }
}
impl Tok for Key {
    fn show(&self, out: &mut Toks) {
        sb(out, &self.key)
    }
    fn parse(p: &mut P) -> Option<Self> {
        Some(Key { key: p.arr::<32>()? })
    }
}
impl Tok for CtKey {
    fn show(&self, out: &mut Toks) {
        sb(out, &self.mask.key)
    }
    fn parse(p: &mut P) -> Option<Self> {
        Some(CtKey { mask: Key { key: p.arr::<32>()? } })
    }
}
impl Tok for Key64 {
    fn show(&self, out: &mut Toks) {
        let mut v = Vec::with_capacity(2048);
        for k in self.keys.iter() {
            v.extend_from_slice(&k.key);
        }
        sb(out, &v)
    }
    fn parse(p: &mut P) -> Option<Self> {
        let v = p.b()?;
        if v.len() != 2048 {
            return None;
        }
        let mut keys = [Key { key: [0u8; 32] }; 64];
        for i in 0..64 {
            keys[i].key.copy_from_slice(&v[32 * i..32 * i + 32]);
        }
        Some(Key64 { keys })
    }
}
impl Tok for Vec<u8> {
    fn show(&self, out: &mut Toks) {
        sb(out, self)
    }
    fn parse(p: &mut P) -> Option<Self> {
        p.b()
    }
}
impl Tok for RawExtraField {
    fn show(&self, out: &mut Toks) {
        sb(out, &self.0)
    }
    fn parse(p: &mut P) -> Option<Self> {
        Some(RawExtraField(p.b()?))
    }
}
impl Tok for TxIn {
    fn show(&self, out: &mut Toks) {
        match self {
            TxIn::Gen { height } => {
                out.push("gen".into());
                sn(out, height.0)
            }
            TxIn::ToKey { amount, key_offsets, k_image } => {
                out.push("key".into());
                sn(out, amount.0);
                slist(out, key_offsets);
                sb(out, &k_image.image.0)
            }
        }
    }
    fn parse(p: &mut P) -> Option<Self> {
        match p.word()? {
            "gen" => Some(TxIn::Gen { height: VarInt(p.n()?) }),
            "key" => Some(TxIn::ToKey {
                amount: VarInt(p.n()?),
                key_offsets: p.list()?,
                k_image: KeyImage { image: Hash(p.arr::<32>()?) },
            }),
            _ => None,
        }
    }
}
impl Tok for TxOutTarget {
    fn show(&self, out: &mut Toks) {
        match self {
            TxOutTarget::ToKey { key } => {
                out.push("tk".into());
                sb(out, key)
            }
            TxOutTarget::ToTaggedKey { key, view_tag } => {
                out.push("tt".into());
                sb(out, key);
                sn(out, *view_tag as u64)
            }
        }
    }
    fn parse(p: &mut P) -> Option<Self> {
        match p.word()? {
            "tk" => Some(TxOutTarget::ToKey { key: p.arr::<32>()? }),
            "tt" => Some(TxOutTarget::ToTaggedKey { key: p.arr::<32>()?, view_tag: u8::parse(p)? }),
            _ => None,
        }
    }
}
impl Tok for TxOut {
    fn show(&self, out: &mut Toks) {
        sn(out, self.amount.0);
        self.target.show(out)
    }
    fn parse(p: &mut P) -> Option<Self> {
        Some(TxOut { amount: VarInt(p.n()?), target: TxOutTarget::parse(p)? })
    }
}
impl Tok for TransactionPrefix {
    fn show(&self, out: &mut Toks) {
        sn(out, self.version.0);
        sn(out, self.unlock_time.0);
        slist(out, &self.inputs);
        slist(out, &self.outputs);
        sb(out, &self.extra.0)
    }
    fn parse(p: &mut P) -> Option<Self> {
        Some(TransactionPrefix {
            version: VarInt(p.n()?),
            unlock_time: VarInt(p.n()?),
            inputs: p.list()?,
            outputs: p.list()?,
            extra: RawExtraField(p.b()?),
        })
    }
}
impl Tok for Signature {
    fn show(&self, out: &mut Toks) {
        sb(out, &self.c.key);
        sb(out, &self.r.key)
    }
    fn parse(p: &mut P) -> Option<Self> {
        Some(Signature { c: Key::parse(p)?, r: Key::parse(p)? })
    }
}
fn rct_tag(t: RctType) -> u64 {
    match t {
        RctType::Null => 0,
        RctType::Full => 1,
        RctType::Simple => 2,
        RctType::Bulletproof => 3,
        RctType::Bulletproof2 => 4,
        RctType::Clsag => 5,
        RctType::BulletproofPlus => 6,
    }
}
fn rct_of(n: u64) -> Option<RctType> {
    Some(match n {
        0 => RctType::Null,
        1 => RctType::Full,
        2 => RctType::Simple,
        3 => RctType::Bulletproof,
        4 => RctType::Bulletproof2,
        5 => RctType::Clsag,
        6 => RctType::BulletproofPlus,
        _ => return None,
    })
}
impl Tok for RctType {
    fn show(&self, out: &mut Toks) {
        sn(out, rct_tag(*self))
    }
    fn parse(p: &mut P) -> Option<Self> {
        rct_of(p.n()?)
    }
}
impl Tok for EcdhInfo {
    fn show(&self, out: &mut Toks) {
        match self {
            EcdhInfo::Standard { mask, amount } => {
                out.push("es".into());
                sb(out, &mask.key);
                sb(out, &amount.key)
            }
            EcdhInfo::Bulletproof { amount } => {
                out.push("eb".into());
                sb(out, &amount.0)
            }
        }
    }
    fn parse(p: &mut P) -> Option<Self> {
        match p.word()? {
            "es" => Some(EcdhInfo::Standard { mask: Key::parse(p)?, amount: Key::parse(p)? }),
            "eb" => Some(EcdhInfo::Bulletproof { amount: Hash8(p.arr::<8>()?) }),
            _ => None,
        }
    }
}
impl Tok for BoroSig {
    fn show(&self, out: &mut Toks) {
        self.s0.show(out);
        self.s1.show(out);
        self.ee.show(out)
    }
    fn parse(p: &mut P) -> Option<Self> {
        Some(BoroSig { s0: Key64::parse(p)?, s1: Key64::parse(p)?, ee: Key::parse(p)? })
    }
}
impl Tok for RangeSig {
    fn show(&self, out: &mut Toks) {
        self.asig.show(out);
        self.Ci.show(out)
    }
    fn parse(p: &mut P) -> Option<Self> {
        Some(RangeSig { asig: BoroSig::parse(p)?, Ci: Key64::parse(p)? })
    }
}
impl Tok for Vec<Key> {
    fn show(&self, out: &mut Toks) {
        slist(out, self)
    }
    fn parse(p: &mut P) -> Option<Self> {
        p.list()
    }
}
impl Tok for MgSig {
    fn show(&self, out: &mut Toks) {
        slist(out, &self.ss);
        self.cc.show(out)
    }
    fn parse(p: &mut P) -> Option<Self> {
        Some(MgSig { ss: p.list()?, cc: Key::parse(p)? })
    }
}
impl Tok for Clsag {
    fn show(&self, out: &mut Toks) {
        slist(out, &self.s);
        self.c1.show(out);
        self.D.show(out)
    }
    fn parse(p: &mut P) -> Option<Self> {
        Some(Clsag { s: p.list()?, c1: Key::parse(p)?, D: Key::parse(p)? })
    }
}
impl Tok for Bulletproof {
    fn show(&self, out: &mut Toks) {
        for k in [&self.A, &self.S, &self.T1, &self.T2, &self.taux, &self.mu] {
            k.show(out)
        }
        slist(out, &self.L);
        slist(out, &self.R);
        for k in [&self.a, &self.b, &self.t] {
            k.show(out)
        }
    }
    fn parse(p: &mut P) -> Option<Self> {
        Some(Bulletproof {
            A: Key::parse(p)?,
            S: Key::parse(p)?,
            T1: Key::parse(p)?,
            T2: Key::parse(p)?,
            taux: Key::parse(p)?,
            mu: Key::parse(p)?,
            L: p.list()?,
            R: p.list()?,
            a: Key::parse(p)?,
            b: Key::parse(p)?,
            t: Key::parse(p)?,
        })
    }
}
impl Tok for BulletproofPlus {
    fn show(&self, out: &mut Toks) {
        for k in [&self.A, &self.A1, &self.B, &self.r1, &self.s1, &self.d1] {
            k.show(out)
        }
        slist(out, &self.L);
        slist(out, &self.R)
    }
    fn parse(p: &mut P) -> Option<Self> {
        Some(BulletproofPlus {
            A: Key::parse(p)?,
            A1: Key::parse(p)?,
            B: Key::parse(p)?,
            r1: Key::parse(p)?,
            s1: Key::parse(p)?,
            d1: Key::parse(p)?,
            L: p.list()?,
            R: p.list()?,
        })
    }
}
impl Tok for RctSigBase {
    fn show(&self, out: &mut Toks) {
        self.rct_type.show(out);
        sn(out, self.txn_fee.as_pico());
        slist(out, &self.pseudo_outs);
        slist(out, &self.ecdh_info);
        slist(out, &self.out_pk)
    }
    fn parse(p: &mut P) -> Option<Self> {
        Some(RctSigBase {
            rct_type: RctType::parse(p)?,
            txn_fee: Amount::from_pico(p.n()?),
            pseudo_outs: p.list()?,
            ecdh_info: p.list()?,
            out_pk: p.list()?,
        })
    }
}
impl Tok for RctSigPrunable {
    fn show(&self, out: &mut Toks) {
        slist(out, &self.range_sigs);
        slist(out, &self.bulletproofs);
        slist(out, &self.bulletproofplus);
        slist(out, &self.MGs);
        slist(out, &self.Clsags);
        slist(out, &self.pseudo_outs)
    }
    fn parse(p: &mut P) -> Option<Self> {
        Some(RctSigPrunable {
            range_sigs: p.list()?,
            bulletproofs: p.list()?,
            bulletproofplus: p.list()?,
            MGs: p.list()?,
            Clsags: p.list()?,
            pseudo_outs: p.list()?,
        })
    }
}
impl Tok for RctSig {
    fn show(&self, out: &mut Toks) {
        match &self.sig {
            None => out.push("none".into()),
            Some(b) => {
                out.push("base".into());
                b.show(out);
                match &self.p {
                    None => out.push("pnone".into()),
                    Some(p) => {
                        out.push("p".into());
                        p.show(out)
                    }
                }
            }
        }
    }
    fn parse(p: &mut P) -> Option<Self> {
        match p.word()? {
            "none" => Some(RctSig { sig: None, p: None }),
            "base" => {
                let b = RctSigBase::parse(p)?;
                match p.word()? {
                    "pnone" => Some(RctSig { sig: Some(b), p: None }),
                    "p" => Some(RctSig { sig: Some(b), p: Some(RctSigPrunable::parse(p)?) }),
                    _ => None,
                }
            }
            _ => None,
        }
    }
}
impl Tok for Vec<Signature> {
    fn show(&self, out: &mut Toks) {
        slist(out, self)
    }
    fn parse(p: &mut P) -> Option<Self> {
        p.list()
    }
}
impl Tok for Transaction {
    fn show(&self, out: &mut Toks) {
        self.prefix.show(out);
        slist(out, &self.signatures);
        self.rct_signatures.show(out)
    }
    fn parse(p: &mut P) -> Option<Self> {
        Some(Transaction {
            prefix: TransactionPrefix::parse(p)?,
            signatures: p.list()?,
            rct_signatures: RctSig::parse(p)?,
        })
    }
}
impl Tok for BlockHeader {
    fn show(&self, out: &mut Toks) {
        sn(out, self.major_version.0);
        sn(out, self.minor_version.0);
        sn(out, self.timestamp.0);
        sb(out, &self.prev_id.0);
        sn(out, self.nonce as u64)
    }
    fn parse(p: &mut P) -> Option<Self> {
        Some(BlockHeader {
            major_version: VarInt(p.n()?),
            minor_version: VarInt(p.n()?),
            timestamp: VarInt(p.n()?),
            prev_id: Hash(p.arr::<32>()?),
            nonce: u32::parse(p)?,
        })
    }
}
impl Tok for Block {
    fn show(&self, out: &mut Toks) {
        self.header.show(out);
        self.miner_tx.show(out);
        slist(out, &self.tx_hashes)
    }
    fn parse(p: &mut P) -> Option<Self> {
        Some(Block { header: BlockHeader::parse(p)?, miner_tx: Transaction::parse(p)?, tx_hashes: p.list()? })
    }
}
// Vec<T> as a consensus type of its own (length-prefixed)
pub struct V<T>(pub Vec<T>);
impl<T: Tok> Tok for V<T> {
    fn show(&self, out: &mut Toks) {
        slist(out, &self.0)
    }
    fn parse(p: &mut P) -> Option<Self> {
        Some(V(p.list()?))
    }
}

// Box<[T]> as a consensus type of its own (same wire format as Vec<T>, separate Decodable/Encodable impls)
pub struct Bx<T>(pub Box<[T]>);
impl Tok for Bx<u8> {
    fn show(&self, out: &mut Toks) {
        sb(out, &self.0)
    }
    fn parse(p: &mut P) -> Option<Self> {
        Some(Bx(p.b()?.into_boxed_slice()))
    }
}
impl Tok for Bx<Hash> {
    fn show(&self, out: &mut Toks) {
        slist(out, &self.0)
    }
    fn parse(p: &mut P) -> Option<Self> {
        Some(Bx(p.list::<Hash>()?.into_boxed_slice()))
    }
}
impl Tok for Bx<VarInt> {
    fn show(&self, out: &mut Toks) {
        slist(out, &self.0)
    }
    fn parse(p: &mut P) -> Option<Self> {
        Some(Bx(p.list::<VarInt>()?.into_boxed_slice()))
    }
}

pub fn show<T: Tok>(x: &T) -> String {
    let mut o = Vec::new();
    x.show(&mut o);
    o.join(" ")
}
pub fn parse_all<T: Tok>(t: &[&str]) -> Option<T> {
    let mut p = P { t, i: 0 };
    let x = T::parse(&mut p)?;
    if p.i == t.len() {
        Some(x)
    } else {
        None
    }
}

// ------------------------------------------------------------------ the same encoder / decoder over other writers and readers
// A writer that takes one byte per call, a slice of exactly the right size and a slice one byte too small; a reader that
// hands out one byte per call.  Encoders must produce the same bytes and report the same length on every writer that has
// room, and fail on the one that has not; decoders must return the same value and consume the same number of bytes.
pub struct Chunk(pub Vec<u8>);
impl std::io::Write for Chunk {
    fn write(&mut self, b: &[u8]) -> std::io::Result<usize> {
        if b.is_empty() {
            return Ok(0);
        }
        self.0.push(b[0]);
        Ok(1)
    }
    fn flush(&mut self) -> std::io::Result<()> {
        Ok(())
    }
}
pub struct Drip<'a> {
    pub b: &'a [u8],
    pub pos: usize,
}
impl<'a> std::io::Read for Drip<'a> {
    fn read(&mut self, out: &mut [u8]) -> std::io::Result<usize> {
        if out.is_empty() || self.pos >= self.b.len() {
            return Ok(0);
        }
        out[0] = self.b[self.pos];
        self.pos += 1;
        Ok(1)
    }
}
pub fn writers_agree<T: Encodable>(x: &T, buf: &[u8], len: usize) -> bool {
    let mut c = Chunk(Vec::new());
    match x.consensus_encode(&mut c) {
        Ok(l) if l == len && c.0 == buf => {}
        _ => return false,
    }
    let mut exact = vec![0u8; buf.len()];
    {
        let mut w: &mut [u8] = &mut exact[..];
        match x.consensus_encode(&mut w) {
            Ok(l) if l == len => {}
            _ => return false,
        }
    }
    if exact != buf {
        return false;
    }
    if !buf.is_empty() {
        let mut small = vec![0u8; buf.len() - 1];
        let mut w: &mut [u8] = &mut small[..];
        if x.consensus_encode(&mut w).is_ok() {
            return false;
        }
    }
    true
}
/// serialisation with the encoder's contract checked: reported length = bytes written, same bytes on every writer
pub fn ser_checked<T: Encodable + std::fmt::Debug>(x: &T) -> Result<Vec<u8>, &'static str> {
    let mut buf = Vec::new();
    let len = x.consensus_encode(&mut buf).map_err(|_| "ENCODE-FAILED")?;
    if len != buf.len() {
        return Err("LENGTH-MISMATCH");
    }
    if !writers_agree(x, &buf, len) {
        return Err("WRITER-MISMATCH");
    }
    if monero::consensus::encode::serialize(x) != buf {
        return Err("SERIALIZE-MISMATCH");
    }
    Ok(buf)
}
pub fn ser_checked_hex<T: Encodable + std::fmt::Debug>(x: &T) -> String {
    match ser_checked(x) {
        Ok(b) => show_hex(&b),
        Err(m) => m.to_string(),
    }
}
/// a reader that hands out at most `n` bytes per call (short reads in the middle of a field)
pub struct DripN<'a> {
    pub b: &'a [u8],
    pub pos: usize,
    pub n: usize,
}
impl<'a> std::io::Read for DripN<'a> {
    fn read(&mut self, out: &mut [u8]) -> std::io::Result<usize> {
        let k = out.len().min(self.n).min(self.b.len() - self.pos);
        out[..k].copy_from_slice(&self.b[self.pos..self.pos + k]);
        self.pos += k;
        Ok(k)
    }
}
/// a reader that is interrupted on every other call (ErrorKind::Interrupted: "retry") and hands out 3 bytes otherwise
pub struct Stutter<'a> {
    pub b: &'a [u8],
    pub pos: usize,
    pub calls: usize,
}
impl<'a> std::io::Read for Stutter<'a> {
    fn read(&mut self, out: &mut [u8]) -> std::io::Result<usize> {
        self.calls += 1;
        if self.calls % 2 == 1 {
            return Err(std::io::Error::new(std::io::ErrorKind::Interrupted, "interrupted"));
        }
        let k = out.len().min(3).min(self.b.len() - self.pos);
        out[..k].copy_from_slice(&self.b[self.pos..self.pos + k]);
        self.pos += k;
        Ok(k)
    }
}
pub fn readers_agree<T: Decodable + std::fmt::Debug>(b: &[u8], r: &Result<(T, usize), monero::consensus::encode::Error>) -> bool {
    {
        let mut d = Stutter { b, pos: 0, calls: 0 };
        let ok = match (T::consensus_decode(&mut d), r) {
            (Ok(y), Ok((x, k))) => d.pos == *k && format!("{:?}", y) == format!("{:?}", x),
            (Err(_), Err(_)) => true,
            _ => false,
        };
        if !ok {
            return false;
        }
    }
    let mut d = Drip { b, pos: 0 };
    let one = match (T::consensus_decode(&mut d), r) {
        (Ok(y), Ok((x, n))) => d.pos == *n && format!("{:?}", y) == format!("{:?}", x),
        (Err(_), Err(_)) => true,
        _ => false,
    };
    if !one {
        return false;
    }
    for n in [7usize, 4096] {
        let mut d = DripN { b, pos: 0, n };
        let ok = match (T::consensus_decode(&mut d), r) {
            (Ok(y), Ok((x, k))) => d.pos == *k && format!("{:?}", y) == format!("{:?}", x),
            (Err(_), Err(_)) => true,
            _ => false,
        };
        if !ok {
            return false;
        }
    }
    true
}
thread_local! { static READER_MISMATCH: std::cell::Cell<bool> = std::cell::Cell::new(false); }
/// set by `dp` / `ds` when the slice route and a reader route of a decoder disagree; main replaces the case's answer
pub fn take_reader_mismatch() -> bool {
    READER_MISMATCH.with(|c| c.replace(false))
}
/// deserialize_partial with the reader routes run beside it
pub fn dp<T: Decodable + std::fmt::Debug>(b: &[u8]) -> Result<(T, usize), monero::consensus::encode::Error> {
    let r = deserialize_partial::<T>(b);
    if !readers_agree(b, &r) {
        READER_MISMATCH.with(|c| c.set(true));
    }
    r
}
/// deserialize (strict) with the reader routes run beside it
pub fn ds<T: Decodable + std::fmt::Debug>(b: &[u8]) -> Result<T, monero::consensus::encode::Error> {
    let r = deserialize::<T>(b);
    {
        let mut d = Stutter { b, pos: 0, calls: 0 };
        let ok = match (T::consensus_decode(&mut d), &r) {
            (Ok(y), Ok(x)) => d.pos == b.len() && format!("{:?}", y) == format!("{:?}", x),
            (Err(_), Err(_)) => true,
            (Ok(_), Err(_)) => d.pos != b.len(),
            (Err(_), Ok(_)) => false,
        };
        if !ok {
            READER_MISMATCH.with(|c| c.set(true));
        }
    }
    for n in [1usize, 7, 4096] {
        let mut d = DripN { b, pos: 0, n };
        let ok = match (T::consensus_decode(&mut d), &r) {
            (Ok(y), Ok(x)) => d.pos == b.len() && format!("{:?}", y) == format!("{:?}", x),
            (Err(_), Err(_)) => true,
            (Ok(_), Err(_)) => d.pos != b.len(),
            (Err(_), Ok(_)) => false,
        };
        if !ok {
            READER_MISMATCH.with(|c| c.set(true));
        }
    }
    r
}

// ------------------------------------------------------------------ ops, generic in the type
fn op_generic<T, W>(op: &str, args: &[&str], wrap: fn(T) -> W, unwrap: fn(&W) -> &T) -> Option<String>
where
    T: Decodable + Encodable + std::fmt::Debug,
    W: Tok,
{
    match op {
        "dec" => {
            let b = unhex(args.first()?)?;
            let r = deserialize_partial::<T>(&b);
            if !readers_agree(&b, &r) {
                return Some("READER-MISMATCH".into());
            }
            Some(match r {
                Ok((x, n)) => format!("OK {} {}", n, show(&wrap(x))),
                Err(e) => crate::err_shown(&e),
            })
        }
        "reser" => {
            let b = unhex(args.first()?)?;
            let r = deserialize_partial::<T>(&b);
            if !readers_agree(&b, &r) {
                return Some("READER-MISMATCH".into());
            }
            Some(match r {
                Ok((x, n)) => {
                    // the parsed value goes back through the encoder with its contract checked (reported length, every
                    // writer): the bytes a parsed object commits to must not depend on where they are written
                    let ser = match ser_checked(&x) {
                        Ok(b) => b,
                        Err(m) => return Some(m.to_string()),
                    };
                    if monero::consensus::encode::serialize_hex(&x) != hex::encode(&ser) {
                        return Some("SERIALIZE-HEX-MISMATCH".into());
                    }
                    format!("OK {} {}", n, show_hex(&ser))
                }
                Err(e) => crate::err_shown(&e),
            })
        }
        "decs" => {
            let b = unhex(args.first()?)?;
            Some(match deserialize::<T>(&b) {
                Ok(x) => format!("OK {}", show(&wrap(x))),
                Err(e) => crate::err_shown(&e),
            })
        }
        "enc" => {
            let w: W = parse_all(args)?;
            let mut buf = Vec::new();
            let len = unwrap(&w).consensus_encode(&mut buf).unwrap();
            // serialize_hex is the hex text of the same bytes
            if monero::consensus::encode::serialize_hex(unwrap(&w)) != hex::encode(&buf) {
                return Some("SERIALIZE-HEX-MISMATCH".into());
            }
            if !writers_agree(unwrap(&w), &buf, len) {
                return Some("WRITER-MISMATCH".into());
            }
            Some(format!("OK {} {}", show_hex(&buf), len))
        }
        "encshort" => {
            // encode into a fixed-size writer of n bytes: the encoder must pass the writer's error on, and a failed call
            // must not disturb later calls (no state is carried between encodings)
            let (n, rest) = args.split_first()?;
            let n: usize = n.parse().ok()?;
            let w: W = parse_all(rest)?;
            let mut buf = vec![0u8; n];
            let res = {
                let mut wr: &mut [u8] = &mut buf[..];
                unwrap(&w).consensus_encode(&mut wr)
            };
            Some(match res {
                Ok(len) => format!("OK {}", show_hex(&buf[..len.min(n)])),
                Err(e) => crate::err_shown(&e),
            })
        }
        "rt" => {
            let w: W = parse_all(args)?;
            let orig = show(&w);
            let mut buf = Vec::new();
            let len = unwrap(&w).consensus_encode(&mut buf).unwrap();
            if !writers_agree(unwrap(&w), &buf, len) {
                return Some("WRITER-MISMATCH".into());
            }
            let r = deserialize_partial::<T>(&buf);
            if !readers_agree(&buf, &r) {
                return Some("READER-MISMATCH".into());
            }
            let back = match r {
                Ok((x, n)) => format!("{} {}", (show(&wrap(x)) == orig) as u8, n),
                Err(e) => crate::err_shown(&e),
            };
            let strict = match deserialize::<T>(&buf) {
                Ok(x) => format!("{}", (show(&wrap(x)) == orig) as u8),
                Err(e) => crate::err_shown(&e),
            };
            let mut b2 = buf.clone();
            b2.push(0);
            let trailing = match deserialize::<T>(&b2) {
                Ok(_) => "ACCEPTED",
                Err(_) => "ERR",
            };
            Some(format!("OK {} {} {} {} {}", show_hex(&buf), len, back, strict, trailing))
        }
        _ => None,
    }
}

fn id<T>(x: T) -> T {
    x
}
fn idr<T>(x: &T) -> &T {
    x
}

macro_rules! plain {
    ($op:expr, $args:expr, $t:ty) => {
        op_generic::<$t, $t>($op, $args, id, idr)
    };
}
macro_rules! vecty {
    ($op:expr, $args:expr, $t:ty) => {
        op_generic::<Vec<$t>, V<$t>>($op, $args, V, |w| &w.0)
    };
}

pub fn sizes() -> String {
    use std::mem::size_of;
    format!(
        "@{},{},{},{},{}",
        size_of::<TxIn>(),
        size_of::<TxOut>(),
        size_of::<RangeSig>(),
        size_of::<Bulletproof>(),
        size_of::<BulletproofPlus>()
    )
}

// the two public RingCT decoders that take the counts from the caller
fn rct_direct(op: &str, args: &[&str]) -> Option<String> {
    let mut args = args;
    if let Some(a) = args.first() {
        if a.starts_with('@') {
            if *a != sizes() {
                return Some("SIZES-MISMATCH".into());
            }
            args = &args[1..];
        }
    }
    // counts beyond usize cannot be passed to the Rust function at all
    let num = |s: &str| -> Option<usize> { s.parse::<u64>().ok().map(|n| n as usize) };
    match (op, args) {
        ("dec_rctbase", [i, o, h]) => {
            let b = unhex(h)?;
            let mut cur = std::io::Cursor::new(&b[..]);
            Some(match RctSigBase::consensus_decode(&mut cur, num(i)?, num(o)?) {
                Ok(Some(x)) => format!(
                    "OK {} {} {}",
                    cur.position(),
                    ser_checked_hex(&x),
                    show(&x)
                ),
                Ok(None) => "OK-NONE".into(),
                Err(e) => crate::err_shown(&e),
            })
        }
        ("dec_rctprunable", [t, i, o, m, h]) => {
            let b = unhex(h)?;
            let ty = rct_of(t.parse().ok()?)?;
            let mut cur = std::io::Cursor::new(&b[..]);
            Some(match RctSigPrunable::consensus_decode(&mut cur, ty, num(i)?, num(o)?, num(m)?) {
                Ok(Some(x)) => {
                    let mut buf = Vec::new();
                    let len = x.consensus_encode(&mut buf, ty).unwrap();
                    // reported length = bytes written; the same bytes into a one-byte-per-call writer; nothing at all for type Null
                    let mut c = Chunk(Vec::new());
                    let mut none = Vec::new();
                    if len != buf.len()
                        || x.consensus_encode(&mut c, ty).ok() != Some(len)
                        || c.0 != buf
                        || x.consensus_encode(&mut none, RctType::Null).ok() != Some(0)
                        || !none.is_empty()
                    {
                        return Some("LENGTH-MISMATCH".into());
                    }
                    format!("OK {} {} {}", cur.position(), show_hex(&buf), show(&x))
                }
                Ok(None) => "OK 0 - none".into(),
                Err(e) => crate::err_shown(&e),
            })
        }
        _ => None,
    }
}

pub fn run(op: &str, args: &[&str]) -> Option<String> {
    if op == "sizes" {
        return Some(format!("OK {}", sizes()));
    }
    if op == "dec_rctbase" || op == "dec_rctprunable" {
        return rct_direct(op, args);
    }
    if !matches!(op, "dec" | "decs" | "enc" | "rt" | "reser" | "encshort") {
        return None;
    }
    // optional "@..." size table: must equal the real one (the model takes it as a parameter)
    let mut args = args;
    if let Some(a) = args.first() {
        if a.starts_with('@') {
            if *a != sizes() {
                return Some("SIZES-MISMATCH".into());
            }
            args = &args[1..];
        }
    }
    let (ty, rest) = args.split_first()?;
    match *ty {
        "varint" => plain!(op, rest, VarInt),
        "u8" => plain!(op, rest, u8),
        "u32" => plain!(op, rest, u32),
        "u16" => plain!(op, rest, u16),
        "u64" => plain!(op, rest, u64),
        "i8" => plain!(op, rest, i8),
        "i16" => plain!(op, rest, i16),
        "i32" => plain!(op, rest, i32),
        "i64" => plain!(op, rest, i64),
        "bool" => plain!(op, rest, bool),
        "string" => op_generic::<String, S>(op, rest, S, |w| &w.0),
        "klrki" => plain!(op, rest, MultisigKlrki),
        "multisigout" => plain!(op, rest, MultisigOut),
        "hash" => plain!(op, rest, Hash),
        "hash8" => plain!(op, rest, Hash8),
        "key64" => plain!(op, rest, Key64),
        "bytesvec" => plain!(op, rest, Vec<u8>),
        "txin" => plain!(op, rest, TxIn),
        "target" => plain!(op, rest, TxOutTarget),
        "txout" => plain!(op, rest, TxOut),
        "prefix" => plain!(op, rest, TransactionPrefix),
        "signature" => plain!(op, rest, Signature),
        "rcttype" => plain!(op, rest, RctType),
        "borosig" => plain!(op, rest, BoroSig),
        "rangesig" => plain!(op, rest, RangeSig),
        "bulletproof" => plain!(op, rest, Bulletproof),
        "bpplus" => plain!(op, rest, BulletproofPlus),
        "tx" => plain!(op, rest, Transaction),
        "header" => plain!(op, rest, BlockHeader),
        "block" => plain!(op, rest, Block),
        "box_u8" => op_generic::<Box<[u8]>, Bx<u8>>(op, rest, Bx, |w| &w.0),
        "box_hash" => op_generic::<Box<[Hash]>, Bx<Hash>>(op, rest, Bx, |w| &w.0),
        "box_varint" => op_generic::<Box<[VarInt]>, Bx<VarInt>>(op, rest, Bx, |w| &w.0),
        "vec_txin" => vecty!(op, rest, TxIn),
        "vec_txout" => vecty!(op, rest, TxOut),
        "vec_varint" => vecty!(op, rest, VarInt),
        "vec_hash" => vecty!(op, rest, Hash),
        "vec_bulletproof" => vecty!(op, rest, Bulletproof),
        _ => None,
    }
}
