// Transaction-extra ops (mirror of coq/Model/OpsExtra.v), public API only:
//   ExtraField::try_parse, RawExtraField::try_parse, RawExtraField::from(ExtraField), serialize,
//   deserialize[_partial]::<SubField>, ExtraField::{tx_pubkey, tx_additional_pubkeys}.
// Token form of a sub-field:  pk <hex32> | nonce <hex> | pad <n> | mm <depth> <hex32> | add <n> <hex32>* | mg <hex>
use crate::ops_codec::{P, Toks};
use crate::{show_hex, unhex};
use monero::blockdata::transaction::{ExtraField, RawExtraField, SubField};
use monero::consensus::encode::{deserialize, deserialize_partial, serialize, VarInt};
use monero::cryptonote::hash::Hash;
use monero::PublicKey;

fn show_sub(f: &SubField, out: &mut Toks) {
    match f {
        SubField::TxPublicKey(k) => {
            out.push("pk".into());
            out.push(show_hex(k.as_bytes()))
        }
        SubField::Nonce(b) => {
            out.push("nonce".into());
            out.push(show_hex(b))
        }
        SubField::Padding(n) => {
            out.push("pad".into());
            out.push(n.to_string())
        }
        SubField::MergeMining(d, h) => {
            out.push("mm".into());
            out.push(d.0.to_string());
            out.push(show_hex(&h.0))
        }
        SubField::AdditionalPublickKey(ks) => {
            out.push("add".into());
            out.push(ks.len().to_string());
            for k in ks {
                out.push(show_hex(k.as_bytes()))
            }
        }
        SubField::MysteriousMinerGate(b) => {
            out.push("mg".into());
            out.push(show_hex(b))
        }
    }
}
fn show_subs(fs: &[SubField], out: &mut Toks) {
    out.push(fs.len().to_string());
    for f in fs {
        show_sub(f, out)
    }
}
fn sub_str(f: &SubField) -> String {
    let mut o = Vec::new();
    show_sub(f, &mut o);
    o.join(" ")
}

// Err(false): not a description (BADCASE); Err(true): a description whose value cannot be constructed
fn key(p: &mut P) -> Result<PublicKey, bool> {
    let b = p.b().ok_or(false)?;
    PublicKey::from_slice(&b).map_err(|_| true)
}
fn parse_sub(p: &mut P) -> Result<SubField, bool> {
    match p.word().ok_or(false)? {
        "pk" => Ok(SubField::TxPublicKey(key(p)?)),
        "nonce" => Ok(SubField::Nonce(p.b().ok_or(false)?)),
        "pad" => {
            let w = p.word().ok_or(false)?;
            if w.is_empty() || !w.bytes().all(|c| c.is_ascii_digit()) {
                return Err(false);
            }
            Ok(SubField::Padding(w.parse::<u8>().map_err(|_| true)?))
        }
        "mm" => {
            let w = p.word().ok_or(false)?;
            if w.is_empty() || !w.bytes().all(|c| c.is_ascii_digit()) {
                return Err(false);
            }
            let d = w.parse::<u64>().map_err(|_| true);
            let h = p.b().ok_or(false)?;
            let d = d?;
            if h.len() != 32 {
                return Err(true);
            }
            let mut a = [0u8; 32];
            a.copy_from_slice(&h);
            Ok(SubField::MergeMining(VarInt(d), Hash(a)))
        }
        "add" => {
            let n = p.n().ok_or(false)?;
            let mut ks = Vec::new();
            let mut bad = false;
            for _ in 0..n {
                match key(p) {
                    Ok(k) => ks.push(k),
                    Err(true) => bad = true,
                    Err(false) => return Err(false),
                }
            }
            if bad {
                Err(true)
            } else {
                Ok(SubField::AdditionalPublickKey(ks))
            }
        }
        "mg" => Ok(SubField::MysteriousMinerGate(p.b().ok_or(false)?)),
        _ => Err(false),
    }
}
fn parse_subs(args: &[&str]) -> Result<Vec<SubField>, bool> {
    let mut p = P { t: args, i: 0 };
    let n = p.n().ok_or(false)?;
    let mut v = Vec::new();
    let mut bad = false;
    for _ in 0..n {
        match parse_sub(&mut p) {
            Ok(f) => v.push(f),
            Err(true) => bad = true,
            Err(false) => return Err(false),
        }
    }
    if p.i != args.len() {
        return Err(false);
    }
    if bad {
        Err(true)
    } else {
        Ok(v)
    }
}

fn show_fields(status: &str, e: &ExtraField, out: &mut Toks) {
    out.push(status.into());
    show_subs(&e.0, out);
    out.push("pk".into());
    match e.tx_pubkey() {
        Some(k) => out.push(show_hex(k.as_bytes())),
        None => out.push("none".into()),
    }
    out.push("add".into());
    match e.tx_additional_pubkeys() {
        Some(ks) => {
            out.push(ks.len().to_string());
            for k in ks {
                out.push(show_hex(k.as_bytes()))
            }
        }
        None => out.push("none".into()),
    }
}
fn show_parse(raw: &RawExtraField, out: &mut Toks) {
    let e = match ExtraField::try_parse(raw) {
        Ok(e) => {
            show_fields("OK", &e, out);
            e
        }
        Err(e) => {
            show_fields("PARTIAL", &e, out);
            e
        }
    };
    out.push(format!("raw={}", (raw.try_parse() == e) as u8));
}

pub fn run(op: &str, args: &[&str]) -> Option<String> {
    match op {
        "extra_parse" => {
            if args.len() != 1 {
                return None;
            }
            let raw = RawExtraField(unhex(args[0])?);
            let mut o = Vec::new();
            show_parse(&raw, &mut o);
            Some(o.join(" "))
        }
        "extra_enc" | "extra_rt" => {
            let fs = match parse_subs(args) {
                Ok(fs) => fs,
                Err(true) => return Some("ERR-BUILD".into()),
                Err(false) => return None,
            };
            let e = ExtraField(fs);
            for f in &e.0 {
                if let Err(m) = crate::ops_codec::ser_checked(f) {
                    return Some(format!("{} sub-field", m));
                }
            }
            let ser_len = match crate::ops_codec::ser_checked(&e) {
                Ok(b) => b.len(),
                Err(m) => return Some(m.to_string()),
            };
            let raw = RawExtraField::from(e);
            if op == "extra_enc" {
                Some(format!("OK {} {}", show_hex(&raw.0), ser_len))
            } else {
                let mut o: Toks = vec!["OK".into(), show_hex(&raw.0)];
                show_parse(&raw, &mut o);
                Some(o.join(" "))
            }
        }
        "extra_from_len" => {
            if args.len() != 1 {
                return None;
            }
            let n: usize = args[0].parse().ok()?;
            if n > 40_000_000 {
                return None;
            }
            let e = ExtraField(vec![SubField::Nonce(vec![0u8; n])]);
            let raw = RawExtraField::from(e);
            Some(format!("OK {}", raw.0.len()))
        }
        "subfield_dec" => {
            if args.len() != 1 {
                return None;
            }
            let b = unhex(args[0])?;
            Some(match crate::ops_codec::dp::<SubField>(&b) {
                Ok((f, n)) => format!("OK {} {}", n, sub_str(&f)),
                Err(e) => crate::err_shown(&e),
            })
        }
        "subfield_decs" => {
            if args.len() != 1 {
                return None;
            }
            let b = unhex(args[0])?;
            Some(match crate::ops_codec::ds::<SubField>(&b) {
                Ok(f) => format!("OK {}", sub_str(&f)),
                Err(e) => crate::err_shown(&e),
            })
        }
        "subfield_rt" => {
            let mut p = P { t: args, i: 0 };
            let f = match parse_sub(&mut p) {
                Ok(f) => f,
                Err(true) => return Some("ERR-BUILD".into()),
                Err(false) => return None,
            };
            if p.i != args.len() {
                return None;
            }
            let orig = sub_str(&f);
            let bs = match crate::ops_codec::ser_checked(&f) {
                Ok(b) => b,
                Err(m) => return Some(m.to_string()),
            };
            let back = match crate::ops_codec::dp::<SubField>(&bs) {
                Ok((g, n)) => format!("{} {}", (sub_str(&g) == orig) as u8, n),
                Err(e) => crate::err_shown(&e),
            };
            let strict = match crate::ops_codec::ds::<SubField>(&bs) {
                Ok(g) => format!("{}", (sub_str(&g) == orig) as u8),
                Err(e) => crate::err_shown(&e),
            };
            Some(format!("OK {} {} {} {}", show_hex(&bs), bs.len(), back, strict))
        }
        _ => None,
    }
}
