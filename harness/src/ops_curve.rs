// C13 (keys), C10 (key derivation), C11 (subaddresses): public API of the crate only.
use crate::{show_hex, unhex};
use curve25519_dalek::constants::EIGHT_TORSION;
use curve25519_dalek::edwards::CompressedEdwardsY;
use monero::consensus::encode::{deserialize_partial, serialize};
use monero::cryptonote::hash::Hashable;
use monero::cryptonote::onetime_key::KeyGenerator;
use monero::cryptonote::subaddress::{self, Index};
use monero::util::address::AddressType;
use monero::util::key::{KeyPair, PrivateKey, PublicKey, ViewPair};
use monero::Network;
use std::convert::TryInto;
use std::str::FromStr;

fn net_s(n: Network) -> &'static str {
    match n {
        Network::Mainnet => "main",
        Network::Testnet => "test",
        Network::Stagenet => "stage",
    }
}
fn err() -> Option<String> {
    Some("ERR".to_string())
}
fn raw_pk(b: &[u8]) -> Option<PublicKey> {
    let a: [u8; 32] = b.try_into().ok()?;
    Some(PublicKey {
        point: CompressedEdwardsY(a),
    })
}
fn b01(b: bool) -> &'static str {
    if b {
        "1"
    } else {
        "0"
    }
}

macro_rules! sk {
    ($h:expr) => {
        match PrivateKey::from_slice(&unhex($h)?) {
            Ok(k) => k,
            Err(_) => return err(),
        }
    };
}
macro_rules! pk {
    ($h:expr) => {
        match PublicKey::from_slice(&unhex($h)?) {
            Ok(k) => k,
            Err(_) => return err(),
        }
    };
}

pub fn run(op: &str, args: &[&str]) -> Option<String> {
    match (op, args) {
        ("sk", [h]) => {
            // three acceptance routes (from_slice, TryFrom<&[u8]>, TryFrom<[u8; 32]>) and both printing routes
            let b = unhex(h)?;
            let r0 = PrivateKey::from_slice(&b).ok();
            let r1 = PrivateKey::try_from(&b[..]).ok();
            let r2 = match <[u8; 32]>::try_from(&b[..]) {
                Ok(a) => PrivateKey::try_from(a).ok(),
                Err(_) => r0, // no array of another length exists
            };
            if r0.is_none() && r1.is_none() && r2.is_none() {
                return err();
            }
            if let Some(k) = r0 {
                let again = PrivateKey::try_from(&k.to_bytes()[..]).ok()?;
                if again != k || k.as_bytes() != &k.to_bytes()[..] || PrivateKey::from_scalar(k.scalar) != k {
                    return Some("OK inconsistent".to_string());
                }
            }
            let e = || "err".to_string();
            Some(format!(
                "OK {} {} {} {} {} {}",
                r0.map_or_else(e, |k| show_hex(&k.to_bytes())),
                r0.map_or_else(e, |k| format!("{}", k)),
                r0.map_or_else(e, |k| crate::ops_codec::ser_checked_hex(&k)),
                r1.map_or_else(e, |k| show_hex(&k.to_bytes())),
                r2.map_or_else(e, |k| show_hex(&k.to_bytes())),
                r0.map_or_else(e, |k| k.to_string())
            ))
        }
        ("sk_str", [h]) => {
            let s = String::from_utf8(unhex(h)?).ok()?;
            Some(match PrivateKey::from_str(&s) {
                Ok(k) => format!("OK {}", show_hex(&k.to_bytes())),
                Err(e) => crate::err_shown(&e),
            })
        }
        ("sk_dec", [h]) => Some(match crate::ops_codec::dp::<PrivateKey>(&unhex(h)?) {
            Ok((k, n)) => format!("OK {} {}", show_hex(&k.to_bytes()), n),
            Err(e) => crate::err_shown(&e),
        }),
        ("pk", [h]) => {
            let b = unhex(h)?;
            let r0 = PublicKey::from_slice(&b).ok();
            let r1 = PublicKey::try_from(&b[..]).ok();
            let r2 = match <[u8; 32]>::try_from(&b[..]) {
                Ok(a) => PublicKey::try_from(a).ok(),
                Err(_) => r0,
            };
            if r0.is_none() && r1.is_none() && r2.is_none() {
                return err();
            }
            if let Some(k) = r0 {
                if k.as_bytes() != &k.to_bytes()[..] {
                    return Some("OK inconsistent".to_string());
                }
            }
            let e = || "err".to_string();
            Some(format!(
                "OK {} {} {} {} {} {} {}",
                r0.map_or_else(e, |k| show_hex(&k.to_bytes())),
                r0.map_or_else(e, |k| format!("{}", k)),
                r0.map_or_else(e, |k| crate::ops_codec::ser_checked_hex(&k)),
                r1.map_or_else(e, |k| show_hex(&k.to_bytes())),
                r2.map_or_else(e, |k| show_hex(&k.to_bytes())),
                r0.map_or_else(e, |k| k.to_string()),
                r0.map_or_else(e, |k| format!("{:?}", k))
            ))
        }
        ("pk_hash", [h]) => {
            let k = pk!(h);
            Some(format!("OK {}", show_hex(&Hashable::hash(&k).to_bytes())))
        }
        ("viewpair", [v, s]) => {
            let (v, s) = (sk!(v), sk!(s));
            let kp = KeyPair { view: v, spend: s };
            let by_ref = ViewPair::from(&kp);
            let by_val = ViewPair::from(kp);
            Some(format!(
                "OK {} {} {} {} {}",
                show_hex(&by_val.view.to_bytes()),
                show_hex(by_val.spend.as_bytes()),
                show_hex(&by_ref.view.to_bytes()),
                show_hex(by_ref.spend.as_bytes()),
                show_hex(PublicKey::from_private_key(&s).as_bytes())
            ))
        }
        ("pk_str", [h]) => {
            let s = String::from_utf8(unhex(h)?).ok()?;
            Some(match PublicKey::from_str(&s) {
                Ok(k) => format!("OK {}", show_hex(&k.to_bytes())),
                Err(e) => crate::err_shown(&e),
            })
        }
        ("pk_dec", [h]) => Some(match crate::ops_codec::dp::<PublicKey>(&unhex(h)?) {
            Ok((k, n)) => format!("OK {} {}", show_hex(&k.to_bytes()), n),
            Err(e) => crate::err_shown(&e),
        }),
        ("pkop", ["add", x, y]) => {
            let (p, q) = (pk!(x), pk!(y));
            let r = p + q;
            if &p + &q != r || &p + q != r || p + &q != r {
                return Some("OK inconsistent".to_string());
            }
            Some(format!("OK {}", show_hex(r.as_bytes())))
        }
        ("pkop", ["sub", x, y]) => {
            let (p, q) = (pk!(x), pk!(y));
            let r = p - q;
            if &p - &q != r || &p - q != r || p - &q != r {
                return Some("OK inconsistent".to_string());
            }
            Some(format!("OK {}", show_hex(r.as_bytes())))
        }
        ("pkop", ["mul", x, y]) => {
            let (s, q) = (sk!(x), pk!(y));
            let r1 = s * &q;
            let r1b = &s * &q;
            let r2 = q * &s;
            if r1 != r1b {
                return Some("OK inconsistent".to_string());
            }
            Some(format!("OK {} {}", show_hex(r1.as_bytes()), show_hex(r2.as_bytes())))
        }
        ("pkop", ["frompriv", x]) => {
            let s = sk!(x);
            Some(format!("OK {}", show_hex(PublicKey::from_private_key(&s).as_bytes())))
        }
        ("pkraw", ["add", x, y]) => {
            let (p, q) = (raw_pk(&unhex(x)?)?, raw_pk(&unhex(y)?)?);
            Some(format!("OK {}", show_hex((p + q).as_bytes())))
        }
        ("pkraw", ["sub", x, y]) => {
            let (p, q) = (raw_pk(&unhex(x)?)?, raw_pk(&unhex(y)?)?);
            Some(format!("OK {}", show_hex((p - q).as_bytes())))
        }
        ("pkraw", ["mul", x, y]) => {
            let q = raw_pk(&unhex(y)?)?;
            let s = sk!(x);
            Some(format!("OK {}", show_hex((s * &q).as_bytes())))
        }
        ("skop", ["add", x, y]) => {
            let (a, b) = (sk!(x), sk!(y));
            let r = a + b;
            if &a + &b != r || &a + b != r || a + &b != r {
                return Some("OK inconsistent".to_string());
            }
            Some(format!("OK {}", show_hex(&r.to_bytes())))
        }
        ("skop", ["mul", x, y]) => {
            let (a, b) = (sk!(x), sk!(y));
            Some(format!("OK {}", show_hex(&(a * b).to_bytes())))
        }
        ("skop", ["mulu8", x, n]) => {
            let n: u8 = n.parse().ok()?;
            let a = sk!(x);
            Some(format!("OK {}", show_hex(&(a * n).to_bytes())))
        }
        ("ident", [x, y]) => {
            let (a, b) = (sk!(x), sk!(y));
            let pa = PublicKey::from_private_key(&a);
            let pb = PublicKey::from_private_key(&b);
            let ab = pa + pb;
            Some(format!(
                "OK {} {} {} {} {} {}",
                show_hex(PublicKey::from_private_key(&(a + b)).as_bytes()),
                show_hex(ab.as_bytes()),
                show_hex((a * &pb).as_bytes()),
                show_hex(PublicKey::from_private_key(&(a * b)).as_bytes()),
                show_hex((ab - pb).as_bytes()),
                show_hex(pa.as_bytes())
            ))
        }
        ("torsion", [i]) => {
            let i: usize = i.parse().ok()?;
            if i >= 8 {
                return None;
            }
            Some(format!("OK {}", show_hex(EIGHT_TORSION[i].compress().as_bytes())))
        }
        ("derive", [a, b]) => {
            let (a, b) = (sk!(a), pk!(b));
            let one = PrivateKey::from_slice(&{
                let mut o = [0u8; 32];
                o[0] = 1;
                o
            })
            .ok()?;
            let dummy = PublicKey::from_private_key(&one);
            let g1 = KeyGenerator::from_key(&ViewPair { view: a, spend: dummy }, b);
            let g2 = KeyGenerator::from_random(b, dummy, a);
            Some(format!("OK {} {}", show_hex(g1.rv.as_bytes()), show_hex(g2.rv.as_bytes())))
        }
        ("onetime", [s, a, b, i]) => {
            let i: usize = i.parse().ok()?;
            let (s, a, b) = (pk!(s), sk!(a), pk!(b));
            let vp = ViewPair { view: a, spend: s };
            let g = KeyGenerator::from_key(&vp, b);
            let p = g.one_time_key(i);
            let sc = g.get_rvn_scalar(i);
            let c = g.check(i, p);
            let cand = p - PublicKey::from_private_key(&g.get_rvn_scalar(i));
            Some(format!(
                "OK {} {} {} {}",
                show_hex(p.as_bytes()),
                show_hex(&sc.to_bytes()),
                b01(c),
                show_hex(cand.as_bytes())
            ))
        }
        ("sendrecv", [r, v, s, i]) => {
            let i: usize = i.parse().ok()?;
            let (r, v, s) = (sk!(r), sk!(v), pk!(s));
            let rr = PublicKey::from_private_key(&r);
            let vv = PublicKey::from_private_key(&v);
            let g1 = KeyGenerator::from_random(vv, s, r);
            let p = g1.one_time_key(i);
            let vp = ViewPair { view: v, spend: s };
            let g2 = KeyGenerator::from_key(&vp, rr);
            let c = g2.check(i, p);
            let cand = p - PublicKey::from_private_key(&g2.get_rvn_scalar(i));
            Some(format!(
                "OK {} {} {} {}",
                show_hex(rr.as_bytes()),
                show_hex(p.as_bytes()),
                b01(c),
                show_hex(cand.as_bytes())
            ))
        }
        ("subaddr", [v, s, i, j, n]) => {
            let i: u32 = i.parse().ok()?;
            let j: u32 = j.parse().ok()?;
            let net = match *n {
                "none" => None,
                "main" => Some(Network::Mainnet),
                "test" => Some(Network::Testnet),
                "stage" => Some(Network::Stagenet),
                _ => return None,
            };
            let (v, s) = (sk!(v), sk!(s));
            let idx = Index { major: i, minor: j };
            if idx.is_zero() != (i == 0 && j == 0) || format!("{}", idx) != format!("{}/{}", i, j) || idx != (Index { major: i, minor: j }) {
                return Some("ROUTE-MISMATCH Index::is_zero / Display / Eq".to_string());
            }
            let kp = KeyPair { view: v, spend: s };
            let vp = ViewPair {
                view: v,
                spend: PublicKey::from_private_key(&s),
            };
            let m = subaddress::get_secret_scalar(&v, idx);
            let s1 = subaddress::get_spend_secret_key(&kp, idx);
            let v1 = subaddress::get_view_secret_key(&kp, idx);
            let kp2 = subaddress::get_secret_keys(&kp, idx);
            let sp = subaddress::get_spend_public_key(&vp, idx);
            let (vpub, sp2) = subaddress::get_public_keys(&vp, idx);
            let ad = subaddress::get_subaddress(&vp, idx, net);
            let ty = match ad.addr_type {
                AddressType::Standard => "std".to_string(),
                AddressType::SubAddress => "sub".to_string(),
                AddressType::Integrated(p) => format!("int:{}", show_hex(&p.0)),
            };
            Some(format!(
                "OK {} {} {} {} {} {} {} {} {} {} {} {}",
                show_hex(&m.to_bytes()),
                show_hex(&s1.to_bytes()),
                show_hex(&v1.to_bytes()),
                show_hex(&kp2.view.to_bytes()),
                show_hex(&kp2.spend.to_bytes()),
                show_hex(sp.as_bytes()),
                show_hex(vpub.as_bytes()),
                show_hex(sp2.as_bytes()),
                net_s(ad.network),
                ty,
                show_hex(ad.public_spend.as_bytes()),
                show_hex(ad.public_view.as_bytes())
            ))
        }
        _ => None,
    }
}
