// C14 (VarInt) and C20 (tag table) operations.
use crate::{show_hex, unhex};
use monero::consensus::encode::{deserialize_partial, Encodable, VarInt};
use monero::util::address::{AddressType, PaymentId};
use monero::Network;

fn net(s: &str) -> Option<Network> {
    match s {
        "main" => Some(Network::Mainnet),
        "test" => Some(Network::Testnet),
        "stage" => Some(Network::Stagenet),
        _ => None,
    }
}
fn net_s(n: Network) -> &'static str {
    match n {
        Network::Mainnet => "main",
        Network::Testnet => "test",
        Network::Stagenet => "stage",
    }
}

pub fn run(op: &str, args: &[&str]) -> Option<String> {
    match (op, args) {
        ("varint_dec", [h]) => {
            let b = unhex(h)?;
            let r = deserialize_partial::<VarInt>(&b);
            if !crate::ops_codec::readers_agree(&b, &r) {
                return Some("READER-MISMATCH".to_string());
            }
            Some(match r {
                Ok((v, n)) => format!("OK {} {}", v.0, n),
                Err(e) => crate::err_shown(&e),
            })
        }
        ("varint_enc", [n]) => {
            let n: u64 = n.parse().ok()?;
            let mut buf = Vec::new();
            let len = VarInt(n).consensus_encode(&mut buf).unwrap();
            if !crate::ops_codec::writers_agree(&VarInt(n), &buf, len) || *VarInt(n) != n || format!("{}", VarInt(n)) != n.to_string() || format!("{:?}", VarInt(n)) != n.to_string() {
                return Some("WRITER-MISMATCH".to_string());
            }
            Some(format!("OK {} {}", show_hex(&buf), len))
        }
        ("varint_sweep", [h]) => {
            let pre = unhex(h)?;
            let (mut nok, mut sv, mut sc, mut hh): (u128, u128, u128, u128) = (0, 0, 0, 7);
            let m: u128 = 2305843009213693951;
            for b12 in 0..65536u32 {
                let mut s = pre.clone();
                s.push((b12 / 256) as u8);
                s.push((b12 % 256) as u8);
                match deserialize_partial::<VarInt>(&s) {
                    Ok((v, c)) => {
                        nok += 1;
                        sv += v.0 as u128;
                        sc += c as u128;
                        hh = (hh * 1000003 + ((v.0 as u128) * 16 + c as u128)) % m;
                    }
                    Err(_) => hh = (hh * 1000003 + 1) % m,
                }
            }
            Some(format!("OK {} {} {} {}", nok, sv, sc, hh))
        }
        ("varint_rt", [n]) => {
            let n: u64 = n.parse().ok()?;
            let buf = monero::consensus::encode::serialize(&VarInt(n));
            Some(match deserialize_partial::<VarInt>(&buf) {
                Ok((v, k)) if k == buf.len() => format!("OK {}", v.0),
                Ok((v, _)) => format!("OK {} leftover", v.0),
                Err(e) => crate::err_shown(&e),
            })
        }
        ("net_as", [n, t]) => {
            let n = net(n)?;
            let t = match *t {
                "std" => AddressType::Standard,
                "sub" => AddressType::SubAddress,
                "int" => AddressType::Integrated(PaymentId([0u8; 8])),
                _ => return None,
            };
            Some(format!("OK {}", n.as_u8(&t)))
        }
        ("net_from", [b]) => {
            let b: u8 = b.parse().ok()?;
            Some(match Network::from_u8(b) {
                Ok(n) => format!("OK {}", net_s(n)),
                Err(e) => crate::err_shown(&e),
            })
        }
        ("atype", [n, h]) => {
            let n = net(n)?;
            let b = unhex(h)?;
            Some(match AddressType::from_slice(&b, n) {
                Ok(AddressType::Standard) => "OK std".to_string(),
                Ok(AddressType::SubAddress) => "OK sub".to_string(),
                Ok(AddressType::Integrated(p)) => format!("OK int:{}", show_hex(&p.0)),
                Err(e) => crate::err_shown(&e),
            })
        }
        _ => None,
    }
}
